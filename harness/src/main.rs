//! Correspondence harness: runs the real saito-core code and writes, per case, the request line
//! for the Lean model driver and the implementation's canonical answer.
mod alloc;
mod chain;
mod codec;
mod common;
mod hs;
mod merkle;
mod node;
mod restart;
mod sync;
mod work;
mod pool;
mod supply;
mod wallet;
mod txv;
mod syncnodes;
mod produce;
mod atr;
mod dispatch;

#[global_allocator]
static GLOBAL: alloc::Counting = alloc::Counting;

fn main() {
    let args: Vec<String> = std::env::args().collect();
    if args.len() < 5 {
        eprintln!("usage: harness <suite> <seed> <tier> <outdir>");
        std::process::exit(2);
    }
    let suite = args[1].as_str();
    let seed: u64 = args[2].parse().unwrap_or(1);
    let tier = args[3].as_str();
    let out = args[4].as_str();
    if std::env::var("VERIF_LOUD").is_err() {
        common::quiet_panics();
    }
    if std::env::var("VERIF_LOG").is_ok() {
        // debugging aid: the real code's warn!/error! lines on stderr
        struct L;
        impl log::Log for L {
            fn enabled(&self, m: &log::Metadata) -> bool {
                m.level() <= log::Level::Warn
            }
            fn log(&self, r: &log::Record) {
                if self.enabled(r.metadata()) {
                    eprintln!("[{}] {}", r.level(), r.args());
                }
            }
            fn flush(&self) {}
        }
        static LOGGER: L = L;
        let _ = log::set_logger(&LOGGER);
        log::set_max_level(log::LevelFilter::Warn);
    }
    match suite {
        "codec" => codec::run(seed, tier, out),
        "codec-worker" => codec::worker(seed, tier, args[4].parse().unwrap_or(0)),
        "chain" => chain::run(seed, tier, out),
        "merkle" => merkle::run(seed, tier, out),
        "hs" => hs::run(seed, tier, out),
        "sync" => sync::run(seed, tier, out),
        "disk" => restart::run(seed, tier, out),
        "disk-worker" => restart::worker(seed, tier, args[4].parse().unwrap_or(0)),
        "disk-probe" => restart::probe(seed, tier),
        "disk-one" => restart::one(seed, &args[3]),
        "disk-flags" => println!("{}", restart::calibrate()),
        // replay of a handshake script (.ops file or a replay JSON of ./check): harness hs-script <seed> <file> <outdir>
        "hs-script" => hs::run_script(seed, tier, out),
        "merkle-one" => merkle::one(&args[2], &args[3]),
        "chain-worker" => chain::worker(seed, tier, args[4].parse().unwrap_or(0)),
        "chain-flags" => println!("{}", chain::calibrate()),
        "codec-one" => {
            // replay of a single decoder input: harness codec-one <fmt> <hex> x
            let b = if args[3] == "-" { vec![] } else { hex::decode(&args[3]).unwrap() };
            println!("{}", codec::impl_decode(&args[2], &b).0);
        }
        "bf" => work::run(seed, tier, out),
        "pool" => pool::run(seed, tier, out),
        "pool-one" => pool::one(seed, &args[3]),
        "pool-flags" => println!("{}", pool::calibrate()),
        "supply" => supply::run(seed, tier, out),
        "supply-worker" => supply::worker(seed, tier, args[4].parse().unwrap_or(0)),
        "supply-flags" => println!("{}", supply::calibrate()),
        "wallet" => wallet::run(seed, tier, out),
        "wallet-one" => wallet::one(&args[2]),
        "wallet-flags" => println!("{}", wallet::calibrate()),
        "txv" => txv::run(seed, tier, out),
        "txv-flags" => txv::print_flags(),
        "forkid" => syncnodes::run(seed, tier, out),
        "forkid-explore" => syncnodes::explore(),
        "forkid-grind" => syncnodes::grind(),
        "forkid-worker" => syncnodes::worker(seed, tier, args[4].parse().unwrap_or(0)),
        "produce" => produce::run(seed, tier, out),
        "produce-one" => produce::one(&args[2], args[3].parse().unwrap_or(1)),
        // debugging aid: print the text of a generated scenario: harness produce-dump <seed> <tier> <name>
        "produce-dump" => {
            for sc in produce::scenarios(seed, tier) {
                if sc.name == args[4] {
                    println!("{}", produce::scenario_text(&sc));
                }
            }
        }
        "produce-worker" => produce::worker(seed, tier, args[4].parse().unwrap_or(0)),
        "atr" => atr::run(seed, tier, out),
        "atr-worker" => atr::worker(seed, tier, args[4].parse().unwrap_or(0)),
        "atr-flags" => println!("{}", atr::calibrate()),
        "atr-one" => atr::one(&args[2..].join(" ")),
        "disp" => dispatch::run(seed, tier, out),
        "disp-worker" => dispatch::worker(seed, tier, args[4].parse().unwrap_or(0)),
        "disp-explore" => dispatch::explore(&args[2]),
        "disp-witness" => dispatch::witness_one(&args[2]),
        _ => {
            eprintln!("unknown suite {}", suite);
            std::process::exit(2);
        }
    }
}
