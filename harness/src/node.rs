//! A real saito-core node without sockets: Blockchain + Mempool + Wallet + Storage over an in-memory
//! InterfaceIO that journals every storage operation. Port of the repo's `#[cfg(test)]` TestManager /
//! TestIOHandler (which are not visible to an external crate), plus a deterministic block factory.
use crate::common::*;
use async_trait::async_trait;
use saito_core::core::consensus::block::{Block, BlockType};
use saito_core::core::consensus::blockchain::{AddBlockResult, Blockchain};
use saito_core::core::consensus::golden_ticket::GoldenTicket;
use saito_core::core::consensus::mempool::Mempool;
use saito_core::core::consensus::peers::peer_service::PeerService;
use saito_core::core::consensus::slip::{Slip, SlipType};
use saito_core::core::consensus::transaction::{Transaction, TransactionType};
use saito_core::core::consensus::wallet::Wallet;
use saito_core::core::defs::{
    BlockId, Currency, PeerIndex, SaitoHash, SaitoPrivateKey, SaitoPublicKey, SaitoSignature, SaitoUTXOSetKey, Timestamp,
};
use saito_core::core::io::interface_io::{InterfaceEvent, InterfaceIO};
use saito_core::core::io::storage::Storage;
use saito_core::core::util::configuration::{BlockchainConfig, Configuration, ConsensusConfig, PeerConfig, Server};
use saito_core::core::util::crypto::{generate_keypair_from_private_key, hash};
use std::collections::BTreeMap;
use std::io::{Error, ErrorKind};
use std::sync::{Arc, Mutex};
use tokio::sync::RwLock;

#[derive(Clone, Debug, PartialEq)]
pub enum DiskOp {
    Write(String, Vec<u8>),
    Remove(String),
}

#[derive(Default, Debug)]
pub struct Disk {
    pub files: BTreeMap<String, Vec<u8>>,
    pub journal: Vec<DiskOp>,
    pub sent: Vec<(u64, Vec<u8>)>,
    pub sent_all: Vec<Vec<u8>>,
    pub fetches: Vec<(SaitoHash, u64, String, BlockId)>,
    pub disconnects: Vec<u64>,
    pub events: Vec<String>,
}

#[derive(Clone, Debug)]
pub struct MemIO {
    pub disk: Arc<Mutex<Disk>>,
}
impl MemIO {
    pub fn new() -> MemIO {
        MemIO { disk: Arc::new(Mutex::new(Disk::default())) }
    }
}

pub const BLOCK_DIR: &str = "./data/blocks/";

#[async_trait]
impl InterfaceIO for MemIO {
    async fn send_message(&self, peer_index: u64, buffer: &[u8]) -> Result<(), Error> {
        self.disk.lock().unwrap().sent.push((peer_index, buffer.to_vec()));
        Ok(())
    }
    async fn send_message_to_all(&self, buffer: &[u8], _excluded: Vec<u64>) -> Result<(), Error> {
        self.disk.lock().unwrap().sent_all.push(buffer.to_vec());
        Ok(())
    }
    async fn connect_to_peer(&mut self, _url: String, _peer_index: PeerIndex) -> Result<(), Error> {
        Ok(())
    }
    async fn disconnect_from_peer(&self, peer_index: u64) -> Result<(), Error> {
        self.disk.lock().unwrap().disconnects.push(peer_index);
        Ok(())
    }
    async fn fetch_block_from_peer(&self, block_hash: SaitoHash, peer_index: u64, url: &str, block_id: BlockId) -> Result<(), Error> {
        self.disk.lock().unwrap().fetches.push((block_hash, peer_index, url.to_string(), block_id));
        Ok(())
    }
    async fn write_value(&self, key: &str, value: &[u8]) -> Result<(), Error> {
        let mut d = self.disk.lock().unwrap();
        d.journal.push(DiskOp::Write(key.to_string(), value.to_vec()));
        d.files.insert(key.to_string(), value.to_vec());
        Ok(())
    }
    async fn append_value(&mut self, _key: &str, _value: &[u8]) -> Result<(), Error> {
        Ok(())
    }
    async fn flush_data(&mut self, _key: &str) -> Result<(), Error> {
        Ok(())
    }
    async fn read_value(&self, key: &str) -> Result<Vec<u8>, Error> {
        match self.disk.lock().unwrap().files.get(key) {
            Some(v) => Ok(v.clone()),
            None => Err(Error::from(ErrorKind::NotFound)),
        }
    }
    async fn load_block_file_list(&self) -> Result<Vec<String>, Error> {
        let d = self.disk.lock().unwrap();
        Ok(d.files
            .keys()
            .filter(|k| k.starts_with(BLOCK_DIR) && k.ends_with(".sai"))
            .map(|k| k[BLOCK_DIR.len()..].to_string())
            .collect())
    }
    async fn is_existing_file(&self, key: &str) -> bool {
        self.disk.lock().unwrap().files.contains_key(key)
    }
    async fn remove_value(&self, key: &str) -> Result<(), Error> {
        let mut d = self.disk.lock().unwrap();
        d.journal.push(DiskOp::Remove(key.to_string()));
        d.files.remove(key);
        Ok(())
    }
    fn get_block_dir(&self) -> String {
        BLOCK_DIR.to_string()
    }
    fn get_checkpoint_dir(&self) -> String {
        "./data/checkpoints/".to_string()
    }
    fn ensure_block_directory_exists(&self, _block_dir: &str) -> Result<(), Error> {
        Ok(())
    }
    async fn process_api_call(&self, _buffer: Vec<u8>, _msg_index: u32, _peer_index: PeerIndex) {}
    async fn process_api_success(&self, _buffer: Vec<u8>, _msg_index: u32, _peer_index: PeerIndex) {}
    async fn process_api_error(&self, _buffer: Vec<u8>, _msg_index: u32, _peer_index: PeerIndex) {}
    fn send_interface_event(&self, event: InterfaceEvent) {
        let s = match event {
            InterfaceEvent::PeerHandshakeComplete(i) => format!("handshake_complete {}", i),
            InterfaceEvent::PeerConnectionDropped(i, _) => format!("dropped {}", i),
            InterfaceEvent::PeerConnected(i) => format!("connected {}", i),
            InterfaceEvent::BlockAddSuccess(_, id) => format!("block_add {}", id),
            InterfaceEvent::WalletUpdate() => "wallet_update".to_string(),
            _ => "other".to_string(),
        };
        self.disk.lock().unwrap().events.push(s);
    }
    async fn save_wallet(&self, _wallet: &mut Wallet) -> Result<(), Error> {
        Ok(())
    }
    async fn load_wallet(&self, _wallet: &mut Wallet) -> Result<(), Error> {
        Ok(())
    }
    fn get_my_services(&self) -> Vec<PeerService> {
        vec![]
    }
}

#[derive(Debug, Clone)]
pub struct Cfg {
    pub consensus: ConsensusConfig,
    pub blockchain: BlockchainConfig,
    pub peers: Vec<PeerConfig>,
    pub spv: bool,
    pub browser: bool,
    pub server: Option<Server>,
}
impl Cfg {
    pub fn new(genesis_period: u64, heartbeat: u64, prune_after: u64) -> Cfg {
        let mut bc = BlockchainConfig::default();
        bc.issuance_writing_block_interval = 0;
        Cfg {
            consensus: ConsensusConfig {
                genesis_period,
                heartbeat_interval: heartbeat,
                prune_after_blocks: prune_after,
                max_staker_recursions: 3,
                default_social_stake: 0,
                default_social_stake_period: 60,
            },
            blockchain: bc,
            peers: vec![],
            spv: false,
            browser: false,
            server: None,
        }
    }
}
impl Configuration for Cfg {
    fn get_server_configs(&self) -> Option<&Server> {
        self.server.as_ref()
    }
    fn get_peer_configs(&self) -> &Vec<PeerConfig> {
        &self.peers
    }
    fn get_blockchain_configs(&self) -> &BlockchainConfig {
        &self.blockchain
    }
    fn get_block_fetch_url(&self) -> String {
        "http://localhost:12101/block/".to_string()
    }
    fn is_spv_mode(&self) -> bool {
        self.spv
    }
    fn is_browser(&self) -> bool {
        self.browser
    }
    fn replace(&mut self, _config: &dyn Configuration) {}
    fn get_consensus_config(&self) -> Option<&ConsensusConfig> {
        Some(&self.consensus)
    }
}

/// deterministic key pair number `i`
pub fn key(i: u64) -> (SaitoPublicKey, SaitoPrivateKey) {
    let sk = hash(format!("saito-verif-key-{}", i).as_bytes());
    generate_keypair_from_private_key(&sk)
}

pub struct Node {
    pub blockchain: Blockchain,
    pub mempool: Mempool,
    pub wallet_lock: Arc<RwLock<Wallet>>,
    pub storage: Storage,
    pub cfg: Cfg,
    pub disk: Arc<Mutex<Disk>>,
    pub pk: SaitoPublicKey,
    pub sk: SaitoPrivateKey,
}

pub fn add_result_class(r: &AddBlockResult) -> &'static str {
    match r {
        AddBlockResult::BlockAddedSuccessfully(_, true, _) => "added_lc",
        AddBlockResult::BlockAddedSuccessfully(_, false, _) => "added_side",
        AddBlockResult::BlockAlreadyExists => "exists",
        AddBlockResult::FailedButRetry(_, true, _) => "retry_prev",
        AddBlockResult::FailedButRetry(_, false, true) => "retry_chain",
        AddBlockResult::FailedButRetry(_, false, false) => "retry_wait",
        AddBlockResult::FailedNotValid => "invalid",
    }
}

impl Node {
    pub fn new(key_index: u64, cfg: Cfg) -> Node {
        Node::with_disk(key_index, cfg, Arc::new(Mutex::new(Disk::default())))
    }
    pub fn with_disk(key_index: u64, cfg: Cfg, disk: Arc<Mutex<Disk>>) -> Node {
        let (pk, sk) = key(key_index);
        let wallet_lock = Arc::new(RwLock::new(Wallet::new(sk, pk)));
        let blockchain = Blockchain::new(wallet_lock.clone(), cfg.consensus.genesis_period, 0, 60);
        let mempool = Mempool::new(wallet_lock.clone());
        let storage = Storage::new(Box::new(MemIO { disk: disk.clone() }));
        Node { blockchain, mempool, wallet_lock, storage, cfg, disk, pk, sk }
    }
    /// the block reaches the node in its WIRE form, as a peer's block does: nothing the producer computed and kept in
    /// memory (consensus values, caches) travels with it. `VERIF_INMEM=1` switches back to the in-memory object.
    pub async fn add_block(&mut self, block: Block) -> AddBlockResult {
        let block = if std::env::var("VERIF_INMEM").is_ok() {
            block
        } else {
            match Block::deserialize_from_net(&block.serialize_for_net(saito_core::core::consensus::block::BlockType::Full)) {
                Ok(mut b) => {
                    // the verification thread generates a fetched block once (to compare its hash with the one requested)
                    // before the consensus thread's add_block generates it again: a peer's block is generated TWICE
                    let mut g = b.clone();
                    if g.generate().is_ok() {
                        b = g;
                    }
                    b
                }
                Err(_) => block,
            }
        };
        self.blockchain.add_block(block, &mut self.storage, &mut self.mempool, &self.cfg).await
    }
    /// the in-memory object itself (how a node receives the blocks it produced)
    pub async fn add_block_mem(&mut self, block: Block) -> AddBlockResult {
        self.blockchain.add_block(block, &mut self.storage, &mut self.mempool, &self.cfg).await
    }
    /// (latest id, latest hash); None when the ring's own lookup panics (index out of range)
    pub fn tip(&self) -> Option<(u64, SaitoHash)> {
        guarded(|| (self.blockchain.get_latest_block_id(), self.blockchain.get_latest_block_hash())).ok()
    }
}

/// a spendable output as the factory remembers it
#[derive(Clone, Debug)]
pub struct Utxo {
    pub slip: Slip,
    pub owner: u64, // key index
}

/// Deterministic block factory. Its `store` is a Blockchain used purely as a block store for `Block::create`
/// (blocks are inserted directly; it never runs fork choice), so blocks can be built on any known parent.
pub struct Factory {
    pub store: Node,
    pub rng: Rng,
    pub base_ts: Timestamp,
}

pub struct TxSpec {
    pub inputs: Vec<Utxo>,
    pub outputs: Vec<(u64, Currency)>, // (key index, amount)
    pub data: Vec<u8>,
}

impl Factory {
    pub fn new(seed: u64, cfg: Cfg) -> Factory {
        Factory { store: Node::new(0, cfg), rng: Rng::new(seed ^ 0xFAC7), base_ts: 1_700_000_000_000 }
    }

    pub fn make_tx(&self, spec: &TxSpec) -> Transaction {
        let mut tx = Transaction::default();
        tx.transaction_type = TransactionType::Normal;
        tx.timestamp = self.base_ts;
        for u in &spec.inputs {
            tx.from.push(u.slip.clone());
        }
        for (k, amt) in &spec.outputs {
            let mut s = Slip::default();
            s.public_key = key(*k).0;
            s.amount = *amt;
            s.slip_type = SlipType::Normal;
            tx.to.push(s);
        }
        tx.data = spec.data.clone();
        let signer = spec.inputs.first().map(|u| u.owner).unwrap_or(0);
        tx.sign(&key(signer).1);
        tx
    }

    pub fn issuance_tx(&self, to_key: u64, amount: Currency) -> Transaction {
        let mut tx = Transaction::create_issuance_transaction(key(to_key).0, amount);
        tx.sign(&key(0).1);
        tx
    }

    /// real golden ticket for `parent` (mined against the parent's difficulty)
    pub fn golden_ticket_tx(&mut self, parent: &Block, miner: u64) -> Transaction {
        let pk = key(miner).0;
        loop {
            let random: SaitoHash = hash(&self.rng.bytes(32));
            let gt = GoldenTicket::create(parent.hash, random, pk);
            if gt.validate(parent.difficulty) {
                let mut tx = Transaction::default();
                tx.transaction_type = TransactionType::GoldenTicket;
                tx.timestamp = self.base_ts;
                tx.data = gt.serialize_for_net();
                let mut input = Slip::default();
                input.public_key = pk;
                input.amount = 0;
                let mut output = Slip::default();
                output.public_key = pk;
                output.amount = 0;
                tx.add_from_slip(input);
                tx.add_to_slip(output);
                tx.sign(&key(miner).1);
                return tx;
            }
        }
    }

    /// build a block on `parent_hash` ([0;32] for genesis) created and signed by key `creator`
    pub async fn make_block(
        &mut self,
        parent_hash: SaitoHash,
        ts: Timestamp,
        creator: u64,
        txs: Vec<Transaction>,
        gt: Option<Transaction>,
    ) -> Result<Block, String> {
        let (pk, sk) = key(creator);
        let mut map: ahash::AHashMap<SaitoSignature, Transaction> = Default::default();
        for mut t in txs {
            t.generate(&pk, 0, 0);
            map.insert(t.signature, t);
        }
        let gt = gt.map(|mut g| {
            g.generate(&pk, 0, 0);
            g
        });
        let r = Block::create(&mut map, parent_hash, &self.store.blockchain, ts, &pk, &sk, gt, &self.store.cfg, &self.store.storage).await;
        match r {
            Ok(mut b) => {
                b.generate().map_err(|e| e.to_string())?;
                Ok(b)
            }
            Err(e) => Err(e.to_string()),
        }
    }

    /// genesis block: issuance transactions to the given keys
    pub async fn make_genesis(&mut self, issue: &[(u64, Currency)]) -> Block {
        let (pk, sk) = key(0);
        let mut map: ahash::AHashMap<SaitoSignature, Transaction> = Default::default();
        let mut b = Block::create(&mut map, [0; 32], &self.store.blockchain, self.base_ts, &pk, &sk, None, &self.store.cfg, &self.store.storage)
            .await
            .unwrap();
        for (k, amt) in issue {
            let mut tx = Transaction::create_issuance_transaction(key(*k).0, *amt);
            tx.generate(&key(*k).0, 0, 0);
            tx.sign(&sk);
            b.add_transaction(tx);
        }
        b.merkle_root = b.generate_merkle_root(false, false);
        b.generate().unwrap();
        b.sign(&sk);
        b.generate().unwrap();
        b
    }

    /// make the block known to the store so children can be created on it
    pub fn remember(&mut self, b: &Block) {
        self.store.blockchain.blocks.insert(b.hash, b.clone());
    }

    /// re-sign a block after tampering with header fields / transactions (hash changes)
    pub fn resign(&self, b: &mut Block, creator: u64) {
        let sk = key(creator).1;
        b.generate_pre_hash();
        b.sign(&sk);
        b.generate_hash();
    }
}

/// outputs (value carrying) created by a block, as spendable Utxos for later transactions
pub fn outputs_of(b: &Block, owner_of: &dyn Fn(&SaitoPublicKey) -> Option<u64>) -> Vec<Utxo> {
    let mut v = vec![];
    for tx in &b.transactions {
        for s in &tx.to {
            if s.amount > 0 {
                if let Some(o) = owner_of(&s.public_key) {
                    v.push(Utxo { slip: s.clone(), owner: o });
                }
            }
        }
    }
    v
}

pub fn owner_lookup(nkeys: u64) -> impl Fn(&SaitoPublicKey) -> Option<u64> {
    let ks: Vec<SaitoPublicKey> = (0..nkeys).map(|i| key(i).0).collect();
    move |pk| ks.iter().position(|k| k == pk).map(|i| i as u64)
}

/// value-carrying inputs / outputs of every transaction of a block, as utxo keys (what wind/unwind touches)
pub fn block_io_keys(b: &Block) -> (Vec<SaitoUTXOSetKey>, Vec<SaitoUTXOSetKey>) {
    let mut ins = vec![];
    let mut outs = vec![];
    for tx in &b.transactions {
        for s in &tx.from {
            if s.amount > 0 {
                ins.push(s.utxoset_key);
            }
        }
        for s in &tx.to {
            if s.amount > 0 {
                outs.push(s.utxoset_key);
            }
        }
    }
    (ins, outs)
}

pub fn block_is_full(b: &Block) -> bool {
    b.block_type == BlockType::Full
}

pub fn rt() -> tokio::runtime::Runtime {
    tokio::runtime::Builder::new_current_thread().enable_all().build().unwrap()
}

/// oracle for the chain model: does the real `Block::validate` pass when the block's parent is NOT in the store and
/// the consensus values are compared (`validate_against_utxo = true`)? Inputs are made spendable so that only the
/// header-level checks decide.
pub async fn validates_without_parent(b: &Block, cfg: &Cfg) -> bool {
    let n = Node::new(8, cfg.clone());
    let mut utxo: saito_core::core::defs::UtxoSet = Default::default();
    for tx in &b.transactions {
        for s in &tx.from {
            utxo.insert(s.utxoset_key, true);
        }
    }
    let mut blk = b.clone();
    if blk.generate().is_err() {
        return false;
    }
    match crate::common::guarded_async(blk.validate(&n.blockchain, &utxo, &n.cfg, &n.storage, true)).await {
        Ok(v) => v,
        Err(_) => false,
    }
}


/// The commitment a header must carry for a list of (generated) transactions, computed by the harness itself (the
/// construction of `Saito/Model/Merkle.lean`): one leaf per transaction — its signed-content hash, repeated
/// `txs_replacements` times for an omitted subtree —, leaves paired left to right, an odd node carried up unchanged;
/// the empty list commits to the all-zero root. Independent of `Block::generate_merkle_root`.
pub fn ref_merkle_root(txs: &[Transaction]) -> SaitoHash {
    let mut level: Vec<SaitoHash> = vec![];
    for t in txs {
        let h = t.hash_for_signature.unwrap_or([0; 32]);
        let n = if t.txs_replacements > 1 { t.txs_replacements as usize } else { 1 };
        for _ in 0..n {
            level.push(h);
        }
    }
    if level.is_empty() {
        return [0; 32];
    }
    while level.len() > 1 {
        let mut next = vec![];
        for pair in level.chunks(2) {
            if pair.len() == 2 {
                let mut v = pair[0].to_vec();
                v.extend_from_slice(&pair[1]);
                next.push(saito_core::core::util::crypto::hash(&v));
            } else {
                next.push(pair[0]);
            }
        }
        level = next;
    }
    level[0]
}
