//! C03 / C04 / C05 correspondence: real `Blockchain::add_block` on real blocks (real signatures, golden
//! tickets, fee transactions) against the Lean chain model, over block trees × delivery orders.
//! Cases run in a child process (`chain-worker`) so that a livelock in add_block becomes the answer `stall`.
use crate::common::*;
use crate::node::*;
use saito_core::core::consensus::block::Block;
use saito_core::core::defs::{SaitoHash, SaitoUTXOSetKey};
use std::collections::{BTreeSet, HashMap};
use std::io::{BufRead, BufReader, Write};
use std::process::{Command, Stdio};
use std::sync::mpsc;
use std::time::Duration;

pub const GP: u64 = 100;
pub const HEARTBEAT: u64 = 100;
pub const NKEYS: u64 = 4;

#[derive(Clone)]
pub struct TNode {
    pub parent: Option<usize>, // None = child of genesis
    pub block: Block,
    pub honest: bool,
    pub depth: usize,
}

pub struct Tree {
    pub genesis: Block,
    pub nodes: Vec<TNode>,
}

#[derive(Clone, Debug)]
pub struct NodeSpec {
    pub parent: Option<usize>,
    pub gt: bool,
    pub dt: u64,
    pub tamper: bool,
    /// 0 none, 1 spend an output available on this branch, 2 spend an output that exists only on another branch,
    /// 3 spend an output CREATED BY THE PARENT block (a dependency chain along the branch; falls back to 1),
    /// 4 spend an output that an ancestor on this branch has already spent (falls back to none)
    pub tx: u8,
    pub creator: u64,
}

/// builds the real blocks of a tree with the factory; returns None if the factory cannot build it
pub async fn build_tree(f: &mut Factory, specs: &[NodeSpec]) -> Option<Tree> {
    let genesis = f.make_genesis(&[(1, 1000), (1, 2000), (2, 3000), (2, 4000), (3, 5000), (3, 6000)]).await;
    f.remember(&genesis);
    let owner = owner_lookup(NKEYS);
    let g_out = outputs_of(&genesis, &owner);
    // avail[i] = outputs spendable after node i on its branch
    let mut avail: Vec<Vec<Utxo>> = vec![];
    // created[i] = outputs created by node i itself; spent[i] = outputs spent on the branch up to and including node i
    let mut created: Vec<Vec<Utxo>> = vec![];
    let mut spent: Vec<Vec<Utxo>> = vec![];
    let mut nodes: Vec<TNode> = vec![];
    let mut foreign_pool: Vec<Utxo> = vec![]; // outputs created on some branch (used for cross-branch spends)
    for (i, s) in specs.iter().enumerate() {
        let (pblock, pavail, depth) = match s.parent {
            None => (genesis.clone(), g_out.clone(), 1),
            Some(p) => (nodes[p].block.clone(), avail[p].clone(), nodes[p].depth + 1),
        };
        let mut my_avail = pavail.clone();
        let mut my_spent: Vec<Utxo> = match s.parent {
            None => vec![],
            Some(p) => spent[p].clone(),
        };
        let mut txs = vec![];
        // mode 3: prefer an output the parent block created
        let from_parent: Option<usize> = if s.tx == 3 {
            s.parent.and_then(|p| my_avail.iter().position(|u| created[p].iter().any(|c| c.slip.utxoset_key == u.slip.utxoset_key)))
        } else {
            None
        };
        if s.tx == 4 {
            if !my_spent.is_empty() {
                let u = my_spent[f.rng.below(my_spent.len() as u64) as usize].clone();
                let amt = u.slip.amount;
                txs.push(f.make_tx(&TxSpec { inputs: vec![u], outputs: vec![(1, amt)], data: vec![i as u8, 4] }));
            }
        } else if (s.tx == 1 || s.tx == 3) && !my_avail.is_empty() {
            let k = match from_parent {
                Some(k) => k,
                None => f.rng.below(my_avail.len() as u64) as usize,
            };
            let u = my_avail.remove(k);
            my_spent.push(u.clone());
            let to = f.rng.range(1, NKEYS - 1);
            let fee = if f.rng.coin(1, 3) { f.rng.range(1, 10) } else { 0 };
            let amt = u.slip.amount - fee.min(u.slip.amount - 1);
            txs.push(f.make_tx(&TxSpec { inputs: vec![u], outputs: vec![(to, amt)], data: vec![i as u8] }));
        } else if s.tx == 2 {
            // an output that does not exist on this branch (created on another branch), if any
            let cand: Vec<Utxo> = foreign_pool
                .iter()
                .filter(|u| !pavail.iter().any(|a| a.slip.utxoset_key == u.slip.utxoset_key))
                .cloned()
                .collect();
            if !cand.is_empty() {
                let u = cand[f.rng.below(cand.len() as u64) as usize].clone();
                let amt = u.slip.amount;
                txs.push(f.make_tx(&TxSpec { inputs: vec![u], outputs: vec![(1, amt)], data: vec![i as u8, 2] }));
            }
        }
        let gt = if s.gt || txs.is_empty() { Some(f.golden_ticket_tx(&pblock, s.creator)) } else { None };
        let ts = pblock.timestamp + s.dt;
        let mut b = match f.make_block(pblock.hash, ts, s.creator, txs, gt).await {
            Ok(b) => b,
            Err(_) => return None,
        };
        if s.tamper {
            b.difficulty += 7;
            f.resign(&mut b, s.creator);
            b.generate().ok()?;
        }
        f.remember(&b);
        let outs = outputs_of(&b, &owner);
        foreign_pool.extend(outs.clone());
        my_avail.extend(outs.clone());
        created.push(outs);
        spent.push(my_spent);
        avail.push(my_avail);
        nodes.push(TNode { parent: s.parent, block: b, honest: !s.tamper, depth });
    }
    Some(Tree { genesis, nodes })
}

/// id maps so that the model sees small numbers
#[derive(Default)]
pub struct Ids {
    pub hashes: HashMap<SaitoHash, u32>,
    pub keys: HashMap<SaitoUTXOSetKey, u32>,
}
impl Ids {
    pub fn h(&mut self, x: &SaitoHash) -> u32 {
        if *x == [0; 32] {
            return 0;
        }
        let n = self.hashes.len() as u32 + 1;
        *self.hashes.entry(*x).or_insert(n)
    }
    pub fn k(&mut self, x: &SaitoUTXOSetKey) -> u32 {
        let n = self.keys.len() as u32 + 1;
        *self.keys.entry(*x).or_insert(n)
    }
}
fn list(v: &[u32]) -> String {
    if v.is_empty() {
        "-".into()
    } else {
        v.iter().map(|x| x.to_string()).collect::<Vec<_>>().join(",")
    }
}
fn plain(v: &[u32]) -> String {
    v.iter().map(|x| x.to_string()).collect::<Vec<_>>().join(",")
}

pub fn project(b: &Block, honest: bool, ok_no_parent: bool, ids: &mut Ids) -> String {
    let mut ins = vec![];
    let mut outs = vec![];
    for tx in &b.transactions {
        for s in tx.from.iter().filter(|s| s.amount > 0) {
            ins.push(format!("{}:{}", ids.k(&s.utxoset_key), s.amount));
        }
        for s in tx.to.iter().filter(|s| s.amount > 0) {
            outs.push(format!("{}:{}", ids.k(&s.utxoset_key), s.amount));
        }
    }
    let j = |v: Vec<String>| if v.is_empty() { "-".to_string() } else { v.join(",") };
    let hs = b.graveyard as u128 + b.treasury as u128 + b.previous_block_unpaid as u128 + b.total_fees as u128;
    format!(
        "add {} {} {} {} {} {}{} {} {} {}",
        ids.h(&b.hash),
        ids.h(&b.previous_block_hash),
        b.id,
        b.burnfee,
        b.has_golden_ticket as u8,
        honest as u8,
        ok_no_parent as u8,
        hs,
        j(ins),
        j(outs)
    )
}

#[derive(Clone, PartialEq, Debug)]
pub struct Snap {
    pub tip: (u64, u32),
    pub lc: Vec<(u64, u32)>,
    pub utxo: Vec<u32>,
    pub inlc: Vec<u32>,
    pub blocks: Vec<u32>,
    pub wallet: Vec<(u32, bool)>,
    /// every (id, hash) the by-height index holds, on-chain or not (`get_block_hashes_at_block_id`)
    pub ring: Vec<(u64, u32)>,
}

pub async fn snapshot(n: &Node, ids: &mut Ids) -> Snap {
    let bc = &n.blockchain;
    let max_id = bc.blocks.values().map(|b| b.id).max().unwrap_or(0);
    let mut lc = vec![];
    for i in 0..max_id + 3 {
        if let Some(h) = bc.blockring.get_longest_chain_block_hash_at_block_id(i) {
            lc.push((i, ids.h(&h)));
        }
    }
    let mut ring = vec![];
    for i in 0..max_id + 3 {
        let mut hs: Vec<u32> = bc.blockring.get_block_hashes_at_block_id(i).iter().map(|h| ids.h(h)).collect();
        hs.sort();
        for h in hs {
            ring.push((i, h));
        }
    }
    let mut utxo: Vec<u32> = bc.utxoset.iter().filter(|(_, v)| **v).map(|(k, _)| ids.k(k)).collect();
    utxo.sort();
    let mut inlc: Vec<u32> = bc.blocks.values().filter(|b| b.in_longest_chain).map(|b| ids.h(&b.hash)).collect();
    inlc.sort();
    let mut blocks: Vec<u32> = bc.blocks.keys().map(|h| ids.h(h)).collect();
    blocks.sort();
    let w = n.wallet_lock.read().await;
    let mut wallet: Vec<(u32, bool)> = w.slips.values().map(|s| (ids.k(&s.utxokey), s.spent)).collect();
    wallet.sort();
    let tip = match n.tip() {
        Some((tid, th)) => (tid, ids.h(&th)),
        None => (u64::MAX, 0),
    };
    Snap { tip, lc, utxo, inlc, blocks, wallet, ring }
}

pub fn dump(res: &str, s: &Snap) -> String {
    let tip = if s.tip.0 == u64::MAX { "panic".to_string() } else { format!("{}:{}", s.tip.0, s.tip.1) };
    format!(
        "res={} tip={} lc=[{}] utxo=[{}] inlc=[{}] blocks=[{}] ring=[{}]",
        res,
        tip,
        s.lc.iter().map(|(i, h)| format!("{}:{}", i, h)).collect::<Vec<_>>().join(","),
        plain(&s.utxo),
        plain(&s.inlc),
        plain(&s.blocks),
        s.ring.iter().map(|(i, h)| format!("{}:{}", i, h)).collect::<Vec<_>>().join(",")
    )
}

/// what the harness itself knows about the blocks it built (independent of node and model)
pub struct Oracle<'a> {
    pub tree: &'a Tree,
}
impl<'a> Oracle<'a> {
    fn find(&self, h: &SaitoHash) -> Option<(&Block, bool)> {
        if *h == self.tree.genesis.hash {
            return Some((&self.tree.genesis, true));
        }
        self.tree.nodes.iter().find(|n| n.block.hash == *h).map(|n| (&n.block, n.honest))
    }
    /// chain from genesis to `tip` (oldest first) if every ancestor is known
    pub fn chain_to(&self, tip: &SaitoHash) -> Option<Vec<(&Block, bool)>> {
        let mut v = vec![];
        let mut h = *tip;
        loop {
            let (b, honest) = self.find(&h)?;
            v.push((b, honest));
            if b.previous_block_hash == [0; 32] {
                break;
            }
            h = b.previous_block_hash;
        }
        v.reverse();
        Some(v)
    }
}

/// replay of a chain from genesis: the spendable set, and whether every block only spent spendable outputs
pub fn replay(chain: &[(&Block, bool)], ids: &mut Ids) -> (BTreeSet<u32>, bool) {
    let mut u = BTreeSet::new();
    let mut clean = true;
    for (b, _) in chain {
        let (ins, outs) = block_io_keys(b);
        for k in ins {
            if !u.remove(&ids.k(&k)) {
                clean = false;
            }
        }
        for k in outs {
            u.insert(ids.k(&k));
        }
    }
    (u, clean)
}

/// golden-ticket density of the chain ending at index `upto` as the property states it: every window of six
/// consecutive blocks past the start-up phase holds at least two tickets. Start-up phase = fewer than 5
/// predecessors available (the code's own escape: search depth < DENOMINATOR - NUMERATOR treated generously).
pub fn gt_dense(chain: &[(&Block, bool)]) -> bool {
    for end in 0..chain.len() {
        if end < 5 {
            continue;
        }
        let cnt = chain[end - 5..=end].iter().filter(|(b, _)| b.has_golden_ticket).count();
        if cnt < 2 {
            return false;
        }
    }
    true
}

/// what the ADOPTION monitor additionally asks of a chain before it demands that the node adopt it: every window of FIVE
/// consecutive blocks holds a ticket. For a chain of six or more blocks this follows from `gt_dense`; for a chain of exactly
/// five blocks (still inside the start-up phase of the property) a ticket-less chain can no longer reach two tickets in its
/// first window of six, and refusing it is not a violation.
pub fn gt_startup_feasible(chain: &[(&Block, bool)]) -> bool {
    for end in 4..chain.len() {
        if chain[end - 4..=end].iter().filter(|(b, _)| b.has_golden_ticket).count() < 1 {
            return false;
        }
    }
    true
}

pub struct CaseOut {
    pub lines: Vec<(String, String)>, // (op, impl)
    pub fails: Vec<(String, String, serde_json::Value)>,
    pub hist: Vec<String>,
}

fn describe(tree_specs: &[NodeSpec], order: &[usize]) -> serde_json::Value {
    serde_json::json!({
        "tree": tree_specs.iter().map(|s| format!("p={:?} gt={} dt={} tamper={} tx={} c={}", s.parent, s.gt as u8, s.dt, s.tamper as u8, s.tx, s.creator)).collect::<Vec<_>>(),
        "delivery_order": order,
    })
}

/// deliver `order` (indices into tree.nodes; genesis first, implicitly) to a fresh node; emit op/impl lines and
/// run the direct monitors. `emit` is called BEFORE each add with the op and AFTER with the answer so that a stall is visible.
pub async fn run_case(
    tree: &Tree,
    specs: &[NodeSpec],
    order: &[usize],
    prune_after: u64,
    emit: &mut dyn FnMut(&str, &str),
) {
    let mut ids = Ids::default();
    // every second case the node's own wallet key is one of the keys the tree's transactions move value between (key 2 owns
    // two genesis outputs and creates blocks), so that the wallet takes part in winding, unwinding and rejection
    let own_key = if order.len() % 2 == 1 { 2 } else { 9 };
    let mut node = Node::new(own_key, Cfg::new(GP, HEARTBEAT, prune_after));
    let oracle = Oracle { tree };
    emit("S", &format!("reset {} 0", GP));
    let mut seq: Vec<(&Block, bool)> = vec![(&tree.genesis, true)];
    for &i in order {
        seq.push((&tree.nodes[i].block, tree.nodes[i].honest));
    }
    let mut delivered: Vec<SaitoHash> = vec![];
    let ctx = describe(specs, order);
    // features of the history so far, computed by the harness alone; they go into every finding key so that a
    // failure on a history WITHOUT the feature behind a listed finding is a different, unlisted key
    let (mut f_orphan, mut f_failed, mut f_nonexist, mut f_tampered) = (false, false, false, false);
    let wire_delivery = seq.len() % 2 == 0 || seq.len() >= 6;
    emit("H", if wire_delivery { "delivery:wire-form" } else { "delivery:in-memory-object" });
    emit("H", if own_key == 2 { "node-key:takes-part-in-the-history" } else { "node-key:stranger" });
    for (step, (b, honest)) in seq.iter().enumerate() {
        let onp = validates_without_parent(b, &node.cfg).await;
        let op = project(b, *honest, onp, &mut ids);
        if !*honest {
            f_tampered = true;
        }
        emit("O", &op);
        let before = snapshot(&node, &mut ids).await;
        // the block reaches the node the way a peer's block does: through its wire form (nothing the producer computed and
        // kept in memory — consensus values, caches — travels with it); every second case keeps the in-memory object, which
        // is how a node receives the blocks it produced itself
        let blk = (*b).clone();
        let add_res = if wire_delivery { crate::common::guarded_async(node.add_block(blk)).await } else { crate::common::guarded_async(node.add_block_mem(blk)).await };
        let r = match add_res {
            Ok(r) => r,
            Err(msg) => {
                // the node panicked inside add_block: its state is no longer meaningful, the case ends here
                emit("I", "res=panic");
                emit("H", "result:panic");
                let site = if msg.contains("invalid total supply") { "check_total_supply" } else { "other" };
                let rj = serde_json::json!({"case": ctx, "step": step, "op": op});
                emit("M", &format!("C11/add_block-panics/{}\t{}\t{}", site, msg.replace('\t', " ").replace('\n', " "), rj));
                // a crash while adding a block on a history that has none of the features behind the listed findings
                // (every block delivered after its parent, nothing rejected, every input exists on its chain) is a new
                // failure of the ledger / no-trace / fork-choice properties too
                let parent_known_now = b.previous_block_hash == [0; 32] || delivered.contains(&b.previous_block_hash);
                let spends_missing = oracle.chain_to(&b.hash).map(|c| !replay(&c, &mut ids).1).unwrap_or(true);
                if parent_known_now && !f_orphan && !f_failed && !f_nonexist && !f_tampered && !spends_missing {
                    for p in ["C03", "C04", "C05"] {
                        emit("M", &format!("{}/add_block-panics/clean-history\t{}\t{}", p, msg.replace('\t', " ").replace('\n', " "), rj));
                    }
                }
                return;
            }
        };
        let cls = add_result_class(&r);
        let after = snapshot(&node, &mut ids).await;
        emit("I", &dump(cls, &after));
        emit("H", &format!("result:{}", cls));
        let parent_known = b.previous_block_hash == [0; 32] || delivered.contains(&b.previous_block_hash);
        if !parent_known {
            f_orphan = true;
        }
        if cls == "invalid" {
            f_failed = true;
        }
        if cls != "invalid" && cls != "exists" {
            if let Some(c) = oracle.chain_to(&b.hash) {
                if !replay(&c, &mut ids).1 {
                    f_nonexist = true;
                }
            }
        }
        // primary feature of the history (priority order). Keys of failures on histories WITH a feature name the
        // property and the feature only (the manifestations of one root cause vary from seed to seed); failures on a
        // clean history keep their manifestation in the key.
        let feats = if f_orphan {
            "history-with-block-delivered-before-its-parent"
        } else if f_failed || f_tampered {
            "history-with-invalid-block-offered"
        } else if f_nonexist {
            "history-with-block-spending-nonexistent-output"
        } else {
            "clean-history"
        };
        let replay_json = serde_json::json!({"case": ctx, "step": step, "op": op});
        let mut fail = |key: String, what: String| {
            if let Some(exact) = key.strip_prefix('!') {
                // a key that names its own input class (not subject to the history feature)
                emit("M", &format!("{}\t{}\t{}", exact, what, replay_json));
            } else if feats == "clean-history" {
                emit("M", &format!("{}/clean-history\t{}\t{}", key, what, replay_json));
            } else {
                emit("M", &format!("{}/{}\t[{}] {}\t{}", &key[..3], feats, key, what, replay_json));
            }
        };
        // the ring's own tip lookup panics: every later call into the node would crash
        if after.tip.0 == u64::MAX {
            // root cause is the failed reorganisation itself, whatever else the history contains: fixed feature
            emit("M", &format!("C04/history-with-invalid-block-offered\t[C04/tip-lookup-panics] get_latest_block_id panics (ring item index out of range) after add_block returned {}\t{}", cls, replay_json));
            return;
        }
        // ---- C03: ledger state = replay of the longest chain; index, flags and tip describe that chain
        let tip_hash = node.tip().unwrap().1;
        if tip_hash != [0; 32] {
            match oracle.chain_to(&tip_hash) {
                Some(chain) => {
                    let (want, _) = replay(&chain, &mut ids);
                    let have: BTreeSet<u32> = after.utxo.iter().cloned().collect();
                    if want != have {
                        fail("C03/utxo-differs-from-replay".to_string(),
                             format!("spendable set {:?} but replay of the reported longest chain gives {:?}", have, want));
                    }
                    let want_lc: Vec<(u64, u32)> = chain.iter().map(|(b, _)| (b.id, ids.h(&b.hash))).collect();
                    if after.lc != want_lc {
                        fail("C03/chain-index-differs-from-tip-ancestry".to_string(),
                             format!("index {:?} but ancestors of tip are {:?}", after.lc, want_lc));
                    }
                    let mut want_flags: Vec<u32> = want_lc.iter().map(|x| x.1).collect();
                    want_flags.sort();
                    if after.inlc != want_flags {
                        fail("C03/on-chain-flags-differ-from-tip-ancestry".to_string(),
                             format!("flags {:?} but ancestors of tip are {:?}", after.inlc, want_flags));
                    }
                }
                None => fail("C03/tip-without-known-ancestry".to_string(), "tip's ancestors are not all known".into()),
            }
        } else if !after.utxo.is_empty() || !after.inlc.is_empty() || !after.lc.is_empty() {
            fail("C03/no-tip-but-state".to_string(), format!("tip is unset but lc={:?} inlc={:?} utxo={:?}", after.lc, after.inlc, after.utxo));
        }

        // ---- C04: a block that is not accepted leaves no trace
        if cls == "invalid" && before != after {
            let mut diff = vec![];
            if before.tip != after.tip { diff.push("tip"); }
            if before.utxo != after.utxo { diff.push("utxo"); }
            if before.lc != after.lc { diff.push("index"); }
            if before.inlc != after.inlc { diff.push("flags"); }
            if before.blocks != after.blocks { diff.push("blocks"); }
            if before.wallet != after.wallet { diff.push("wallet"); }
            if before.ring != after.ring { diff.push("ring-entries"); }
            // the pinned failure paths need a competitor or a multi-block candidate; a block that simply extends the
            // tip (no old chain, candidate of one block) and is rejected must leave nothing behind on every tree
            let plain_extension = !f_orphan && before.tip.0 != u64::MAX && before.tip.1 == ids.h(&b.previous_block_hash);
            let sibling = before.ring.iter().any(|(i, _)| *i == b.id);
            if plain_extension && sibling {
                // RingItem::delete_block marks entry 0 of the height slot on-chain (listed finding, ringDeleteKeepsNone)
                fail("!C04/rejected-block-left-trace/plain-tip-extension-with-another-block-stored-at-that-height".to_string(), format!("changed: {} ; before {:?} after {:?}", diff.join("+"), before, after));
            } else if plain_extension {
                fail("!C04/rejected-block-left-trace/plain-tip-extension".to_string(), format!("changed: {} ; before {:?} after {:?}", diff.join("+"), before, after));
            } else {
                fail("C04/rejected-block-left-trace".to_string(), format!("changed: {} ; before {:?} after {:?}", diff.join("+"), before, after));
            }
        }

        // ---- C05: height monotone; orphan inert; tip moves only to a longer, heavier, valid, ticket-dense chain; adoption
        if after.tip.0 < before.tip.0 {
            fail("C05/tip-height-decreased".to_string(), format!("{:?} -> {:?}", before.tip, after.tip));
        }
        if !parent_known && (before.tip != after.tip || before.lc != after.lc) {
            fail("C05/block-before-parent-disturbed-tip-or-index".into(), format!("tip {:?}->{:?} index {:?}->{:?}", before.tip, after.tip, before.lc, after.lc));
        }
        let new_chain = oracle.chain_to(&b.hash);
        if before.tip != after.tip && before.tip.0 != 0 {
            // find old and new chains
            let old_tip = ids.hashes.iter().find(|(_, v)| **v == before.tip.1).map(|(k, _)| *k).unwrap();
            if let (Some(oc), Some(nc)) = (oracle.chain_to(&old_tip), oracle.chain_to(&tip_hash)) {
                let mut fork = 0;
                while fork < oc.len() && fork < nc.len() && oc[fork].0.hash == nc[fork].0.hash {
                    fork += 1;
                }
                let obf: u128 = oc[fork..].iter().map(|(b, _)| b.burnfee as u128).sum();
                let nbf: u128 = nc[fork..].iter().map(|(b, _)| b.burnfee as u128).sum();
                if nc.len() <= oc.len() {
                    fail("C05/tip-moved-to-chain-not-strictly-longer".into(), format!("old len {} new len {}", oc.len(), nc.len()));
                }
                if nbf < obf {
                    fail("C05/tip-moved-to-lighter-chain".into(), format!("old bf {} new bf {}", obf, nbf));
                }
                let (_, clean) = replay(&nc, &mut ids);
                if nc.iter().any(|(_, honest)| !honest) {
                    fail("C05/tip-moved-to-chain-with-invalid-block/tampered-header".into(), "new chain contains a block with a tampered header".into());
                } else if !clean {
                    fail("C05/tip-moved-to-chain-with-invalid-block/spends-nonexistent-output".into(), "a block on the new chain spends an output that does not exist on that chain".into());
                }
                if !gt_dense(&nc) {
                    // which window is short of tickets: the one ending at the new tip (the code checks that one), or
                    // only windows in the interior of the adopted segment (the pinned code does not look at those)
                    let n = nc.len();
                    let tip_short = n >= 6 && nc[n - 6..].iter().filter(|(b, _)| b.has_golden_ticket).count() < 2;
                    let which = if tip_short { "window-at-new-tip" } else { "interior-window-only" };
                    fail(format!("C05/tip-moved-to-chain-violating-ticket-density/{}", which), format!("tickets {:?}", nc.iter().map(|(b, _)| b.has_golden_ticket as u8).collect::<Vec<_>>()));
                }
            }
        }
        // adoption: the delivered block's own chain is complete, valid, dense, strictly longer and at least as heavy
        if parent_known && cls != "exists" && before.tip.0 != 0 {
            if let Some(nc) = &new_chain {
                let all_delivered = nc.iter().all(|(x, _)| x.hash == b.hash || delivered.contains(&x.hash));
                let old_tip = ids.hashes.iter().find(|(_, v)| **v == before.tip.1).map(|(k, _)| *k).unwrap();
                if let (true, Some(oc)) = (all_delivered, oracle.chain_to(&old_tip)) {
                    let mut fork = 0;
                    while fork < oc.len() && fork < nc.len() && oc[fork].0.hash == nc[fork].0.hash {
                        fork += 1;
                    }
                    let obf: u128 = oc[fork..].iter().map(|(b, _)| b.burnfee as u128).sum();
                    let nbf: u128 = nc[fork..].iter().map(|(b, _)| b.burnfee as u128).sum();
                    let (_, clean) = replay(nc, &mut ids);
                    let good = nc.iter().all(|(_, h)| *h) && clean && gt_dense(nc) && gt_startup_feasible(nc);
                    if good && nc.len() > oc.len() && nbf >= obf && after.tip.1 != ids.h(&b.hash) {
                        fail("C05/winning-chain-not-adopted".to_string(), format!("old len {} bf {} ; new len {} bf {}", oc.len(), obf, nc.len(), nbf));
                    }
                }
            }
        }
        if !delivered.contains(&b.hash) && cls != "invalid" {
            delivered.push(b.hash);
        }
    }
}

/// all permutations of 0..n
pub fn perms(n: usize) -> Vec<Vec<usize>> {
    fn go(cur: &mut Vec<usize>, used: &mut Vec<bool>, n: usize, out: &mut Vec<Vec<usize>>) {
        if cur.len() == n {
            out.push(cur.clone());
            return;
        }
        for i in 0..n {
            if !used[i] {
                used[i] = true;
                cur.push(i);
                go(cur, used, n, out);
                cur.pop();
                used[i] = false;
            }
        }
    }
    let mut out = vec![];
    go(&mut vec![], &mut vec![false; n], n, &mut out);
    out
}

/// all parent vectors for k nodes (node i's parent is genesis or an earlier node)
pub fn shapes(k: usize) -> Vec<Vec<Option<usize>>> {
    let mut out: Vec<Vec<Option<usize>>> = vec![vec![]];
    for i in 0..k {
        let mut next = vec![];
        for s in &out {
            for p in 0..=i {
                let mut t = s.clone();
                t.push(if p == 0 { None } else { Some(p - 1) });
                next.push(t);
            }
        }
        out = next;
    }
    out
}

pub struct CaseSpec {
    pub specs: Vec<NodeSpec>,
    pub orders: Vec<Vec<usize>>,
    /// `prune_after_blocks` of the node under test (small values drop transactions of older blocks from memory;
    /// they are re-read from the block files when such a block is unwound)
    pub prune_after: u64,
}

/// the deterministic list of cases of a run
pub fn cases(seed: u64, tier: &str) -> Vec<CaseSpec> {
    let mut r = Rng::new(seed);
    let thorough = tier == "thorough";
    let mut v = vec![];
    let dts = [201u64, 260, 400, 900, 2500];
    let mut attr = |r: &mut Rng, parents: &[Option<usize>], invalid_at: Option<usize>, tx2: bool| -> Vec<NodeSpec> {
        parents
            .iter()
            .enumerate()
            .map(|(i, p)| NodeSpec {
                parent: *p,
                gt: r.coin(2, 3),
                dt: *r.pick(&dts),
                tamper: invalid_at == Some(i),
                tx: if tx2 && r.coin(1, 3) { 2 } else if r.coin(2, 3) { 1 } else { 0 },
                creator: r.range(1, NKEYS - 1),
            })
            .collect()
    };
    // 0. the witnesses of the listed defects
    for (_, specs, order) in witnesses() {
        v.push(CaseSpec { specs, orders: vec![order], prune_after: 50 });
    }
    // 1. corpus: hand-written shapes behind the known findings (always first)
    //    fork [A1,A2] vs [B1,B2,B3] with B3 / B2 / B1 tampered: failure at last/middle/first wound block
    for bad in [4usize, 3, 2] {
        let parents = vec![None, Some(0), None, Some(2), Some(3)];
        let specs = attr(&mut r, &parents, Some(bad), false);
        v.push(CaseSpec { specs, orders: vec![vec![0, 1, 2, 3, 4]], prune_after: 50 });
    }
    //    two rejected siblings on a side branch
    {
        let parents = vec![None, Some(0), Some(1), None, Some(3), Some(3)];
        let mut specs = attr(&mut r, &parents, None, false);
        specs[4].tamper = true;
        specs[5].tamper = true;
        v.push(CaseSpec { specs, orders: vec![vec![0, 1, 2, 3, 4, 5], vec![0, 3, 4, 5, 1, 2]], prune_after: 50 });
    }
    // 2. exhaustive small trees × all delivery orders
    let kmax = if thorough { 5 } else { 4 };
    for k in 1..=kmax {
        for parents in shapes(k) {
            let variants = if thorough { 4 } else if k == 4 { 1 } else { 2 };
            for var in 0..variants {
                let invalid_at = if var % 2 == 1 { Some(r.below(k as u64) as usize) } else { None };
                let specs = attr(&mut r, &parents, invalid_at, var >= 1);
                let mut orders = perms(k);
                if k >= 5 {
                    // 120 orders: keep a seeded third
                    orders = orders.into_iter().filter(|_| r.coin(1, 3)).collect();
                }
                // duplicates: re-deliver one block at the end of some orders
                for o in orders.iter_mut() {
                    if r.coin(1, 4) {
                        let d = o[r.below(o.len() as u64) as usize];
                        o.push(d);
                    }
                }
                let prune_after = if r.coin(1, 3) { 1 } else { 50 };
                v.push(CaseSpec { specs, orders, prune_after });
            }
        }
    }
    // 2b. deep reorganisations with pruned blocks: branch A (value transactions) is seen first and partly pruned,
    //     branch B overtakes it by one block, then A overtakes again (unwinds / re-winds blocks whose transactions
    //     had been dropped from memory)
    let ndeep = if thorough { 24 } else { 6 };
    for k in 0..ndeep {
        let a = 3 + (k % 5); // length of A's first stretch
        let mut parents: Vec<Option<usize>> = vec![];
        for i in 0..a {
            parents.push(if i == 0 { None } else { Some(i - 1) });
        }
        let fork_at = if k % 2 == 0 { None } else { Some(0) };
        for i in 0..a + 1 {
            parents.push(if i == 0 { fork_at } else { Some(a + i - 1) });
        }
        // A grows by two more blocks on top of its old tip
        parents.push(Some(a - 1));
        parents.push(Some(parents.len() - 1));
        if fork_at.is_some() {
            parents.push(Some(parents.len() - 1));
        }
        let mut specs = attr(&mut r, &parents, None, false);
        for s in specs.iter_mut() {
            s.tx = 1;
            s.gt = true;
            s.dt = 400;
        }
        let order: Vec<usize> = (0..parents.len()).collect();
        v.push(CaseSpec { specs, orders: vec![order], prune_after: [1u64, 2, 3][k % 3] });
    }
    // 2c. fork choice past the start-up phase with sparse golden tickets: a main chain of 6..9 blocks, then a fork of
    //     two or more blocks that overtakes it by one; ticket bits are random and sparse, so the six-block windows
    //     ending at the first and at the last fork block often differ in whether they hold two tickets
    let ngt = if thorough { 160 } else { 40 };
    for k in 0..ngt {
        let m = 6 + (k % 4);
        let back = 1 + (r.below(3) as usize); // how many main blocks the fork replaces
        let f = m - back; // fork parent = main block index f-1 (f >= 3)
        let mut parents: Vec<Option<usize>> = (0..m).map(|i| if i == 0 { None } else { Some(i - 1) }).collect();
        for i in 0..back + 1 {
            parents.push(if i == 0 { Some(f - 1) } else { Some(m + i - 1) });
        }
        let mut specs = attr(&mut r, &parents, None, false);
        for (i, s) in specs.iter_mut().enumerate() {
            s.tx = 1;
            // dense enough at the start for the main chain to be acceptable, sparse later
            s.gt = if i < 3 { r.coin(2, 3) } else { r.coin(2, 5) };
            s.dt = if i >= m { 250 } else { 400 };
        }
        let order: Vec<usize> = (0..parents.len()).collect();
        v.push(CaseSpec { specs, orders: vec![order], prune_after: 50 });
    }
    // 2d. reorganisations that fail part-way: a shared prefix, a main chain of m blocks and a fork of m+1 blocks whose
    //     blocks each spend an output created by their parent (a dependency chain inside the candidate); the j-th fork
    //     block is bad in one of three ways (tampered header / spends an output that exists only on the main chain /
    //     spends an output an ancestor has already spent). The fork arrives after the main chain, so its blocks are
    //     stored as side blocks and the whole candidate is wound only when its last block arrives.
    for shared in [1usize, 2] {
        for m in 2..=(if thorough { 4usize } else { 3 }) {
            let flen = m + 1;
            for j in 0..flen {
                for kind in 0..3u8 {
                    let mut parents: Vec<Option<usize>> = vec![];
                    for i in 0..shared + m {
                        parents.push(if i == 0 { None } else { Some(i - 1) });
                    }
                    for i in 0..flen {
                        parents.push(if i == 0 { Some(shared - 1) } else { Some(shared + m + i - 1) });
                    }
                    let mut specs = attr(&mut r, &parents, None, false);
                    for (i, s) in specs.iter_mut().enumerate() {
                        s.gt = true;
                        s.dt = if i >= shared + m { 250 } else { 400 };
                        s.tx = if i >= shared + m { 3 } else { 1 };
                    }
                    let bad = shared + m + j;
                    match kind {
                        0 => specs[bad].tamper = true,
                        1 => specs[bad].tx = 2,
                        _ => specs[bad].tx = 4,
                    }
                    let order: Vec<usize> = (0..parents.len()).collect();
                    // every second case on a node that prunes block data a few blocks below its tip: the blocks that have to be
                    // wound back after the failure (and the fork's own lower blocks) may have lost their transactions meanwhile
                    let prune_after = if (j + kind as usize + m) % 2 == 0 { 50 } else { 1 + ((j + shared) % 3) as u64 };
                    v.push(CaseSpec { specs, orders: vec![order], prune_after });
                }
            }
        }
    }
    // 2f. after a rejected candidate, the good one: shared prefix, main chain of m blocks, m valid fork blocks (a dependency
    //     chain, stored as side blocks), then a BAD block on the fork's tip (the candidate is tried and rolled back), then a
    //     good sibling of that bad block — its arrival completes a valid, longer, heavier chain, which must be adopted — and a
    //     child of it
    for shared in [1usize, 2] {
        for m in 2..=(if thorough { 4usize } else { 3 }) {
            for kind in 0..3u8 {
                let mut parents: Vec<Option<usize>> = vec![];
                for i in 0..shared + m {
                    parents.push(if i == 0 { None } else { Some(i - 1) });
                }
                for i in 0..m {
                    parents.push(if i == 0 { Some(shared - 1) } else { Some(shared + m + i - 1) });
                }
                let fork_tip = shared + 2 * m - 1;
                parents.push(Some(fork_tip)); // the bad block
                parents.push(Some(fork_tip)); // its good sibling
                parents.push(Some(fork_tip + 2)); // a child of the good sibling
                let mut specs = attr(&mut r, &parents, None, false);
                for (i, s) in specs.iter_mut().enumerate() {
                    s.gt = true;
                    s.dt = if i >= shared + m { 250 } else { 400 };
                    s.tx = if i >= shared + m { 3 } else { 1 };
                    s.tamper = false;
                }
                let bad = fork_tip + 1;
                match kind {
                    0 => specs[bad].tamper = true,
                    1 => specs[bad].tx = 2,
                    _ => specs[bad].tx = 4,
                }
                specs[bad + 1].dt = 251;
                let order: Vec<usize> = (0..parents.len()).collect();
                v.push(CaseSpec { specs, orders: vec![order], prune_after: 50 });
            }
        }
    }
    // 2e. the ticket rule at the tip of a fork: every placement of tickets in the six blocks ending at the fork's tip
    //     (6 - L shared blocks just below the fork point, then the L fork blocks), everything else carries a ticket
    for l in 2..=4usize {
        let pats: Vec<u32> = if thorough { (0..64).collect() } else { (0..64).filter(|p: &u32| p.count_ones() <= 2 || r.coin(1, 4)).collect() };
        for pat in pats {
            let m = 8usize; // main chain length
            let f = m - (l - 1); // the fork replaces the last l-1 main blocks
            let mut parents: Vec<Option<usize>> = (0..m).map(|i| if i == 0 { None } else { Some(i - 1) }).collect();
            for i in 0..l {
                parents.push(if i == 0 { Some(f - 1) } else { Some(m + i - 1) });
            }
            let mut specs = attr(&mut r, &parents, None, false);
            for (i, s) in specs.iter_mut().enumerate() {
                s.tx = 1;
                s.gt = true;
                s.dt = if i >= m { 250 } else { 400 };
            }
            // window, oldest first: shared blocks f-(6-l) .. f-1, then fork blocks m .. m+l-1
            let mut win: Vec<usize> = ((f - (6 - l))..f).collect();
            win.extend(m..m + l);
            for (b, idx) in win.iter().enumerate() {
                specs[*idx].gt = (pat >> b) & 1 == 1;
            }
            let order: Vec<usize> = (0..parents.len()).collect();
            v.push(CaseSpec { specs, orders: vec![order], prune_after: 50 });
        }
    }
    // 3. random larger trees: two or three competing branches growing in turns (repeated back-and-forth reorgs)
    let nrand = if thorough { 400 } else { 60 };
    for _ in 0..nrand {
        let n = r.range(6, if thorough { 14 } else { 11 }) as usize;
        let mut parents: Vec<Option<usize>> = vec![];
        let mut tips: Vec<Option<usize>> = vec![None];
        for i in 0..n {
            let t = if r.coin(1, 6) && tips.len() < 3 {
                // open a new branch somewhere
                let p = if i == 0 || r.coin(1, 3) { None } else { Some(r.below(i as u64) as usize) };
                tips.push(p);
                tips.len() - 1
            } else {
                r.below(tips.len() as u64) as usize
            };
            parents.push(tips[t]);
            tips[t] = Some(i);
        }
        let invalid_at = if r.coin(1, 2) { Some(r.below(n as u64) as usize) } else { None };
        let t2 = r.coin(1, 2);
        let specs = attr(&mut r, &parents, invalid_at, t2);
        // delivery: creation order, or a random interleaving with a few swaps / a duplicate
        let mut orders = vec![];
        let base: Vec<usize> = (0..n).collect();
        orders.push(base.clone());
        let mut o = base.clone();
        for _ in 0..r.below(4) {
            let a = r.below(n as u64) as usize;
            let b = r.below(n as u64) as usize;
            o.swap(a, b);
        }
        o.push(r.below(n as u64) as usize);
        orders.push(o);
        let prune_after = if r.coin(1, 3) { 2 } else { 50 };
        v.push(CaseSpec { specs, orders, prune_after });
    }
    v
}

/// child process: runs cases from `start` and streams tagged lines on stdout
pub fn worker(seed: u64, tier: &str, start: usize) {
    let rt = rt();
    let all = cases(seed, tier);
    let stdout = std::io::stdout();
    let mut k = 0usize; // flat index over (case, order)
    for (ci, c) in all.iter().enumerate() {
        let n_orders = c.orders.len();
        if k + n_orders <= start {
            k += n_orders;
            continue;
        }
        let mut f = Factory::new(seed.wrapping_add(ci as u64), Cfg::new(GP, HEARTBEAT, 50));
        let tree = rt.block_on(build_tree(&mut f, &c.specs));
        let tree = match tree {
            Some(t) => t,
            None => {
                k += n_orders;
                let mut o = stdout.lock();
                writeln!(o, "H\tfactory:could-not-build-tree").unwrap();
                continue;
            }
        };
        for order in &c.orders {
            if k < start {
                k += 1;
                continue;
            }
            {
                let mut o = stdout.lock();
                writeln!(o, "C\t{}", k).unwrap();
                o.flush().unwrap();
            }
            let mut emit = |tag: &str, s: &str| {
                let mut o = stdout.lock();
                writeln!(o, "{}\t{}", tag, s).unwrap();
                o.flush().unwrap();
            };
            rt.block_on(run_case(&tree, &c.specs, order, c.prune_after, &mut emit));
            k += 1;
        }
    }
    let mut o = stdout.lock();
    writeln!(o, "E\t{}", k).unwrap();
}

/// The by-height index on its own: the real `BlockRing` against the model's ring functions on op sequences that walk
/// ACROSS THE RING BOUNDARY (small genesis periods, ids well past 2·gp). The chain cases above never get there (gp = 100).
/// The sequences are those the chain logic produces: a chain grows block by block (entries older than the ring are
/// deleted first, as the purge does), side blocks are stored, the top 1..3 blocks are unwound and either wound back or
/// replaced by stored side blocks, side blocks are deleted. Direct monitor: after unwinding the top j blocks of a chain
/// that is longer than j the reported tip is the block below them.
fn ring_suite(out: &mut Out, seed: u64, tier: &str) {
    use saito_core::core::consensus::blockring::BlockRing;
    let mut r = Rng::new(seed ^ 0x4149);
    let nseq = if tier == "thorough" { 400 } else { 60 };
    for si in 0..nseq {
        let gp = [2u64, 3, 5][si % 3];
        let size = 2 * gp;
        out.setup(&format!("reset {} 0", gp));
        let mut ring = BlockRing::new(gp);
        let mut next_hash: u32 = 1;
        let mut chain: Vec<(u64, u32)> = vec![]; // on-chain, ascending ids
        let mut side: Vec<(u64, u32)> = vec![];
        let hash_of = |n: u32| -> SaitoHash {
            let mut h = [0u8; 32];
            h[..4].copy_from_slice(&n.to_be_bytes());
            h[31] = 1;
            h
        };
        let num_of = |h: &SaitoHash| -> u32 { u32::from_be_bytes([h[0], h[1], h[2], h[3]]) };
        let mut hist: Vec<String> = vec![];
        let steps = r.range(3 * size, 6 * size);
        // one op on both sides; returns the implementation's (tip id, tip hash)
        let mut apply = |ring: &mut BlockRing, out: &mut Out, hist: &mut Vec<String>, cmd: &str, id: u64, h: u32, live_max: u64| -> Option<(u64, u32)> {
            let op = format!("ring {} {} {}", cmd, id, h);
            let res = crate::common::guarded(std::panic::AssertUnwindSafe(|| {
                match cmd {
                    "add" => {
                        let mut b = Block::new();
                        b.id = id;
                        b.hash = hash_of(h);
                        ring.add_block(&b);
                        ring.empty = false;
                    }
                    "on" => {
                        ring.on_chain_reorganization(id, hash_of(h), true);
                    }
                    "off" => {
                        ring.on_chain_reorganization(id, hash_of(h), false);
                    }
                    _ => ring.delete_block(id, hash_of(h)),
                }
                let tip = (ring.get_latest_block_id(), num_of(&ring.get_latest_block_hash()));
                let mut lc = vec![];
                for k in 0..(live_max + size + 2) {
                    if let Some(x) = ring.get_longest_chain_block_hash_at_block_id(k) {
                        lc.push(format!("{}:{}", k, num_of(&x)));
                    }
                }
                (tip, lc)
            }));
            hist.push(op.clone());
            match res {
                Ok((tip, lc)) => {
                    out.case(&op, &format!("tip={}:{} lc=[{}]", tip.0, tip.1, lc.join(",")));
                    Some(tip)
                }
                Err(_) => {
                    out.case(&op, "tip=panic lc=[]");
                    None
                }
            }
        };
        for _ in 0..steps {
            let live_max = |chain: &Vec<(u64, u32)>, side: &Vec<(u64, u32)>| chain.iter().chain(side.iter()).map(|x| x.0).max().unwrap_or(0);
            let tip_id = chain.last().map(|x| x.0).unwrap_or(0);
            let pick = r.below(10);
            if pick < 5 || chain.len() < 2 {
                // grow the chain by one block; entries that would share its slot are deleted first
                let id = tip_id + 1;
                let old: Vec<(u64, u32)> = chain.iter().chain(side.iter()).filter(|x| x.0 + size <= id).cloned().collect();
                for (oi, oh) in old {
                    chain.retain(|x| *x != (oi, oh));
                    side.retain(|x| *x != (oi, oh));
                    let lm = live_max(&chain, &side).max(oi);
                    apply(&mut ring, out, &mut hist, "del", oi, oh, lm);
                }
                let h = next_hash;
                next_hash += 1;
                chain.push((id, h));
                let lm = live_max(&chain, &side);
                apply(&mut ring, out, &mut hist, "add", id, h, lm);
                apply(&mut ring, out, &mut hist, "on", id, h, lm);
                out.count("ring:grow");
            } else if pick < 7 {
                // a side block at one of the top three heights
                let id = tip_id - r.below(3.min(tip_id));
                if id == 0 {
                    continue;
                }
                let h = next_hash;
                next_hash += 1;
                side.push((id, h));
                let lm = live_max(&chain, &side);
                apply(&mut ring, out, &mut hist, "add", id, h, lm);
                out.count("ring:side");
            } else if pick < 9 {
                // unwind the top j blocks; then wind the same blocks back, or replace them by stored side blocks
                let j = (1 + r.below(3)) as usize;
                if chain.len() <= j {
                    continue;
                }
                let top: Vec<(u64, u32)> = chain[chain.len() - j..].to_vec();
                let lm = live_max(&chain, &side);
                let mut last_tip = None;
                for (id, h) in top.iter().rev() {
                    last_tip = apply(&mut ring, out, &mut hist, "off", *id, *h, lm);
                }
                let below = chain[chain.len() - j - 1];
                if let Some(t) = last_tip {
                    if t != below {
                        let what = format!("after unwinding the top {} blocks the index reports tip {:?}; the block below them is {:?}", j, t, below);
                        let rj = serde_json::json!({"suite": "chain", "ring_ops": hist.clone(), "gp": gp});
                        for p in ["C03", "C04", "C05"] {
                            out.monitor_fail(&format!("{}/by-height-index/tip-after-unwind-is-not-the-block-below", p), &what, rj.clone());
                        }
                    }
                }
                out.count(&format!("ring:unwind:{}{}", j, if top.iter().any(|x| x.0 % size == 0) { ":across-slot-0" } else { "" }));
                // replacement: side blocks at exactly those heights (one per height), else the same blocks
                let mut repl: Vec<(u64, u32)> = vec![];
                for (id, _) in top.iter() {
                    if let Some(s) = side.iter().find(|s| s.0 == *id) {
                        repl.push(*s);
                    }
                }
                let use_side = repl.len() == j && r.coin(1, 2);
                let wind: Vec<(u64, u32)> = if use_side { repl.clone() } else { top.clone() };
                if use_side {
                    for t in top.iter() {
                        side.push(*t);
                    }
                    side.retain(|s| !repl.contains(s));
                    let n = chain.len();
                    chain.truncate(n - j);
                    chain.extend(repl.iter().cloned());
                    out.count("ring:reorg-to-side-blocks");
                }
                for (id, h) in wind.iter() {
                    apply(&mut ring, out, &mut hist, "on", *id, *h, lm);
                }
            } else {
                // delete a side block
                if let Some(s) = side.pop() {
                    let lm = live_max(&chain, &side).max(s.0);
                    apply(&mut ring, out, &mut hist, "del", s.0, s.1, lm);
                    out.count("ring:delete-side");
                }
            }
        }
    }
}

/// parent: spawns workers, turns silence into `stall`, writes ops/impl/stats
pub fn run(seed: u64, tier: &str, outdir: &str) {
    let mut out = Out::new(outdir);
    out.setup(&format!("flags {}", calibrate()));
    ring_suite(&mut out, seed, tier);
    let exe = std::env::current_exe().unwrap();
    let mut start = 0usize;
    let mut stalls = 0;
    'outer: loop {
        let mut child = Command::new(&exe)
            .args(["chain-worker", &seed.to_string(), tier, &start.to_string()])
            .stdout(Stdio::piped())
            .stderr(Stdio::null())
            .spawn()
            .unwrap();
        let stdout = child.stdout.take().unwrap();
        let (tx, rx) = mpsc::channel::<String>();
        std::thread::spawn(move || {
            for l in BufReader::new(stdout).lines() {
                if let Ok(l) = l {
                    if tx.send(l).is_err() {
                        break;
                    }
                }
            }
        });
        let mut cur_case = start;
        let mut pending_op: Option<String> = None;
        loop {
            match rx.recv_timeout(Duration::from_millis(if pending_op.is_some() { 2500 } else { 120000 })) {
                Ok(l) => {
                    let (tag, rest) = l.split_once('\t').unwrap_or((&l, ""));
                    match tag {
                        "C" => cur_case = rest.parse().unwrap_or(cur_case),
                        "S" => out.setup(rest),
                        "O" => pending_op = Some(rest.to_string()),
                        "I" => {
                            if let Some(op) = pending_op.take() {
                                out.case(&op, rest);
                            }
                        }
                        "H" => out.count(rest),
                        "M" => {
                            let p: Vec<&str> = rest.splitn(3, '\t').collect();
                            if p.len() == 3 {
                                out.monitor_fail(p[0], p[1], serde_json::from_str(p[2]).unwrap_or(serde_json::Value::Null));
                            }
                        }
                        "E" => {
                            let _ = child.wait();
                            break 'outer;
                        }
                        _ => {}
                    }
                }
                Err(_) => {
                    // silence: the worker is stuck inside add_block (or died)
                    let _ = child.kill();
                    let _ = child.wait();
                    if let Some(op) = pending_op.take() {
                        out.case(&op, "res=stall");
                        out.monitor_fail(
                            "C04/add_block-does-not-return/reorg-candidate-contains-invalid-block",
                            "add_block did not return within 2.5 s (loop in Blockchain::validate)",
                            serde_json::json!({"flat_case_index": cur_case, "seed": seed, "tier": tier, "op": op}),
                        );
                        stalls += 1;
                    } else {
                        out.count("worker-died-outside-add_block");
                    }
                    start = cur_case + 1;
                    if stalls > (if tier == "thorough" { 200 } else { 40 }) {
                        out.count("too-many-stalls-stopped-early");
                        break 'outer;
                    }
                    continue 'outer;
                }
            }
        }
    }
    out.finish(serde_json::json!({"stalls": stalls}));
}

fn ns(parent: Option<usize>, gt: bool, dt: u64, tamper: bool, tx: u8) -> NodeSpec {
    NodeSpec { parent, gt, dt, tamper, tx, creator: 1 }
}

/// witness histories of the listed chain-level defects: (name, tree, delivery order)
pub fn witnesses() -> Vec<(&'static str, Vec<NodeSpec>, Vec<usize>)> {
    let mut v = vec![];
    // txv: a block on branch B spends an output that exists only on branch A
    v.push(("txv", vec![ns(None, true, 400, false, 1), ns(None, true, 400, false, 2)], vec![1]));
    // restore: candidate [B1*, B2] against [A1]; B1 (first wound) is invalid
    v.push(("restore", vec![ns(None, true, 400, false, 1), ns(None, true, 300, true, 0), ns(Some(1), true, 300, false, 0)], vec![0, 1, 2]));
    // orphan: B2 arrives without B1 while the tip is A3
    v.push((
        "orphan",
        vec![ns(None, true, 400, false, 1), ns(Some(0), true, 400, false, 0), ns(Some(1), true, 400, false, 0), ns(None, true, 400, false, 0), ns(Some(3), true, 400, false, 0)],
        vec![0, 1, 2, 4],
    ));
    // gtall: main chain of 8 (tickets everywhere), side chain of 9 whose first seven blocks carry no ticket
    let mut t = vec![];
    for i in 0..8 {
        t.push(ns(if i == 0 { None } else { Some(i - 1) }, true, 2500, false, 0));
    }
    for i in 0..9 {
        t.push(ns(if i == 0 { None } else { Some(8 + i - 1) }, i >= 7, 201, false, 1));
    }
    v.push(("gtall", t, (0..17).collect()));
    v
}

async fn deliver_plain(tree: &Tree, order: &[usize]) -> (Node, Vec<&'static str>, Vec<Snap>) {
    let mut ids = Ids::default();
    let mut node = Node::new(9, Cfg::new(GP, HEARTBEAT, 50));
    let mut cls = vec![];
    let mut snaps = vec![];
    node.add_block(tree.genesis.clone()).await;
    for &i in order {
        let r = match crate::common::guarded_async(node.add_block(tree.nodes[i].block.clone())).await {
            Ok(r) => r,
            Err(_) => {
                cls.push("panic");
                snaps.push(snapshot(&node, &mut ids).await);
                break;
            }
        };
        cls.push(add_result_class(&r));
        snaps.push(snapshot(&node, &mut ids).await);
        if std::env::var("VERIF_LOUD").is_ok() {
            eprintln!("deliver {} -> {} tip {:?}", i, cls.last().unwrap(), snaps.last().unwrap().tip);
        }
    }
    (node, cls, snaps)
}

/// measure the defect flags of the tree under test by replaying the witnesses on the real code (DESIGN §3.2)
pub fn calibrate() -> String {
    let mut it = saito_core::core::consensus::ringitem::RingItem::default();
    it.add_block(5, [1; 32]);
    it.add_block(5, [2; 32]);
    it.delete_block(5, [2; 32]);
    let ringdel = it.lc_pos.is_none() as u8;
    let rt = rt();
    let mut flags: HashMap<&str, u8> = HashMap::new();
    for (name, specs, order) in witnesses() {
        let mut f = Factory::new(77, Cfg::new(GP, HEARTBEAT, 50));
        let val = rt.block_on(async {
            let tree = build_tree(&mut f, &specs).await.expect("witness tree");
            let (node, cls, snaps) = deliver_plain(&tree, &order).await;
            match name {
                // fixed = the block that spends a non-existent output is NOT accepted onto the chain
                "txv" => (*cls.last().unwrap() == "invalid") as u8,
                // fixed = after the failed reorganisation the tip is A1 again
                "restore" => (node.tip().map(|t| t.1) == Some(tree.nodes[0].block.hash)) as u8,
                // fixed = the index is the same before and after the orphan's arrival
                "orphan" => (snaps[snaps.len() - 1].lc == snaps[snaps.len() - 2].lc) as u8,
                // fixed = the ticket-less side chain is not adopted
                "gtall" => (node.tip().map(|t| t.1) != Some(tree.nodes[16].block.hash)) as u8,
                _ => 0,
            }
        });
        flags.insert(name, val);
    }
    format!(
        "ringdel={} restore={} txv={} orphan={} gtall={}",
        ringdel, flags["restore"], flags["txv"], flags["orphan"], flags["gtall"]
    )
}
