//! C13 correspondence: automatic transaction rebroadcast (ATR) at the retention-window edge.
//! Real nodes with a small genesis_period; an honest producer = the real `Block::create` run against the
//! node's own chain, ring, utxo set and (in-memory) disk. For every produced block n > gp+1 the harness
//! projects: the outputs of block n-gp-1, the spendable slips at the window edge, the previous header values,
//! the block's ATR transactions, the validator's consensus values (real `generate_consensus_values` on the
//! finished block), the node's verdict, and the utxo entries of expired outputs afterwards — and the Lean
//! model (driver `atr`) answers the same line. Direct monitors use the harness' own bookkeeping only.
//! Histories run in a child process (`atr-worker`) so that a livelock becomes the answer `stall`.
use crate::common::*;
use crate::node::*;
use saito_core::core::consensus::block::Block;
use saito_core::core::consensus::golden_ticket::GoldenTicket;
use saito_core::core::consensus::slip::{Slip, SlipType};
use saito_core::core::consensus::transaction::{Transaction, TransactionType};
use saito_core::core::defs::{Currency, SaitoHash, SaitoPublicKey, SaitoSignature, SaitoUTXOSetKey};
use saito_core::core::util::crypto::hash;
use std::collections::{HashMap, HashSet};
use std::io::{BufRead, BufReader, Write};
use std::process::{Command, Stdio};
use std::sync::mpsc;
use std::time::Duration;

pub const HEARTBEAT: u64 = 100;
pub const NKEYS: u64 = 8;

// ------------------------------------------------------------------------------------------ history specs
#[derive(Clone, Debug)]
pub struct HSpec {
    pub gp: u64,
    pub len: u64,
    /// fee paid by every pooled transaction
    pub fee: u64,
    /// genesis issuance (key index, amount)
    pub gen: Vec<(u64, Currency)>,
    /// amounts of the side outputs of the per-block "bank" transaction
    pub pool: Vec<u64>,
    /// true: every bank transaction creates exactly `pool`; false: 1..3 random picks
    pub fixed_sides: bool,
    /// percent chance per block of a second transaction spending an earlier side output
    pub p_spend: u64,
    /// golden tickets: false = every second block, true = every second block plus random extra ones
    pub gt_rand: bool,
    pub prune: u64,
    /// (first height of the fork, length of branch A; branch B is one longer)
    pub fork: Option<(u64, u64)>,
    pub seed: u64,
    pub name: String,
}

impl HSpec {
    pub fn to_line(&self) -> String {
        format!(
            "hist name={} gp={} len={} fee={} gen={} pool={} fixed={} pspend={} gtrand={} prune={} fork={} seed={}",
            self.name,
            self.gp,
            self.len,
            self.fee,
            self.gen.iter().map(|(k, a)| format!("{}:{}", k, a)).collect::<Vec<_>>().join(","),
            self.pool.iter().map(|a| a.to_string()).collect::<Vec<_>>().join(","),
            self.fixed_sides as u8,
            self.p_spend,
            self.gt_rand as u8,
            self.prune,
            match self.fork {
                Some((h, a)) => format!("{}:{}", h, a),
                None => "-".to_string(),
            },
            self.seed
        )
    }
    pub fn parse(line: &str) -> Option<HSpec> {
        let mut it = line.split_whitespace();
        if it.next()? != "hist" {
            return None;
        }
        let mut m: HashMap<&str, &str> = HashMap::new();
        for kv in it {
            let (k, v) = kv.split_once('=')?;
            m.insert(k, v);
        }
        let num = |k: &str| -> Option<u64> { m.get(k)?.parse().ok() };
        Some(HSpec {
            name: m.get("name")?.to_string(),
            gp: num("gp")?,
            len: num("len")?,
            fee: num("fee")?,
            gen: m.get("gen")?.split(',').filter_map(|x| x.split_once(':')).filter_map(|(a, b)| Some((a.parse().ok()?, b.parse().ok()?))).collect(),
            pool: m.get("pool")?.split(',').filter_map(|x| x.parse().ok()).collect(),
            fixed_sides: num("fixed")? == 1,
            p_spend: num("pspend")?,
            gt_rand: num("gtrand")? == 1,
            prune: num("prune")?,
            fork: match *m.get("fork")? {
                "-" => None,
                s => {
                    let (a, b) = s.split_once(':')?;
                    Some((a.parse().ok()?, b.parse().ok()?))
                }
            },
            seed: num("seed")?,
        })
    }
}

/// the witness histories behind the listed findings (also in corpus/C13/witness.ops)
pub fn witness_specs() -> Vec<HSpec> {
    let base = HSpec {
        gp: 5,
        len: 12,
        fee: 1000,
        gen: vec![(1, 50_000_000), (2, 60)],
        pool: vec![50, 7],
        fixed_sides: true,
        p_spend: 0,
        gt_rand: false,
        prune: 1_000_000,
        fork: None,
        seed: 5,
        name: "w-reject".into(),
    };
    vec![
        // multiplier 17 at block 8: producer caps with treasury 0, validator does not -> own block rejected
        base.clone(),
        // same, eligible value above 5 % of the treasury: both sides cap, the block is accepted, value is minted
        HSpec { pool: vec![80, 7], name: "w-mint".into(), ..base.clone() },
        // fee per byte > 0: dust at blocks 7-9 (stays spendable), multiplier 3 at block 10 with cap on both sides:
        // every compared value agrees, only the commitment hash (taken before the cap) differs
        HSpec { fee: 6000, gen: vec![(1, 50_000_000), (2, 60), (3, 5000)], name: "w-hash".into(), ..base.clone() },
    ]
}

/// witness of the flag `triplefee` (a fixed fee-paying triple history, independent of the run's seed)
pub fn nft_fee_witness() -> HSpec {
    HSpec {
        gp: 4,
        len: 18,
        fee: 4000,
        gen: vec![(9, 1_000_000), (9, 2_000_000), (1, 50_000_000), (2, 60)],
        pool: vec![],
        fixed_sides: true,
        p_spend: 0,
        gt_rand: false,
        prune: 1_000_000,
        fork: None,
        seed: 951,
        name: "nftfee-w".to_string(),
    }
}

pub fn cases(seed: u64, tier: &str) -> Vec<HSpec> {
    let mut v = vec![];
    // monitor-only: a bound triple carried around the window three times (see run_nft_history)
    for (i, gp) in [4u64, 5, 7].iter().enumerate() {
        v.push(HSpec {
            gp: *gp,
            len: 3 * (gp + 1) + 3,
            fee: 0,
            gen: vec![(9, 1_000_000), (9, 2_000_000), (1, 50_000_000), (2, 60)],
            pool: vec![],
            fixed_sides: true,
            p_spend: 0,
            gt_rand: false,
            prune: 1_000_000,
            fork: None,
            seed: seed.wrapping_add(900 + i as u64),
            name: format!("nft-{}", i),
        });
    }
    // the same with a fee-paying transaction in every block, so that the rebroadcast of the triple is charged a fee
    for (i, gp) in [4u64, 6].iter().enumerate() {
        v.push(HSpec {
            gp: *gp,
            len: 3 * (gp + 1) + 3,
            fee: 4000 + 1000 * i as u64,
            gen: vec![(9, 1_000_000), (9, 2_000_000), (1, 50_000_000), (2, 60)],
            pool: vec![],
            fixed_sides: true,
            p_spend: 0,
            gt_rand: false,
            prune: 1_000_000,
            fork: None,
            seed: seed.wrapping_add(950 + i as u64),
            name: format!("nftfee-{}", i),
        });
    }
    // corpus first
    if let Ok(dir) = std::fs::read_dir(format!("{}/corpus/C13", verif_root())) {
        let mut files: Vec<_> = dir.filter_map(|e| e.ok()).map(|e| e.path()).filter(|p| p.extension().map(|x| x == "ops").unwrap_or(false)).collect();
        files.sort();
        for f in files {
            if let Ok(txt) = std::fs::read_to_string(&f) {
                for l in txt.lines() {
                    if let Some(h) = HSpec::parse(l) {
                        v.push(h);
                    }
                }
            }
        }
    }
    if v.is_empty() {
        v = witness_specs();
    }
    let mut r = Rng::new(seed ^ 0xC13);
    let thorough = tier == "thorough";
    let reps = if thorough { 60 } else { 10 };
    let mut id = 0;
    for rep in 0..reps {
        for &gp in &[5u64, 8, 12] {
            // wraps: how many times the window is wrapped
            for wraps in 1..=3u64 {
                // fee classes: 0 / per-byte fee below gp (average stays 0) / per-byte fee well above gp
                for feeclass in 0..3u64 {
                    // big looping value keeps the multiplier at 1 (k = 0); small looping value lets it grow
                    for big in [true, false] {
                        id += 1;
                        let fee = match feeclass {
                            0 => 0,
                            1 => 250 * (gp - 1).min(3),
                            _ => 600 * gp + r.below(4000),
                        };
                        let mut gen = vec![(1, 60_000_000 + r.below(1000))];
                        if big {
                            gen.push((2, 40_000_000));
                            gen.push((3, 9_000_000 + r.below(100)));
                        } else {
                            gen.push((2, 60 + r.below(40)));
                        }
                        gen.push((4, 1 + r.below(30)));
                        let fork = if big && r.coin(1, 2) {
                            let h = gp + 2 + r.below(wraps * gp);
                            Some((h, 1 + r.below(2)))
                        } else {
                            None
                        };
                        v.push(HSpec {
                            gp,
                            len: wraps * gp + gp + 3 + r.below(3),
                            fee,
                            gen,
                            pool: vec![7, 50, 300, 2000, 9000, 90_000, 1_000_000],
                            fixed_sides: false,
                            p_spend: 30 + r.below(50),
                            gt_rand: r.coin(1, 2),
                            prune: if r.coin(1, 3) { gp / 2 + 1 } else { 1_000_000 },
                            fork,
                            seed: seed.wrapping_mul(1000) + id + rep * 100_000,
                            name: format!("g{}w{}f{}{}-{}", gp, wraps, feeclass, if big { "k0" } else { "kx" }, id),
                        });
                    }
                }
            }
        }
    }
    v
}

// ------------------------------------------------------------------------------------------ real-code helpers
pub fn gt_tx(rng: &mut Rng, parent: &Block, miner: u64, ts: u64) -> Transaction {
    let pk = key(miner).0;
    loop {
        let random: SaitoHash = hash(&rng.bytes(32));
        let gt = GoldenTicket::create(parent.hash, random, pk);
        if gt.validate(parent.difficulty) {
            let mut tx = Transaction::default();
            tx.transaction_type = TransactionType::GoldenTicket;
            tx.timestamp = ts;
            tx.data = gt.serialize_for_net();
            let mut input = Slip::default();
            input.public_key = pk;
            let mut output = Slip::default();
            output.public_key = pk;
            tx.add_from_slip(input);
            tx.add_to_slip(output);
            tx.sign(&key(miner).1);
            return tx;
        }
    }
}

pub fn mk_tx(inputs: &[Slip], signer: u64, outputs: &[(u64, Currency)], data: Vec<u8>, ts: u64) -> Transaction {
    let mut tx = Transaction::default();
    tx.transaction_type = TransactionType::Normal;
    tx.timestamp = ts;
    for s in inputs {
        tx.from.push(s.clone());
    }
    for (k, amt) in outputs {
        let mut s = Slip::default();
        s.public_key = key(*k).0;
        s.amount = *amt;
        s.slip_type = SlipType::Normal;
        tx.to.push(s);
    }
    tx.data = data;
    tx.sign(&key(signer).1);
    tx
}

/// the honest producer: the real `Block::create` run against the node's own chain, ring, utxo set and disk
pub async fn create_on(node: &Node, parent: SaitoHash, ts: u64, creator: u64, txs: Vec<Transaction>, gt: Option<Transaction>) -> Result<Block, String> {
    let (pk, sk) = key(creator);
    let mut map: ahash::AHashMap<SaitoSignature, Transaction> = Default::default();
    for mut t in txs {
        t.generate(&pk, 0, 0);
        map.insert(t.signature, t);
    }
    let gt = gt.map(|mut g| {
        g.generate(&pk, 0, 0);
        g
    });
    let r = guarded_async(Block::create(&mut map, parent, &node.blockchain, ts, &pk, &sk, gt, &node.cfg, &node.storage)).await;
    match r {
        Ok(Ok(mut b)) => match guarded(|| b.generate()) {
            Ok(Ok(())) => Ok(b),
            Ok(Err(e)) => Err(format!("err:{}", e)),
            Err(p) => Err(format!("panic:{}", p)),
        },
        Ok(Err(e)) => Err(format!("err:{}", e)),
        Err(p) => Err(format!("panic:{}", p)),
    }
}

// ------------------------------------------------------------------------------------------ projection
pub struct Keys(Vec<SaitoPublicKey>);
impl Keys {
    pub fn new() -> Keys {
        Keys((0..NKEYS).map(|i| key(i).0).collect())
    }
    pub fn owner(&self, pk: &SaitoPublicKey) -> u64 {
        self.0.iter().position(|k| k == pk).map(|i| i as u64).unwrap_or(99)
    }
}
fn slip_type_num(t: SlipType) -> u8 {
    use num_traits::ToPrimitive;
    t.to_u8().unwrap_or(255)
}
/// the six fields of the utxo key
pub fn fmt_slip(ks: &Keys, s: &Slip) -> String {
    format!("{}.{}.{}.{}.{}.{}", ks.owner(&s.public_key), s.block_id, s.tx_ordinal, s.slip_index, s.amount, slip_type_num(s.slip_type))
}
type SlipT = (u64, u64, u64, u64, u64, u64);
pub fn slip_tuple(ks: &Keys, s: &Slip) -> SlipT {
    (ks.owner(&s.public_key), s.block_id, s.tx_ordinal, s.slip_index as u64, s.amount, slip_type_num(s.slip_type) as u64)
}
fn fmt_tuple(t: &SlipT) -> String {
    format!("{}.{}.{}.{}.{}.{}", t.0, t.1, t.2, t.3, t.4, t.5)
}
fn join(v: Vec<String>) -> String {
    if v.is_empty() {
        "-".to_string()
    } else {
        v.join(";")
    }
}
/// spendable entries of the node's utxo set created at or below block `upto`, sorted
pub fn edge_utxo(ks: &Keys, node: &Node, upto: u64) -> Vec<SlipT> {
    let mut v: Vec<SlipT> = node
        .blockchain
        .utxoset
        .iter()
        .filter(|(_, val)| **val)
        .filter_map(|(k, _)| Slip::parse_slip_from_utxokey(k).ok())
        .filter(|s| s.block_id <= upto)
        .map(|s| slip_tuple(ks, &s))
        .collect();
    v.sort();
    v
}
fn ident(s: &Slip) -> (SaitoPublicKey, u64, u64, u8, u8) {
    (s.public_key, s.block_id, s.tx_ordinal, s.slip_index, slip_type_num(s.slip_type))
}

// ------------------------------------------------------------------------------------------ bookkeeping
#[derive(Default)]
pub struct Ledger {
    pub blocks: HashMap<SaitoHash, Block>,
}
impl Ledger {
    pub fn chain_to(&self, tip: &SaitoHash) -> Vec<&Block> {
        let mut v = vec![];
        let mut h = *tip;
        while let Some(b) = self.blocks.get(&h) {
            v.push(b);
            if b.previous_block_hash == [0; 32] {
                break;
            }
            h = b.previous_block_hash;
        }
        v.reverse();
        v
    }
}
/// every value-carrying input key of blocks chain[from..to)
fn spent_keys(chain: &[&Block], from: usize, to: usize) -> HashSet<SaitoUTXOSetKey> {
    let mut s = HashSet::new();
    for b in &chain[from.min(chain.len())..to.min(chain.len())] {
        for tx in &b.transactions {
            if tx.transaction_type == TransactionType::Fee {
                continue;
            }
            for i in &tx.from {
                if i.amount > 0 {
                    s.insert(i.get_utxoset_key());
                }
            }
        }
    }
    s
}
/// outputs of the chain still unspent (exact key never used as an input), with owner index
fn spendable_view(ks: &Keys, chain: &[&Block]) -> Vec<Utxo> {
    let spent = spent_keys(chain, 0, chain.len());
    let mut v = vec![];
    for b in chain {
        for tx in &b.transactions {
            for s in &tx.to {
                if s.amount > 0 && !spent.contains(&s.get_utxoset_key()) {
                    let o = ks.owner(&s.public_key);
                    if o != 99 {
                        v.push(Utxo { slip: s.clone(), owner: o });
                    }
                }
            }
        }
    }
    v
}

// ------------------------------------------------------------------------------------------ one history
pub struct Emit<'a>(pub &'a mut dyn FnMut(&str, &str));
impl<'a> Emit<'a> {
    fn e(&mut self, tag: &str, s: &str) {
        (self.0)(tag, s)
    }
    fn hist(&mut self, s: &str) {
        (self.0)("H", s)
    }
    fn fail(&mut self, key: &str, what: &str, replay: &serde_json::Value) {
        (self.0)("M", &format!("{}\t{}\t{}", key, what.replace(['\t', '\n'], " "), replay))
    }
}

struct Plan {
    rng: Rng,
    spec: HSpec,
}

/// transactions of the next block on `chain` (rule-driven, all choices from the plan's rng)
fn plan_txs(plan: &mut Plan, ks: &Keys, chain: &[&Block], ts: u64, variant: u64) -> Vec<Transaction> {
    let spec = plan.spec.clone();
    let n = chain.len() as u64 + 1;
    let mut view = spendable_view(ks, chain);
    // inside the window and not about to be rebroadcast by this very block
    view.retain(|u| u.slip.block_id + spec.gp >= n && u.slip.block_id + spec.gp + 1 != n && u.slip.slip_type != SlipType::Bound);
    view.sort_by_key(|u| (u.slip.amount, u.slip.block_id, u.slip.tx_ordinal, u.slip.slip_index));
    let mut txs = vec![];
    let sides: Vec<u64> = if spec.fixed_sides {
        spec.pool.clone()
    } else {
        let c = plan.rng.range(1, 3);
        (0..c).map(|_| *plan.rng.pick(&spec.pool)).collect()
    };
    let need: u64 = sides.iter().sum::<u64>() + spec.fee + 1000;
    if let Some(pos) = view.iter().rposition(|u| u.slip.amount > need) {
        let u = view.remove(pos);
        let rest = u.slip.amount - sides.iter().sum::<u64>() - spec.fee;
        let mut outs = vec![(u.owner, rest)];
        for (j, a) in sides.iter().enumerate() {
            outs.push((2 + ((n + j as u64) % 4), *a));
        }
        txs.push(mk_tx(&[u.slip.clone()], u.owner, &outs, vec![n as u8, variant as u8], ts));
    }
    if plan.rng.below(100) < spec.p_spend && !view.is_empty() {
        // spend an earlier (small or medium) output entirely; its fee is what it can afford
        let k = plan.rng.below(view.len() as u64) as usize;
        let u = view.remove(k);
        let f = spec.fee.min(u.slip.amount - 1);
        let to = 2 + plan.rng.below(4);
        txs.push(mk_tx(&[u.slip.clone()], u.owner, &[(to, u.slip.amount - f)], vec![n as u8, variant as u8, 2], ts));
    }
    txs
}

fn multiplier_k(gp: u64, prev: &Block) -> u64 {
    let staked = gp * prev.avg_nolan_rebroadcast_per_block;
    if staked > 0 {
        prev.treasury / staked
    } else {
        0
    }
}

/// the `blk` request line for block `b` built on `chain` (chain excludes b)
fn blk_op(ks: &Keys, gp: u64, ctx: &Node, chain: &[&Block], b: &Block) -> String {
    let n = b.id;
    let e = n - gp - 1;
    let prev = chain[chain.len() - 1];
    let eb = chain[(e - 1) as usize];
    let mut outs = vec![];
    for tx in &eb.transactions {
        let size = tx.get_serialized_size();
        for s in &tx.to {
            outs.push(format!("{}/{}", fmt_slip(ks, s), size));
        }
    }
    let base = b
        .transactions
        .iter()
        .position(|t| t.transaction_type == TransactionType::ATR)
        .unwrap_or(b.transactions.iter().filter(|t| t.transaction_type != TransactionType::Fee).count());
    let utxo = edge_utxo(ks, ctx, e);
    let mut nin = vec![];
    for tx in &b.transactions {
        if tx.transaction_type == TransactionType::ATR || tx.transaction_type == TransactionType::Fee {
            continue;
        }
        for i in &tx.from {
            if i.amount > 0 && i.block_id <= e {
                nin.push(fmt_slip(ks, i));
            }
        }
    }
    format!(
        "blk n={} gp={} purge={} base={} fpb={} tre={} anr={} self={} outs={} utxo={} nin={}",
        n,
        gp,
        purge_id(gp, ctx, n),
        base,
        prev.avg_fee_per_byte,
        prev.treasury,
        prev.avg_nolan_rebroadcast_per_block,
        b.treasury,
        join(outs),
        join(utxo.iter().map(fmt_tuple).collect()),
        join(nin)
    )
}

/// the block id whose outputs `Blockchain::delete_blocks` removes from the utxo set when block `n` becomes the tip
/// (0 = none): blocks are deleted at 2·gp, but a block whose transactions were dropped from memory earlier
/// (prune_after_blocks < 2·gp, `downgrade_blockchain_data`) has nothing left to remove. Whether the block still
/// carries its transactions is read from the node before the call (with forks not every height is pruned).
fn purge_id(gp: u64, ctx: &Node, n: u64) -> u64 {
    if n < 2 * gp + 1 {
        return 0;
    }
    let id = n - 2 * gp;
    match ctx.blockchain.blockring.get_longest_chain_block_hash_at_block_id(id) {
        Some(h) => match ctx.blockchain.blocks.get(&h) {
            Some(b) if !b.transactions.is_empty() => id,
            _ => 0,
        },
        None => 0,
    }
}

fn atr_txs(b: &Block) -> Vec<&Transaction> {
    b.transactions.iter().filter(|t| t.transaction_type == TransactionType::ATR).collect()
}

/// produce a block on ctx's tip, emit the `blk` line (n > gp+1), add it to ctx. Returns (block, verdict)
async fn produce_and_add(
    em: &mut Emit<'_>,
    ks: &Keys,
    spec: &HSpec,
    ctx: &mut Node,
    ledger: &mut Ledger,
    tip: &Block,
    creator: u64,
    txs: Vec<Transaction>,
    gt: Option<Transaction>,
    ts: u64,
) -> Result<(Block, &'static str), String> {
    let gp = spec.gp;
    let b = create_on(ctx, tip.hash, ts, creator, txs, gt).await?;
    let chain: Vec<Block> = ledger.chain_to(&tip.hash).into_iter().cloned().collect();
    let chain_refs: Vec<&Block> = chain.iter().collect();
    let with_atr = b.id > gp + 1 && chain.len() as u64 == b.id - 1;
    let mut vpart = String::new();
    if with_atr {
        let op = blk_op(ks, gp, ctx, &chain_refs, &b);
        em.e("O", &op);
        // validator's view: the real generate_consensus_values on the finished block, before it is added
        let cvv = guarded_async(b.generate_consensus_values(&ctx.blockchain, &ctx.storage, &ctx.cfg)).await;
        vpart = match cvv {
            Ok(cv) => format!(
                "vfees={} vpayout={} vhash={} vrb=[{}]",
                cv.total_fees_atr,
                cv.total_payout_atr,
                (cv.rebroadcast_hash == b.rebroadcast_hash) as u8,
                cv.rebroadcasts
                    .iter()
                    .map(|t| format!("{}>{}.{}.{}", fmt_slip(ks, &t.from[0]), ks.owner(&t.to[0].public_key), t.to[0].amount, slip_type_num(t.to[0].slip_type)))
                    .collect::<Vec<_>>()
                    .join(";")
            ),
            Err(_) => "vfees=panic vpayout=panic vhash=0 vrb=[]".to_string(),
        };
    }
    let r = guarded_async(ctx.add_block(b.clone())).await;
    let verdict: &'static str = match &r {
        Ok(r) => match add_result_class(r) {
            "added_lc" => "ok",
            other => other,
        },
        Err(msg) => {
            if msg.contains("invalid total supply") {
                "panic"
            } else {
                em.hist(&format!("add_block-panic-other:{}", &msg[..msg.len().min(60)]));
                "panic-other"
            }
        }
    };
    if with_atr {
        let e = b.id - gp - 1;
        let still = edge_utxo(ks, ctx, e);
        let imp = format!(
            "res={} rb=[{}] fees_atr={} payout={} slips={} nolan={} dust={} {} still=[{}]",
            verdict,
            atr_txs(&b).iter().map(|t| format!("{}>{}", fmt_slip(ks, &t.from[0]), fmt_slip(ks, &t.to[0]))).collect::<Vec<_>>().join(";"),
            b.total_fees_atr,
            b.total_payout_atr,
            b.total_rebroadcast_slips,
            b.cv.total_rebroadcast_nolan,
            b.cv.total_fees_paid_by_nonrebroadcast_atr_transactions,
            vpart,
            still.iter().map(fmt_tuple).collect::<Vec<_>>().join(";")
        );
        em.e("I", &imp);
        let prev = chain_refs[chain_refs.len() - 1];
        let k = multiplier_k(gp, prev);
        em.hist(&format!("block:{}:{}", verdict, if k >= 1 { "multiplier>=1" } else { "multiplier-0" }));
        em.hist(&format!("fee-per-byte:{}", if prev.avg_fee_per_byte > 0 { ">0" } else { "0" }));
    }
    if verdict == "ok" || verdict == "panic" {
        ledger.blocks.insert(b.hash, b.clone());
    }
    Ok((b, verdict))
}

/// direct monitors for block `b` = chain[idx], which is on the longest chain of `node` and whose effects are in
/// the node's utxo set
fn monitor_block(em: &mut Emit<'_>, gp: u64, node: &Node, chain: &[&Block], idx: usize, replay: &serde_json::Value) {
    let b = chain[idx];
    let n = b.id;
    if n <= gp + 1 {
        return;
    }
    let e = n - gp - 1;
    let eb = chain[(e - 1) as usize];
    let prev = chain[idx - 1];
    let k = multiplier_k(gp, prev);
    let class = if k >= 1 { "multiplier>=1" } else { "multiplier-0" };
    let spent = spent_keys(chain, e as usize, idx); // blocks e+1 .. n-1
    let atrs = atr_txs(b);
    let mut unspent_ids = HashSet::new();
    let (mut sum_in, mut sum_to, mut expect_fee, mut expect_payout) = (0u128, 0u128, 0u128, 0u128);
    let mut amounts: Vec<(u128, u128, u128, u128, (u64, u64, u8))> = vec![];
    for tx in &eb.transactions {
        let fee = tx.get_serialized_size() as u64 * prev.avg_fee_per_byte;
        for o in &tx.to {
            if o.amount == 0 || o.slip_type == SlipType::Bound || spent.contains(&o.get_utxoset_key()) {
                continue;
            }
            let pos = (o.block_id, o.tx_ordinal, o.slip_index);
            unspent_ids.insert(ident(o));
            sum_in += o.amount as u128;
            let m: Vec<&&Transaction> = atrs.iter().filter(|t| t.from.len() == 1 && ident(&t.from[0]) == ident(o)).collect();
            let dust = (o.amount as u128) * (1 + k as u128) <= fee as u128;
            em.hist(if dust { "output:dust" } else { "output:rebroadcast" });
            em.hist(&format!("output-type:{}", slip_type_num(o.slip_type)));
            if m.is_empty() && !dust {
                em.fail(&format!("C13/output-not-handled/{}", class), &format!("block {}: unspent output {:?} of block {} (amount {}) has no ATR transaction and is not below the fee {}", n, pos, e, o.amount, fee), replay);
            }
            if m.len() >= 2 || (m.len() == 1 && dust) {
                em.fail(&format!("C13/handled-twice/{}", class), &format!("block {}: output {:?} of block {}: {} ATR transactions, dust={}", n, pos, e, m.len(), dust), replay);
            }
            if dust {
                expect_fee += o.amount as u128;
            }
            if m.len() == 1 && !dust {
                let t = m[0];
                let want = o.amount as u128 * (1 + k as u128) - fee as u128;
                expect_fee += fee as u128;
                expect_payout += o.amount as u128 * k as u128;
                if t.to.len() != 1 || t.to[0].public_key != o.public_key || t.to[0].slip_type != SlipType::ATR {
                    em.fail(&format!("C13/owner-or-value-changed/owner/{}", class), &format!("block {}: ATR of {:?} pays another key or has {} outputs", n, pos, t.to.len()), replay);
                } else {
                    amounts.push((o.amount as u128, t.to[0].amount as u128, want, fee as u128, pos));
                }
                // the original must be gone once the block is wound
                if node.blockchain.utxoset.get(&o.get_utxoset_key()) == Some(&true) {
                    em.fail(
                        &format!("C13/original-still-spendable/{}", class),
                        &format!("after block {} the rebroadcast output {:?} of block {} (amount {}) is still spendable next to its replacement (amount {}); the ATR input slip carries amount {}", n, pos, e, o.amount, t.to[0].amount, t.from[0].amount),
                        replay,
                    );
                }
            }
        }
    }
    // amounts: either the uncapped formula value*(1+k) - fee for every output, or (5 % cap, fee waived) one common
    // adjusted multiplier: value*(1+adj) for every output, with payout = sum(value*adj) <= 5 % of the treasury
    let uncapped_ok = amounts.iter().all(|(_, out, want, _, _)| out == want);
    let capped_ok = !amounts.is_empty() && k >= 1 && {
        let (a0, out0, _, _, _) = amounts[0];
        let adj = if out0 >= a0 { (out0 - a0) / a0 } else { u128::MAX };
        adj != u128::MAX
            && amounts.iter().all(|(a, out, _, _, _)| *out == a * (1 + adj))
            && b.total_fees_atr == 0
            && b.total_payout_atr as u128 == amounts.iter().map(|(a, _, _, _, _)| a * adj).sum::<u128>()
            && b.total_payout_atr as u128 <= (prev.treasury.max(b.treasury) as u128) / 20 + 1
    };
    if !uncapped_ok && !capped_ok {
        for (a, out, want, fee, pos) in amounts.iter().filter(|(_, out, want, _, _)| out != want) {
            em.fail(&format!("C13/owner-or-value-changed/amount/{}", class), &format!("block {}: ATR of {:?}: amount {} instead of {}*(1+{}) - {} = {} (and not a consistently capped payout)", n, pos, out, a, k, fee, want), replay);
        }
    }
    if capped_ok && !uncapped_ok {
        // fee waived, payout = the capped amount
        em.hist("block:capped-payout");
        expect_fee = 0;
        expect_payout = b.total_payout_atr as u128;
        // dust-collected value must still be collected
        for tx in &eb.transactions {
            let fee = tx.get_serialized_size() as u64 * prev.avg_fee_per_byte;
            for o in &tx.to {
                if o.amount > 0 && o.slip_type != SlipType::Bound && !spent.contains(&o.get_utxoset_key()) && (o.amount as u128) * (1 + k as u128) <= fee as u128 {
                    expect_fee += o.amount as u128;
                }
            }
        }
    }
    let mut seen = HashSet::new();
    for t in &atrs {
        for s in &t.to {
            if s.slip_type != SlipType::Bound {
                sum_to += s.amount as u128;
            }
        }
        let id = ident(&t.from[0]);
        let pos = (t.from[0].block_id, t.from[0].tx_ordinal, t.from[0].slip_index);
        if !unspent_ids.contains(&id) {
            em.fail(&format!("C13/other-output-rebroadcast/{}", class), &format!("block {}: ATR transaction whose input {:?} is not an unspent output of block {}", n, pos, e), replay);
        }
        if !seen.insert(id) {
            em.fail(&format!("C13/handled-twice/{}", class), &format!("block {}: two ATR transactions for {:?}", n, pos), replay);
        }
    }
    // value: what reappears plus what is collected as fees = what left the window plus what the treasury paid
    if sum_to + b.total_fees_atr as u128 != sum_in + b.total_payout_atr as u128 {
        let dir = if sum_to + b.total_fees_atr as u128 > sum_in + b.total_payout_atr as u128 { "value-minted" } else { "value-lost" };
        em.fail(
            &format!("C13/owner-or-value-changed/{}/{}", dir, class),
            &format!("block {}: ATR outputs {} + ATR fees {} != expiring unspent value {} + treasury payout {} (treasury {} -> {})", n, sum_to, b.total_fees_atr, sum_in, b.total_payout_atr, prev.treasury, b.treasury),
            replay,
        );
    } else if b.total_fees_atr as u128 != expect_fee || b.total_payout_atr as u128 != expect_payout {
        em.fail(
            &format!("C13/owner-or-value-changed/fees-or-payout/{}", class),
            &format!("block {}: fees_atr {} (expected {}), payout_atr {} (expected {})", n, b.total_fees_atr, expect_fee, b.total_payout_atr, expect_payout),
            replay,
        );
    }
}

/// nothing is rebroadcast twice along one chain
fn monitor_chain_twice(em: &mut Emit<'_>, chain: &[&Block], replay: &serde_json::Value) {
    let mut seen = HashSet::new();
    for b in chain {
        for t in atr_txs(b) {
            if !seen.insert(ident(&t.from[0])) {
                em.fail("C13/handled-twice/across-blocks", &format!("output {:?} is the input of two ATR transactions on one chain (second in block {})", (t.from[0].block_id, t.from[0].tx_ordinal, t.from[0].slip_index), b.id), replay);
            }
        }
    }
}

/// An honest producer is handed an ordinary, correctly signed spend of an output that the block it is about to build must
/// rebroadcast (created `gp + 1` blocks below it, still unspent). The output may be handled ONCE: the producer refuses the
/// block, or drops one of the two, or the node refuses the block. Returns true when the history cannot go on.
async fn edge_spend_attempt(em: &mut Emit<'_>, ks: &Keys, gp: u64, node: &mut Node, chain: &[&Block], rng: &mut Rng, replay: &serde_json::Value) -> bool {
    let tip = chain[chain.len() - 1];
    let n = tip.id + 1;
    if n <= gp + 1 {
        return false;
    }
    let mut view = spendable_view(ks, chain);
    view.retain(|u| u.slip.block_id + gp + 1 == n && u.slip.slip_type != SlipType::Bound && u.slip.amount > 0);
    view.sort_by_key(|u| (u.slip.amount, u.slip.tx_ordinal, u.slip.slip_index));
    let Some(u) = view.last().cloned() else {
        em.hist("edge-spend:no-unspent-output-leaves-the-window");
        return false;
    };
    let ts = tip.timestamp + 2 * HEARTBEAT + 1;
    let to = 2 + (n % 4);
    let tx = mk_tx(&[u.slip.clone()], u.owner, &[(to, u.slip.amount)], vec![n as u8, 0xED], ts);
    let gt = gt_tx(rng, tip, 1, ts);
    let b = match create_on(node, tip.hash, ts, 1, vec![tx], Some(gt)).await {
        Ok(b) => b,
        Err(_) => {
            em.hist("edge-spend:producer-refuses");
            return false;
        }
    };
    let spends = b.transactions.iter().filter(|t| t.transaction_type != TransactionType::ATR && t.from.iter().any(|s| s.amount > 0 && ident(s) == ident(&u.slip))).count();
    let rebroadcasts = atr_txs(&b).iter().filter(|t| t.from.len() == 1 && ident(&t.from[0]) == ident(&u.slip)).count();
    if spends + rebroadcasts <= 1 {
        em.hist("edge-spend:producer-keeps-one-of-the-two");
        return false;
    }
    let r = guarded_async(node.add_block(b.clone())).await;
    let cls = match &r {
        Ok(r) => add_result_class(r),
        Err(_) => "panic",
    };
    em.hist(&format!("edge-spend:block-with-both:{}", cls));
    let on_chain = node.tip().map(|t| t.1) == Some(b.hash);
    if cls == "added_lc" || on_chain {
        em.fail(
            "C13/handled-twice/spent-and-rebroadcast-in-one-block",
            &format!(
                "block {} (produced by Block::create, add_block: {}) spends output {:?} of block {} in an ordinary transaction AND rebroadcasts it: its value reaches the spend's outputs and its owner gets it again as an ATR output",
                b.id,
                cls,
                (u.slip.block_id, u.slip.tx_ordinal, u.slip.slip_index),
                u.slip.block_id
            ),
            replay,
        );
        return true;
    }
    // (a producer that builds a block its own node refuses is C07's subject; the history goes on from the old tip)
    cls == "panic"
}

/// how the harness' own bookkeeping classifies an old output
fn disposition(gp: u64, chain: &[&Block], s: &Slip) -> &'static str {
    let n = s.block_id + gp + 1;
    if (n as usize) > chain.len() {
        return "not-yet-handled-output";
    }
    let b = chain[(n - 1) as usize];
    if atr_txs(b).iter().any(|t| ident(&t.from[0]) == ident(s)) {
        let k = multiplier_k(gp, chain[(n - 2) as usize]);
        if k >= 1 {
            "rebroadcast-output-multiplier>=1"
        } else {
            "rebroadcast-output-multiplier-0"
        }
    } else if spent_keys(chain, s.block_id as usize, (n - 1) as usize).contains(&s.get_utxoset_key()) {
        "spent-output"
    } else {
        "dust-collected-output"
    }
}

/// window probes on the node's current tip: would a transaction spending an old output validate?
fn probes(em: &mut Emit<'_>, ks: &Keys, gp: u64, node: &Node, chain: &[&Block], replay: &serde_json::Value) -> Option<(Slip, u64)> {
    let tip = chain.len() as u64;
    if tip < gp + 3 {
        return None;
    }
    let next = tip + 1;
    let mut cands: Vec<(bool, Slip)> = vec![];
    for bid in [tip - gp - 2, tip - gp - 1] {
        for tx in &chain[(bid - 1) as usize].transactions {
            for s in &tx.to {
                if s.amount > 0 && s.slip_type != SlipType::Bound && ks.owner(&s.public_key) != 99 {
                    cands.push((node.blockchain.utxoset.get(&s.get_utxoset_key()) == Some(&true), s.clone()));
                }
            }
        }
    }
    cands.sort_by_key(|(inu, s)| (!*inu, s.block_id, s.tx_ordinal, s.slip_index));
    cands.truncate(3);
    // the oldest entry of the utxo set, if its block has already been deleted (tip >= blk + 2*gp)
    let oldest = node
        .blockchain
        .utxoset
        .iter()
        .filter(|(_, v)| **v)
        .filter_map(|(k, _)| Slip::parse_slip_from_utxokey(k).ok())
        .filter(|s| s.block_id + 2 * gp <= tip && s.slip_type != SlipType::Bound && ks.owner(&s.public_key) != 99)
        .min_by_key(|s| (s.block_id, s.tx_ordinal, s.slip_index, s.amount));
    if let Some(s) = oldest {
        cands.push((true, s));
    }
    let utxo = edge_utxo(ks, node, tip - gp - 1);
    let mut spendable = None;
    for (_, s) in cands {
        let owner = ks.owner(&s.public_key);
        let mut tx = mk_tx(&[s.clone()], owner, &[(owner, s.amount)], vec![0xEE], chain[chain.len() - 1].timestamp + 1);
        tx.generate(&key(1).0, 0, 0);
        let valid = guarded(|| tx.validate(&node.blockchain.utxoset, &node.blockchain, true)).unwrap_or(false);
        em.e("O", &format!("probe n={} gp={} s={} utxo={}", next, gp, fmt_slip(ks, &s), join(utxo.iter().map(fmt_tuple).collect())));
        em.e("I", &format!("valid={}", valid as u8));
        let disp = if s.block_id + 2 * gp <= tip { format!("{}-of-deleted-block", disposition(gp, chain, &s)) } else { disposition(gp, chain, &s).to_string() };
        em.hist(&format!("probe:{}:{}", disp, if valid { "validates" } else { "rejected" }));
        if valid {
            em.fail(
                &format!("C13/expired-output-spendable/{}", disp),
                &format!("tip {}: a transaction spending output {:?} (amount {}) of block {} = tip-{} passes Transaction::validate against the node's utxo set", tip, (s.block_id, s.tx_ordinal, s.slip_index), s.amount, s.block_id, tip - s.block_id),
                replay,
            );
            if spendable.is_none() {
                spendable = Some((s.clone(), owner));
            }
        }
    }
    spendable
}

/// the producing node did not simply accept its own block: findings and the validator-side exercise
fn own_block_not_ok(em: &mut Emit<'_>, gp: u64, node: &Node, ledger: &Ledger, tip: &Block, b: &Block, verdict: &str, replay: &serde_json::Value) {
    let k_now = if b.id > gp + 1 { multiplier_k(gp, tip) } else { 0 };
    let class = if k_now >= 1 { "multiplier>=1" } else { "multiplier-0" };
    if verdict == "invalid" {
        // the node rejects the block it has just produced on its own tip
        em.fail(
            &format!("C13/own-block-rejected/{}", class),
            &format!("block {} built by the real Block::create on the node's own tip is rejected by the node's own add_block (previous treasury {}, avg nolan rebroadcast {}, multiplier 1+{})", b.id, tip.treasury, tip.avg_nolan_rebroadcast_per_block, k_now),
            replay,
        );
        // validator-side exercise: wind the rejected block with the real code on a copy of the utxo set
        let chain: Vec<&Block> = ledger.chain_to(&tip.hash);
        let mut u2 = node.blockchain.utxoset.clone();
        let mut b2 = b.clone();
        b2.on_chain_reorganization(&mut u2, true);
        if b.id > gp + 1 && chain.len() as u64 == b.id - 1 {
            let eb = chain[(b.id - gp - 2) as usize];
            for t in atr_txs(b) {
                for tx in &eb.transactions {
                    for o in &tx.to {
                        if ident(o) == ident(&t.from[0]) && u2.get(&o.get_utxoset_key()) == Some(&true) {
                            em.fail(
                                &format!("C13/original-still-spendable/{}", class),
                                &format!("block {} (rejected by its own node) wound with the real Block::on_chain_reorganization on a copy of the utxo set: output {:?} of block {} (amount {}) stays spendable next to its replacement (amount {}); ATR input slip amount {}", b.id, (o.block_id, o.tx_ordinal, o.slip_index), o.block_id, o.amount, t.to[0].amount, t.from[0].amount),
                                replay,
                            );
                        }
                    }
                }
            }
        }
        em.hist("history-ended:own-block-rejected");
    } else {
        // add_block panicked in check_total_supply AFTER winding the block: the ledger is observable
        let chain: Vec<&Block> = ledger.chain_to(&b.hash);
        monitor_block(em, gp, node, &chain, chain.len() - 1, replay);
        em.hist("history-ended:supply-panic-on-own-block");
    }
}

/// MONITOR-ONLY history (the Lean model of the rebroadcast pass covers single outputs, not bound triples): the node's wallet
/// turns one of its outputs into an NFT-style triple [Bound, payload, Bound] in block 2 and nobody touches it again; the chain
/// grows until the triple has gone around the retention window `wraps` times. Whenever the block that holds the live triple
/// leaves the window, the next block must carry exactly ONE rebroadcast transaction for it, inputs and outputs
/// [Bound, payload, Bound] for the same keys, the bound slips (markers, not currency) staying bound.
async fn run_nft_history(spec: &HSpec, emit: &mut dyn FnMut(&str, &str)) {
    let mut em = Emit(emit);
    let gp = spec.gp;
    let replay = serde_json::json!({"suite": "atr", "history": spec.to_line()});
    em.hist("history:nft-triple");
    let cfg = Cfg::new(gp, HEARTBEAT, spec.prune);
    let mut f = Factory::new(spec.seed, cfg.clone());
    let genesis = f.make_genesis(&spec.gen).await;
    let mut node = Node::new(9, cfg.clone());
    node.add_block(genesis.clone()).await;
    let mut chain: Vec<Block> = vec![genesis.clone()];
    let nft_tx = {
        let mut w = node.wallet_lock.write().await;
        let input = w.slips.values().filter(|sl| !sl.spent && sl.amount > 10_000).map(|sl| (sl.amount, sl.block_id, sl.tx_ordinal, sl.slip_index)).min();
        let Some((amount, block_id, tx_ordinal, slip_index)) = input else {
            em.hist("nft:wallet-has-no-output");
            return;
        };
        match w.create_bound_transaction(amount, block_id, tx_ordinal, slip_index as u64, 5_000, vec![], &key(2).0, None, 1, gp, "verif".to_string()).await {
            Ok(mut t) => {
                t.generate(&key(9).0, 0, 0);
                t
            }
            Err(_) => {
                em.hist("nft:create-failed");
                return;
            }
        }
    };
    let ks = Keys::new();
    let is_triple = |v: &[Slip], j: usize| j + 2 < v.len() + 0 && v[j].slip_type == SlipType::Bound && v[j + 1].slip_type != SlipType::Bound && v[j + 2].slip_type == SlipType::Bound;
    // (block id of creation, the three slips) of the live triple
    let mut live: Option<(u64, [Slip; 3])> = None;
    let mut rng = Rng::new(spec.seed ^ 0x4E46);
    let mut wraps_seen = 0u64;
    for n in 2..=spec.len {
        let tip = chain.last().unwrap().clone();
        let ts = tip.timestamp + 2 * HEARTBEAT + 1;
        let mut txs = if n == 2 { vec![nft_tx.clone()] } else { vec![] };
        if spec.fee > 0 && n >= 3 {
            // a fee-paying payment of key 1 to itself: the next block's rebroadcasts are charged size x this block's fee per byte
            let refs: Vec<&Block> = chain.iter().collect();
            let mut view = spendable_view(&ks, &refs);
            view.retain(|u| u.owner == 1 && u.slip.block_id + gp >= n && u.slip.block_id + gp + 1 != n && u.slip.slip_type != SlipType::Bound && u.slip.amount > spec.fee + 1000);
            view.sort_by_key(|u| (u.slip.amount, u.slip.block_id, u.slip.tx_ordinal, u.slip.slip_index));
            if let Some(u) = view.pop() {
                txs.push(mk_tx(&[u.slip.clone()], 1, &[(1, u.slip.amount - spec.fee)], vec![n as u8], ts));
                em.hist("nft:fee-paying-transaction");
            }
        }
        let gt = Some(gt_tx(&mut rng, &tip, 1, ts));
        let b = match create_on(&node, tip.hash, ts, 1, txs, gt).await {
            Ok(b) => b,
            Err(_) => {
                em.hist("nft:create-block-failed");
                return;
            }
        };
        let cls = match guarded_async(node.add_block(b.clone())).await {
            Ok(r) => add_result_class(&r),
            Err(_) => "panic",
        };
        em.hist(&format!("nft:block:{}", cls));
        if cls != "added_lc" {
            if cls == "panic" || cls == "invalid" {
                em.fail(&format!("C13/nft/own-block-{}", if cls == "panic" { "crashes-node" } else { "rejected" }), &format!("block {} of the triple history: add_block answered {}", n, cls), &replay);
            }
            return;
        }
        // what this block did with bound slips
        let due = live.as_ref().map(|(at, _)| at + gp + 1 == n).unwrap_or(false);
        if due {
            // the cut of the source transaction's outputs into single outputs and triples, against `Saito.AtrScan.scan`:
            // the transaction of the block leaving the window that holds the live triple; every output of it is still unspent
            // (nothing in this history spends), zero-amount plain outputs are collected but never rebroadcast
            let (at, tr) = live.as_ref().unwrap();
            let src_block = &chain[(*at - 1) as usize];
            if let Some(src) = src_block.transactions.iter().find(|t| t.to.iter().any(|sl| ident(sl) == ident(&tr[0]))) {
                let outs: Vec<&Slip> = src.to.iter().filter(|sl| sl.amount > 0 || sl.slip_type == SlipType::Bound).collect();
                let types: Vec<String> = outs.iter().map(|sl| (sl.slip_type as u8).to_string()).collect();
                let mut seen: Vec<(usize, char)> = vec![];
                for t in atr_txs(&b) {
                    if let Some(pos) = outs.iter().position(|sl| ident(sl) == ident(&t.from[0])) {
                        seen.push((pos, if t.from.len() == 3 { 'T' } else { 'S' }));
                    }
                }
                seen.sort();
                // (a group whose payload cannot pay the rebroadcast fee is cut all the same but leaves no transaction: the cut is
                // visible in the block only when every collected payload can pay; the amounts are compared below in every case)
                let k0 = multiplier_k(gp, &tip) as u128;
                let fee0 = src.get_serialized_size() as u128 * tip.avg_fee_per_byte as u128;
                if outs.iter().all(|sl| sl.slip_type == SlipType::Bound || sl.amount as u128 * (1 + k0) > fee0) {
                    em.e("O", &format!("scan {}", if types.is_empty() { "-".to_string() } else { types.join(",") }));
                    em.e("I", &format!("groups={}", seen.iter().map(|x| x.1).collect::<String>()));
                } else {
                    em.hist("nft:scan-not-visible:payload-below-fee");
                }
                // the AMOUNTS of the groups against `Saito.AtrScan.acct` (multiplier 1 only: no treasury payout, so the 5% cap
                // cannot apply): per rebroadcast group the payload amount that comes back
                let k = multiplier_k(gp, &tip);
                let fee = src.get_serialized_size() as u64 * tip.avg_fee_per_byte;
                em.hist(&format!("nft:acct:{}:{}", if k == 0 { "multiplier-1" } else { "multiplier>1-skipped" }, if fee > 0 { "fee>0" } else { "fee=0" }));
                if k == 0 {
                    let tas: Vec<String> = outs.iter().map(|sl| format!("{}:{}", sl.slip_type as u8, sl.amount)).collect();
                    let mut back: Vec<(usize, u64)> = vec![];
                    for t in atr_txs(&b) {
                        if let Some(pos) = outs.iter().position(|sl| ident(sl) == ident(&t.from[0])) {
                            let pi = if t.from.len() == 3 { 1 } else { 0 };
                            back.push((pos, t.to[pi].amount));
                            // direct monitor (property text: value plus treasury payout minus the rebroadcast fee)
                            let a = outs[pos + pi].amount;
                            if t.to.len() > pi && a > fee && t.to[pi].amount != a - fee {
                                em.fail(
                                    &format!("C13/nft/payload-not-value-minus-fee/{}", if pi == 1 { "triple" } else { "single" }),
                                    &format!("block {}: the {} rebroadcast of an output worth {} (multiplier 1, rebroadcast fee {} = {} bytes x {} per byte) comes back worth {} instead of {}; the block books total_fees_atr {}",
                                        n, if pi == 1 { "bound-triple" } else { "single-output" }, a, fee, src.get_serialized_size(), tip.avg_fee_per_byte, t.to[pi].amount, a - fee, b.total_fees_atr),
                                    &replay,
                                );
                            }
                        }
                    }
                    back.sort();
                    em.e("O", &format!("acct 1 {} {}", fee, if tas.is_empty() { "-".to_string() } else { tas.join(",") }));
                    em.e("I", &format!("back=[{}]", back.iter().map(|x| x.1.to_string()).collect::<Vec<_>>().join(",")));
                }
            }
        }
        let mut groups = 0;
        for t in atr_txs(&b) {
            let any_bound = t.from.iter().chain(t.to.iter()).any(|sl| sl.slip_type == SlipType::Bound);
            if !any_bound {
                continue;
            }
            let shape_ok = t.from.len() == 3 && t.to.len() == 3 && is_triple(&t.from, 0) && is_triple(&t.to, 0) && t.to[1].slip_type == SlipType::ATR
                && (0..3).all(|i| t.from[i].public_key == t.to[i].public_key) && t.from[0].amount == t.to[0].amount && t.from[2].amount == t.to[2].amount;
            if !shape_ok {
                em.fail(
                    "C13/nft/bound-slip-rebroadcast-outside-its-triple",
                    &format!("block {}: a rebroadcast transaction touches a bound slip but is not [Bound, payload, Bound] -> [Bound, ATR, Bound] for the same keys: inputs {:?} outputs {:?}",
                        n, t.from.iter().map(|sl| (sl.slip_type as u8, sl.amount)).collect::<Vec<_>>(), t.to.iter().map(|sl| (sl.slip_type as u8, sl.amount)).collect::<Vec<_>>()),
                    &replay,
                );
                continue;
            }
            match &live {
                Some((_, tr)) if due && (0..3).all(|i| ident(&tr[i]) == ident(&t.from[i]) || (i == 1 && tr[1].public_key == t.from[1].public_key)) => {
                    groups += 1;
                    live = Some((n, [t.to[0].clone(), t.to[1].clone(), t.to[2].clone()]));
                }
                _ => em.fail("C13/nft/triple-rebroadcast-not-due", &format!("block {}: a bound triple is rebroadcast that is not the live one leaving the window", n), &replay),
            }
        }
        if n == 2 {
            if let Some(t) = b.transactions.iter().find(|t| t.transaction_type == TransactionType::Bound) {
                if let Some(j) = (0..t.to.len()).find(|j| is_triple(&t.to, *j)) {
                    live = Some((2, [t.to[j].clone(), t.to[j + 1].clone(), t.to[j + 2].clone()]));
                    em.hist("nft:triple-created");
                }
            }
            if live.is_none() {
                em.hist("nft:no-triple-in-block-2");
                return;
            }
        } else if due {
            wraps_seen += 1;
            em.hist(&format!("nft:wrap-{}", wraps_seen.min(3)));
            let k = multiplier_k(gp, &tip);
            // too small to pay the rebroadcast fee (size of the transaction that holds it x the previous block's average fee per byte)
            let dust = live.as_ref().map(|(at, tr)| {
                let fee = chain.get((*at - 1) as usize).map(|bl| bl.transactions.as_slice()).unwrap_or(&[]).iter().find(|t| t.to.iter().any(|sl| ident(sl) == ident(&tr[0]))).map(|t| t.get_serialized_size() as u128 * tip.avg_fee_per_byte as u128).unwrap_or(0);
                (tr[1].amount as u128) * (1 + k as u128) <= fee
            }).unwrap_or(false);
            if groups != 1 && !dust {
                em.fail("C13/nft/triple-not-handled-exactly-once", &format!("block {}: the live triple left the window and {} rebroadcast transactions carry it", n, groups), &replay);
                return;
            }
            // the bound slips never turn into currency: no spendable non-bound output was created from a bound input
            if let Some((_, tr)) = &live {
                for i in [0usize, 2] {
                    if tr[i].slip_type != SlipType::Bound {
                        em.fail("C13/nft/bound-slip-became-currency", &format!("block {}: a bound slip of the triple came back with slip type {}", n, tr[i].slip_type as u8), &replay);
                    }
                }
            }
        }
        chain.push(b);
    }
    em.hist("history-ended:full-length");
}

pub async fn run_history(spec: &HSpec, emit: &mut dyn FnMut(&str, &str)) {
    if spec.name.starts_with("nft") {
        run_nft_history(spec, emit).await;
        return;
    }
    let mut em = Emit(emit);
    let ks = Keys::new();
    let gp = spec.gp;
    let replay = serde_json::json!({"suite": "atr", "history": spec.to_line()});
    em.e("S", &format!("reset gp={}", gp));
    em.hist(&format!("history:gp{}", gp));
    let cfg = Cfg::new(gp, HEARTBEAT, spec.prune);
    let mut f = Factory::new(spec.seed, cfg.clone());
    let genesis = f.make_genesis(&spec.gen).await;
    let mut node = Node::new(9, cfg.clone());
    let mut mirror: Option<Node> = if spec.fork.is_some() { Some(Node::new(10, cfg.clone())) } else { None };
    let mut ledger = Ledger::default();
    ledger.blocks.insert(genesis.hash, genesis.clone());
    node.add_block(genesis.clone()).await;
    if let Some(m) = mirror.as_mut() {
        m.add_block(genesis.clone()).await;
    }
    let mut plan = Plan { rng: Rng::new(spec.seed ^ 0xA7A7), spec: spec.clone() };
    let mut tip = genesis.clone();
    let mut last_spendable: Option<(Slip, u64)> = None;
    let mut i = 2u64;
    while i <= spec.len {
        // ---------------- fork episode: branch A (node) vs branch B (mirror), B one block longer
        if let (Some((h, alen)), true) = (spec.fork, mirror.is_some()) {
            if i == h {
                let mut m = mirror.take().unwrap();
                let base_tip = tip.clone();
                let mut a_tip = base_tip.clone();
                let mut a_blocks = vec![];
                let mut ok = true;
                for _ in 0..alen {
                    let chain: Vec<Block> = ledger.chain_to(&a_tip.hash).into_iter().cloned().collect();
                    let refs: Vec<&Block> = chain.iter().collect();
                    let ts = a_tip.timestamp + 2 * HEARTBEAT + 1;
                    let txs = plan_txs(&mut plan, &ks, &refs, ts, 0);
                    let gt = Some(gt_tx(&mut plan.rng, &a_tip, 1, ts));
                    match produce_and_add(&mut em, &ks, spec, &mut node, &mut ledger, &a_tip, 1, txs, gt, ts).await {
                        Ok((b, "ok")) => {
                            let chain: Vec<Block> = ledger.chain_to(&b.hash).into_iter().cloned().collect();
                            let refs: Vec<&Block> = chain.iter().collect();
                            monitor_block(&mut em, gp, &node, &refs, refs.len() - 1, &replay);
                            a_blocks.push(b.clone());
                            a_tip = b;
                        }
                        Ok((b, v)) => {
                            own_block_not_ok(&mut em, gp, &node, &ledger, &a_tip, &b, v, &replay);
                            ok = false;
                            break;
                        }
                        Err(_) => {
                            ok = false;
                            break;
                        }
                    }
                }
                let mut b_tip = base_tip.clone();
                let mut b_blocks = vec![];
                if ok {
                    for _ in 0..alen + 1 {
                        let chain: Vec<Block> = ledger.chain_to(&b_tip.hash).into_iter().cloned().collect();
                        let refs: Vec<&Block> = chain.iter().collect();
                        let ts = b_tip.timestamp + 2 * HEARTBEAT + 7;
                        let txs = plan_txs(&mut plan, &ks, &refs, ts, 1);
                        let gt = Some(gt_tx(&mut plan.rng, &b_tip, 6, ts));
                        match produce_and_add(&mut em, &ks, spec, &mut m, &mut ledger, &b_tip, 6, txs, gt, ts).await {
                            Ok((b, "ok")) => {
                                b_blocks.push(b.clone());
                                b_tip = b;
                            }
                            Ok((b, v)) => {
                                own_block_not_ok(&mut em, gp, &m, &ledger, &b_tip, &b, v, &replay);
                                ok = false;
                                break;
                            }
                            Err(_) => {
                                ok = false;
                                break;
                            }
                        }
                    }
                }
                if !ok {
                    em.hist("fork:branch-not-built");
                    return;
                }
                // deliver B to the node: the last delivery reorganises across the window edge
                let e_final = b_tip.id - gp - 1;
                for (j, b) in b_blocks.iter().enumerate() {
                    let last = j + 1 == b_blocks.len();
                    let before = edge_utxo(&ks, &node, e_final);
                    let purges_pre: Vec<u64> = b_blocks.iter().map(|x| purge_id(gp, &node, x.id)).filter(|x| *x > 0).collect();
                    let r = guarded_async(node.add_block(b.clone())).await;
                    let cls = match &r {
                        Ok(r) => add_result_class(r),
                        Err(_) => "panic",
                    };
                    em.hist(&format!("fork-delivery:{}", cls));
                    if last {
                        let io = |bl: &Block| -> String {
                            let mut ins = vec![];
                            let mut outs = vec![];
                            for tx in &bl.transactions {
                                for s in tx.from.iter().filter(|s| s.amount > 0 && s.block_id <= e_final) {
                                    ins.push(fmt_slip(&ks, s));
                                }
                                for s in tx.to.iter().filter(|s| s.amount > 0 && s.block_id <= e_final) {
                                    outs.push(fmt_slip(&ks, s));
                                }
                            }
                            format!("{}~{}", join(ins), join(outs))
                        };
                        let adopted = node.tip().map(|t| t.1) == Some(b.hash);
                        let (un, wi): (Vec<String>, Vec<String>) = if adopted {
                            (a_blocks.iter().rev().map(|x| io(x)).collect(), b_blocks.iter().map(|x| io(x)).collect())
                        } else {
                            (vec![], vec![])
                        };
                        let j2 = |v: Vec<String>| if v.is_empty() { "-".to_string() } else { v.join("|") };
                        let purges: Vec<String> = if adopted { purges_pre.iter().map(|x| x.to_string()).collect() } else { vec![] };
                        em.e("O", &format!("reorg e={} purge={} utxo={} unwind={} wind={}", e_final, if purges.is_empty() { "-".to_string() } else { purges.join(",") }, join(before.iter().map(fmt_tuple).collect()), j2(un), j2(wi)));
                        em.e("I", &format!("still=[{}]", edge_utxo(&ks, &node, e_final).iter().map(fmt_tuple).collect::<Vec<_>>().join(";")));
                        em.hist(if adopted { "fork:adopted-across-edge" } else { "fork:not-adopted" });
                        if adopted {
                            let chain: Vec<Block> = ledger.chain_to(&b.hash).into_iter().cloned().collect();
                            let refs: Vec<&Block> = chain.iter().collect();
                            for idx in (refs.len() - b_blocks.len())..refs.len() {
                                monitor_block(&mut em, gp, &node, &refs, idx, &replay);
                            }
                            monitor_chain_twice(&mut em, &refs, &replay);
                            tip = b.clone();
                        } else {
                            tip = a_tip.clone();
                        }
                    }
                }
                i = tip.id + 1;
                continue;
            }
        }
        // ---------------- ordinary step on the node's own tip
        let chain: Vec<Block> = ledger.chain_to(&tip.hash).into_iter().cloned().collect();
        let refs: Vec<&Block> = chain.iter().collect();
        if i % 3 == 1 && edge_spend_attempt(&mut em, &ks, gp, &mut node, &refs, &mut Rng::new(spec.seed ^ i), &replay).await {
            em.hist("history-ended:edge-spend");
            return;
        }
        let ts = tip.timestamp + 2 * HEARTBEAT + 1;
        let txs = plan_txs(&mut plan, &ks, &refs, ts, 0);
        // extra tickets raise the difficulty by one each (two tickets in a row); keep mining cheap
        let want_gt = i % 2 == 0 || txs.is_empty() || (spec.gt_rand && tip.difficulty < 8 && plan.rng.coin(1, 3));
        let gt = if want_gt { Some(gt_tx(&mut plan.rng, &tip, 1, ts)) } else { None };
        let res = produce_and_add(&mut em, &ks, spec, &mut node, &mut ledger, &tip, 1, txs, gt, ts).await;
        let (b, verdict) = match res {
            Ok(x) => x,
            Err(e) => {
                em.hist(&format!("create-failed:{}", &e[..e.len().min(40)]));
                return;
            }
        };
        if let Some(m) = mirror.as_mut() {
            if verdict == "ok" {
                let _ = guarded_async(m.add_block(b.clone())).await;
            }
        }
        match verdict {
            "ok" => {
                let chain: Vec<Block> = ledger.chain_to(&b.hash).into_iter().cloned().collect();
                let refs: Vec<&Block> = chain.iter().collect();
                monitor_block(&mut em, gp, &node, &refs, refs.len() - 1, &replay);
                monitor_chain_twice(&mut em, &refs, &replay);
                last_spendable = probes(&mut em, &ks, gp, &node, &refs, &replay);
                tip = b;
            }
            "invalid" | "panic" => {
                own_block_not_ok(&mut em, gp, &node, &ledger, &tip, &b, verdict, &replay);
                return;
            }
            _ => {
                em.hist(&format!("history-ended:{}", verdict));
                return;
            }
        }
        i += 1;
    }
    // ---------------- destructive probe at the end: put the spend of an expired output into a block
    if let Some((s, owner)) = last_spendable {
        let ts = tip.timestamp + 2 * HEARTBEAT + 1;
        let tx = mk_tx(&[s.clone()], owner, &[(owner, s.amount)], vec![0xEF], ts);
        let gt = gt_tx(&mut plan.rng, &tip, 1, ts);
        match create_on(&node, tip.hash, ts, 1, vec![tx], Some(gt)).await {
            Ok(b) => {
                let r = guarded_async(node.add_block(b.clone())).await;
                let cls = match &r {
                    Ok(r) => add_result_class(r).to_string(),
                    Err(m) => format!("panic({})", &m[..m.len().min(40)]),
                };
                em.hist(&format!("endprobe:block-spending-expired-output:{}", cls));
            }
            Err(e) => em.hist(&format!("endprobe:create-failed:{}", &e[..e.len().min(40)])),
        }
    }
    em.hist("history-ended:full-length");
}

// ------------------------------------------------------------------------------------------ worker / parent
pub fn worker(seed: u64, tier: &str, start: usize) {
    let rt = rt();
    let all = cases(seed, tier);
    let stdout = std::io::stdout();
    for (k, spec) in all.iter().enumerate() {
        if k < start {
            continue;
        }
        {
            let mut o = stdout.lock();
            writeln!(o, "C\t{}", k).unwrap();
            o.flush().unwrap();
        }
        let mut emit = |tag: &str, s: &str| {
            let mut o = stdout.lock();
            writeln!(o, "{}\t{}", tag, s).unwrap();
            o.flush().unwrap();
        };
        rt.block_on(run_history(spec, &mut emit));
    }
    let mut o = stdout.lock();
    writeln!(o, "E\t{}", all.len()).unwrap();
}

pub fn run(seed: u64, tier: &str, outdir: &str) {
    let mut out = Out::new(outdir);
    out.setup(&format!("flags {}", calibrate()));
    let exe = std::env::current_exe().unwrap();
    let mut start = 0usize;
    let mut stalls = 0;
    'outer: loop {
        let mut child = Command::new(&exe)
            .args(["atr-worker", &seed.to_string(), tier, &start.to_string()])
            .stdout(Stdio::piped())
            .stderr(Stdio::null())
            .spawn()
            .unwrap();
        let stdout = child.stdout.take().unwrap();
        let (tx, rx) = mpsc::channel::<String>();
        std::thread::spawn(move || {
            for l in BufReader::new(stdout).lines() {
                if let Ok(l) = l {
                    if tx.send(l).is_err() {
                        break;
                    }
                }
            }
        });
        let mut cur_case = start;
        let mut pending_op: Option<String> = None;
        loop {
            match rx.recv_timeout(Duration::from_millis(20000)) {
                Ok(l) => {
                    let (tag, rest) = l.split_once('\t').unwrap_or((&l, ""));
                    match tag {
                        "C" => cur_case = rest.parse().unwrap_or(cur_case),
                        "S" => out.setup(rest),
                        "O" => pending_op = Some(rest.to_string()),
                        "I" => {
                            if let Some(op) = pending_op.take() {
                                out.case(&op, rest);
                            }
                        }
                        "H" => out.count(rest),
                        "M" => {
                            let p: Vec<&str> = rest.splitn(3, '\t').collect();
                            if p.len() == 3 {
                                out.monitor_fail(p[0], p[1], serde_json::from_str(p[2]).unwrap_or(serde_json::Value::Null));
                            }
                        }
                        "E" => {
                            let _ = child.wait();
                            break 'outer;
                        }
                        _ => {}
                    }
                }
                Err(_) => {
                    let _ = child.kill();
                    let _ = child.wait();
                    if let Some(op) = pending_op.take() {
                        out.case(&op, "res=stall");
                    }
                    out.count("worker-stalled-or-died");
                    stalls += 1;
                    start = cur_case + 1;
                    if stalls > 20 {
                        out.count("too-many-stalls-stopped-early");
                        break 'outer;
                    }
                    continue 'outer;
                }
            }
        }
    }
    out.finish(serde_json::json!({"stalls": stalls, "histories": cases(seed, tier).len()}));
}

/// replay of one history given as a `hist …` line (./check C13 --replay)
pub fn one(line: &str) {
    let rt = rt();
    if let Some(spec) = HSpec::parse(line) {
        let mut emit = |tag: &str, s: &str| println!("{}\t{}", tag, s);
        rt.block_on(run_history(&spec, &mut emit));
    } else {
        println!("cannot parse history line");
    }
}

fn tok<'a>(line: &'a str, name: &str) -> &'a str {
    line.split(' ').find(|t| t.starts_with(name)).map(|t| &t[name.len()..]).unwrap_or("")
}

/// witness of `txVerdictPropagated` (independent of the ATR flags): genesis, one ordinary block, then a block built by
/// the real Block::create whose only pooled transaction spends a slip that is NOT in the utxo set (a genesis output
/// with its amount changed, correctly signed by its owner, outputs <= inputs). 1 = the node's own add_block answers
/// FailedNotValid; 0 = anything else (pinned: the block is wound and check_total_supply panics).
pub async fn tx_verdict_witness() -> u8 {
    let gp = 5;
    let cfg = Cfg::new(gp, HEARTBEAT, 1_000_000);
    let mut f = Factory::new(11, cfg.clone());
    let genesis = f.make_genesis(&[(1, 50_000_000), (2, 70_000)]).await;
    let mut node = Node::new(9, cfg.clone());
    node.add_block(genesis.clone()).await;
    let mut rng = Rng::new(0x7C5);
    let owner = owner_lookup(NKEYS);
    let outs = outputs_of(&genesis, &owner);
    let bank = outs.iter().find(|u| u.owner == 1).unwrap().clone();
    let victim = outs.iter().find(|u| u.owner == 2).unwrap().clone();
    // block 2: ordinary
    let ts2 = genesis.timestamp + 2 * HEARTBEAT + 1;
    let tx2 = mk_tx(&[bank.slip.clone()], 1, &[(1, bank.slip.amount - 500), (3, 500)], vec![2], ts2);
    let gt2 = gt_tx(&mut rng, &genesis, 1, ts2);
    let b2 = match create_on(&node, genesis.hash, ts2, 1, vec![tx2], Some(gt2)).await {
        Ok(b) => b,
        Err(_) => return 0,
    };
    if guarded_async(node.add_block(b2.clone())).await.map(|r| add_result_class(&r)) != Ok("added_lc") {
        return 0;
    }
    // block 3: spends a key that does not exist
    let ts3 = b2.timestamp + 2 * HEARTBEAT + 1;
    let mut ghost = victim.slip.clone();
    ghost.amount += 1;
    ghost.generate_utxoset_key();
    let tx3 = mk_tx(&[ghost.clone()], 2, &[(2, ghost.amount)], vec![3], ts3);
    let b3 = match create_on(&node, b2.hash, ts3, 1, vec![tx3], None).await {
        Ok(b) => b,
        Err(_) => return 0,
    };
    let r = guarded_async(node.add_block(b3)).await;
    if std::env::var("VERIF_LOUD").is_ok() {
        eprintln!("tx_verdict_witness: block 3 -> {:?}", r.as_ref().map(|r| add_result_class(r)).map_err(|m| m[..m.len().min(60)].to_string()));
    }
    match r {
        Ok(r) => (add_result_class(&r) == "invalid") as u8,
        Err(_) => 0,
    }
}

/// measure the defect flags of the tree under test by replaying the witness histories on the real code
pub fn calibrate() -> String {
    let rt = rt();
    let ws = witness_specs();
    let (mut key, mut cap, mut hashf, mut window) = (1u8, 1u8, 1u8, 1u8);
    for spec in &ws {
        let mut lines: Vec<(String, String)> = vec![];
        let mut emit = |tag: &str, s: &str| lines.push((tag.to_string(), s.to_string()));
        rt.block_on(run_history(spec, &mut emit));
        let mut op = String::new();
        for (tag, s) in &lines {
            match tag.as_str() {
                "O" => op = s.clone(),
                "I" if op.starts_with("blk ") => {
                    let utxo: Vec<&str> = tok(&op, "utxo=").split(';').collect();
                    let rb = tok(s, "rb=").trim_start_matches('[').trim_end_matches(']');
                    let anr: u64 = tok(&op, "anr=").parse().unwrap_or(0);
                    let gp: u64 = tok(&op, "gp=").parse().unwrap_or(1);
                    let tre: u64 = tok(&op, "tre=").parse().unwrap_or(0);
                    if !rb.is_empty() && anr > 0 && tre / (gp * anr) >= 1 {
                        // key: with multiplier > 1, is every ATR input an existing spendable slip?
                        for pair in rb.split(';') {
                            let inp = pair.split('>').next().unwrap_or("");
                            if !utxo.iter().any(|u| *u == inp) {
                                key = 0;
                            }
                        }
                        // cap: do producer and validator compute the same fees / payout?
                        let agree = tok(s, "fees_atr=") == tok(s, "vfees=") && tok(s, "payout=") == tok(s, "vpayout=");
                        if !agree {
                            cap = 0;
                        } else if tok(s, "vhash=") == "0" {
                            // hash: all compared values agree, only the commitment hash differs
                            hashf = 0;
                        }
                    }
                }
                "I" if op.starts_with("probe ") => {
                    if s == "valid=1" {
                        window = 0;
                    }
                }
                _ => {}
            }
        }
    }
    // triplefee: the committed witness history (a bound triple leaving the window while the average fee per byte is above 0):
    // does the payload come back worth value minus fee (1), or does the block create the fee — payload back at full value,
    // check_total_supply panics (0)?
    let mut triplefee = 1u8;
    {
        let spec = nft_fee_witness();
        let mut lines: Vec<(String, String)> = vec![];
        let mut emit = |tag: &str, s: &str| lines.push((tag.to_string(), s.to_string()));
        rt.block_on(run_history(&spec, &mut emit));
        if lines.iter().any(|(t, s)| t == "M" && (s.starts_with("C13/nft/own-block-crashes-node") || s.starts_with("C13/nft/payload-not-value-minus-fee/triple"))) {
            triplefee = 0;
        }
    }
    format!("key={} cap={} hash={} window={} txv={} triplefee={}", key, cap, hashf, window, rt.block_on(tx_verdict_witness()), triplefee)
}
