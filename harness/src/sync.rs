//! C16 correspondence: the real `BlockchainSyncState` (block-fetch scheduler) against the Lean model
//! `Saito.Sync` (`driver sync`).
//!
//! `build_peer_block_picture` is `pub(crate)`, so it is reached the way the node reaches it: a real
//! `RoutingThread` (all fields are `pub`) gets `RoutingEvent::BlockchainUpdated(h)` through the public
//! `ProcessEvent::process_event`, which runs `remove_entry(h); fetch_next_blocks()` = build; select; and the
//! network glue (`Network::process_incoming_block_hash` → `InterfaceIO::fetch_block_from_peer`, or `remove_entry`
//! when the network layer declines). The other operations are the public methods of the struct itself.
//!
//! Request line (self-contained): `seq|fin <batch> <url-peers> ;op;op;…` — see lean/Driver/Sync.lean.
use crate::common::*;
use async_trait::async_trait;
use saito_core::core::consensus::block::Block;
use saito_core::core::consensus::blockchain::Blockchain;
use saito_core::core::consensus::blockchain_sync_state::BlockchainSyncState;
use saito_core::core::consensus::mempool::Mempool;
use saito_core::core::consensus::peers::peer::Peer;
use saito_core::core::consensus::peers::peer_collection::PeerCollection;
use saito_core::core::consensus::peers::peer_service::PeerService;
use saito_core::core::consensus::wallet::Wallet;
use saito_core::core::defs::{BlockId, PeerIndex, SaitoHash, Timestamp};
use saito_core::core::io::interface_io::{InterfaceEvent, InterfaceIO};
use saito_core::core::io::network::Network;
use saito_core::core::io::storage::Storage;
use saito_core::core::process::keep_time::{KeepTime, Timer};
use saito_core::core::process::process_event::ProcessEvent;
use saito_core::core::routing_thread::{RoutingEvent, RoutingStats, RoutingThread};
use saito_core::core::util::configuration::{
    BlockchainConfig, Configuration, ConsensusConfig, PeerConfig, Server,
};
use saito_core::core::util::crypto::generate_keys;
use std::collections::BTreeMap;
use std::fmt::{Debug, Formatter};
use std::io::Error;
use std::sync::{Arc, Mutex};
use tokio::sync::RwLock;

// ------------------------------------------------------------------------------------------ stand-ins
type FetchLog = Arc<Mutex<Vec<(PeerIndex, BlockId, SaitoHash)>>>;

struct Io {
    fetches: FetchLog,
}
impl Debug for Io {
    fn fmt(&self, f: &mut Formatter<'_>) -> std::fmt::Result {
        f.write_str("Io")
    }
}
#[async_trait]
impl InterfaceIO for Io {
    async fn send_message(&self, _p: u64, _b: &[u8]) -> Result<(), Error> {
        Ok(())
    }
    async fn send_message_to_all(&self, _b: &[u8], _e: Vec<u64>) -> Result<(), Error> {
        Ok(())
    }
    async fn connect_to_peer(&mut self, _u: String, _p: PeerIndex) -> Result<(), Error> {
        Ok(())
    }
    async fn disconnect_from_peer(&self, _p: u64) -> Result<(), Error> {
        Ok(())
    }
    async fn fetch_block_from_peer(
        &self,
        block_hash: SaitoHash,
        peer_index: u64,
        _url: &str,
        block_id: BlockId,
    ) -> Result<(), Error> {
        self.fetches.lock().unwrap().push((peer_index, block_id, block_hash));
        Ok(())
    }
    async fn write_value(&self, _k: &str, _v: &[u8]) -> Result<(), Error> {
        Ok(())
    }
    async fn append_value(&mut self, _k: &str, _v: &[u8]) -> Result<(), Error> {
        Ok(())
    }
    async fn flush_data(&mut self, _k: &str) -> Result<(), Error> {
        Ok(())
    }
    async fn read_value(&self, _k: &str) -> Result<Vec<u8>, Error> {
        Ok(vec![])
    }
    async fn load_block_file_list(&self) -> Result<Vec<String>, Error> {
        Ok(vec![])
    }
    async fn is_existing_file(&self, _k: &str) -> bool {
        false
    }
    async fn remove_value(&self, _k: &str) -> Result<(), Error> {
        Ok(())
    }
    fn get_block_dir(&self) -> String {
        "/nonexistent/".to_string()
    }
    fn get_checkpoint_dir(&self) -> String {
        "/nonexistent/".to_string()
    }
    fn ensure_block_directory_exists(&self, _d: &str) -> Result<(), Error> {
        Ok(())
    }
    async fn process_api_call(&self, _b: Vec<u8>, _m: u32, _p: PeerIndex) {}
    async fn process_api_success(&self, _b: Vec<u8>, _m: u32, _p: PeerIndex) {}
    async fn process_api_error(&self, _b: Vec<u8>, _m: u32, _p: PeerIndex) {}
    fn send_interface_event(&self, _e: InterfaceEvent) {}
    async fn save_wallet(&self, _w: &mut Wallet) -> Result<(), Error> {
        Ok(())
    }
    async fn load_wallet(&self, _w: &mut Wallet) -> Result<(), Error> {
        Ok(())
    }
    fn get_my_services(&self) -> Vec<PeerService> {
        vec![]
    }
}

struct Conf {
    peers: Vec<PeerConfig>,
    blockchain: BlockchainConfig,
    consensus: ConsensusConfig,
}
impl Debug for Conf {
    fn fmt(&self, f: &mut Formatter<'_>) -> std::fmt::Result {
        f.write_str("Conf")
    }
}
impl Configuration for Conf {
    fn get_server_configs(&self) -> Option<&Server> {
        None
    }
    fn get_peer_configs(&self) -> &Vec<PeerConfig> {
        &self.peers
    }
    fn get_blockchain_configs(&self) -> &BlockchainConfig {
        &self.blockchain
    }
    fn get_block_fetch_url(&self) -> String {
        String::new()
    }
    fn is_spv_mode(&self) -> bool {
        false
    }
    fn is_browser(&self) -> bool {
        false
    }
    fn replace(&mut self, _c: &dyn Configuration) {}
    fn get_consensus_config(&self) -> Option<&ConsensusConfig> {
        Some(&self.consensus)
    }
}

struct Clock;
impl KeepTime for Clock {
    fn get_timestamp_in_ms(&self) -> Timestamp {
        1_700_000_000_000
    }
}

// ------------------------------------------------------------------------------------------ ops
pub const NOHASH: u64 = 255; // a hash no announcement uses: `upd 255` is a pure build;select round

#[derive(Clone, Copy, Debug, PartialEq)]
pub enum Op {
    Add(u64, u64, u64), // peer id hash
    Have(u64),
    Unhave(u64),
    Upd(u64),
    Select,
    Fetched(u64),
    Failed(u64, u64, u64), // id hash peer
    Remove(u64),
}
impl Op {
    fn text(&self) -> String {
        match *self {
            Op::Add(p, i, h) => format!("add {} {} {}", p, i, h),
            Op::Have(h) => format!("have {}", h),
            Op::Unhave(h) => format!("unhave {}", h),
            Op::Upd(h) => format!("upd {}", h),
            Op::Select => "select".to_string(),
            Op::Fetched(h) => format!("fetched {}", h),
            Op::Failed(i, h, p) => format!("failed {} {} {}", i, h, p),
            Op::Remove(h) => format!("remove {}", h),
        }
    }
    fn parse(s: &str) -> Option<Op> {
        let t: Vec<&str> = s.split_whitespace().collect();
        let n = |i: usize| t.get(i).and_then(|x| x.parse::<u64>().ok());
        Some(match *t.first()? {
            "add" => Op::Add(n(1)?, n(2)?, n(3)?),
            "have" => Op::Have(n(1)?),
            "unhave" => Op::Unhave(n(1)?),
            "upd" => Op::Upd(n(1)?),
            "select" => Op::Select,
            "fetched" => Op::Fetched(n(1)?),
            "failed" => Op::Failed(n(1)?, n(2)?, n(3)?),
            "remove" => Op::Remove(n(1)?),
            _ => return None,
        })
    }
    fn kind(&self) -> &'static str {
        match self {
            Op::Add(0, _, _) => "add-peer0",
            Op::Add(..) => "add",
            Op::Have(_) => "have",
            Op::Unhave(_) => "unhave",
            Op::Upd(_) => "upd",
            Op::Select => "select",
            Op::Fetched(_) => "fetched",
            Op::Failed(..) => "failed",
            Op::Remove(_) => "remove",
        }
    }
}

fn h32(n: u64) -> SaitoHash {
    [n as u8; 32]
}

type Sel = BTreeMap<u64, Vec<(u64, u64)>>; // peer ↦ [(id, hash)] in request order

// ------------------------------------------------------------------------------------------ the real node
pub struct Node {
    rt: RoutingThread,
    rtm: tokio::runtime::Runtime,
    fetches: FetchLog,
    url_peers: Vec<u64>,
}

impl Node {
    /// peers 1 and 2 have a block fetch url, peer 3 is connected without one
    pub fn new() -> Node {
        let rtm = tokio::runtime::Builder::new_current_thread().enable_all().build().unwrap();
        let (public_key, private_key) = generate_keys();
        let wallet = Arc::new(RwLock::new(Wallet::new(private_key, public_key)));
        let conf: Arc<RwLock<dyn Configuration + Send + Sync>> = Arc::new(RwLock::new(Conf {
            peers: vec![],
            blockchain: BlockchainConfig::default(),
            consensus: ConsensusConfig::default(),
        }));
        let mut pc = PeerCollection::default();
        for i in 1..=3u64 {
            let mut p = Peer::new(i);
            if i <= 2 {
                p.block_fetch_url = format!("http://peer{}", i);
            }
            pc.index_to_peers.insert(i, p);
        }
        let peers = Arc::new(RwLock::new(pc));
        let blockchain = Arc::new(RwLock::new(Blockchain::new(wallet.clone(), 100, 0, 60)));
        let mempool = Arc::new(RwLock::new(Mempool::new(wallet.clone())));
        let timer = Timer { time_reader: Arc::new(Clock), hasten_multiplier: 1, start_time: 0 };
        let fetches: FetchLog = Default::default();
        let (s_cons, _r1) = tokio::sync::mpsc::channel(1000);
        let (s_miner, _r2) = tokio::sync::mpsc::channel(1000);
        let (s_stat, _r3) = tokio::sync::mpsc::channel(1000);
        let (s_ver, _r4) = tokio::sync::mpsc::channel(1000);
        let rt = RoutingThread {
            blockchain_lock: blockchain,
            mempool_lock: mempool,
            sender_to_consensus: s_cons,
            sender_to_miner: s_miner,
            config_lock: conf.clone(),
            timer: timer.clone(),
            wallet_lock: wallet.clone(),
            network: Network::new(
                Box::new(Io { fetches: fetches.clone() }),
                peers,
                wallet.clone(),
                conf.clone(),
                timer.clone(),
            ),
            storage: Storage::new(Box::new(Io { fetches: Default::default() })),
            reconnection_timer: 0,
            peer_removal_timer: 0,
            peer_file_write_timer: 0,
            last_emitted_block_fetch_count: 0,
            stats: RoutingStats::new(s_stat.clone()),
            senders_to_verification: vec![s_ver],
            last_verification_thread_index: 0,
            stat_sender: s_stat,
            blockchain_sync_state: BlockchainSyncState::new(1),
        };
        Node { rt, rtm, fetches, url_peers: vec![1, 2] }
    }

    pub fn reset(&mut self, batch: u64) {
        self.rt.blockchain_sync_state = BlockchainSyncState::new(batch as usize);
        let bc = self.rt.blockchain_lock.clone();
        self.rtm.block_on(async { bc.write().await.blocks.clear() });
        self.fetches.lock().unwrap().clear();
    }

    /// runs one op on the real code; Ok(Some(sel)) for ops that request blocks
    fn apply(&mut self, op: Op) -> Result<Option<Sel>, String> {
        let rt = &mut self.rt;
        let rtm = &self.rtm;
        let fetches = self.fetches.clone();
        guarded(move || match op {
            Op::Add(p, i, h) => {
                let pl = rt.network.peer_lock.clone();
                rtm.block_on(rt.blockchain_sync_state.add_entry(h32(h), i, p, pl));
                None
            }
            Op::Have(h) => {
                let bc = rt.blockchain_lock.clone();
                rtm.block_on(async {
                    let mut b = Block::new();
                    b.hash = h32(h);
                    bc.write().await.blocks.insert(h32(h), b);
                });
                None
            }
            Op::Unhave(h) => {
                let bc = rt.blockchain_lock.clone();
                rtm.block_on(async {
                    bc.write().await.blocks.remove(&h32(h));
                });
                None
            }
            Op::Upd(h) => {
                fetches.lock().unwrap().clear();
                rtm.block_on(rt.process_event(RoutingEvent::BlockchainUpdated(h32(h))));
                let mut sel: Sel = BTreeMap::new();
                for (p, i, hh) in fetches.lock().unwrap().drain(..) {
                    sel.entry(p).or_default().push((i, hh[0] as u64));
                }
                Some(sel)
            }
            Op::Select => {
                let m = rt.blockchain_sync_state.get_blocks_to_fetch_per_peer();
                let mut sel: Sel = BTreeMap::new();
                for (p, v) in m {
                    sel.insert(p, v.iter().map(|(hh, i)| (*i, hh[0] as u64)).collect());
                }
                Some(sel)
            }
            Op::Fetched(h) => {
                rt.blockchain_sync_state.mark_as_fetched(h32(h));
                None
            }
            Op::Failed(i, h, p) => {
                rt.blockchain_sync_state.mark_as_failed(i, h32(h), p);
                None
            }
            Op::Remove(h) => {
                rt.blockchain_sync_state.remove_entry(h32(h));
                None
            }
        })
    }

    /// (total entries, peer ↦ (front id, back id, fetching count, unbuilt announcements)) from the public getters
    fn observe(&self) -> (u64, BTreeMap<u64, (u64, u64, u64, u64)>) {
        let n = self.rt.blockchain_sync_state.get_fetching_block_count();
        let mut m = BTreeMap::new();
        for s in self.rt.blockchain_sync_state.get_stats() {
            let t: Vec<&str> = s.split_whitespace().collect();
            let after = |label: &str| -> u64 {
                let i = t.iter().position(|x| x.trim_end_matches(':') == label).unwrap();
                let mut j = i + 1;
                if t[j] == ":" {
                    j += 1;
                }
                t[j].parse::<u64>().unwrap()
            };
            m.insert(
                after("peer"),
                (after("lowest_id"), after("ordered_till"), after("fetching_count"), after("unordered_block_ids")),
            );
        }
        (n, m)
    }
}

fn dump(obs: &(u64, BTreeMap<u64, (u64, u64, u64, u64)>), sel: &Option<Sel>) -> String {
    let mut s = format!("n={}", obs.0);
    for (p, (lo, hi, f, r)) in obs.1.iter() {
        s.push_str(&format!(" p{}:{},{},{},{}", p, lo, hi, f, r));
    }
    if let Some(sel) = sel {
        if sel.is_empty() {
            s.push_str(" sel=-");
        } else {
            s.push_str(" sel=");
            for (p, v) in sel {
                let items: Vec<String> = v.iter().map(|(i, h)| format!("{}:{}", i, h)).collect();
                s.push_str(&format!("p{}[{}]", p, items.join(",")));
            }
        }
    }
    s
}

// ------------------------------------------------------------------------------------------ direct monitor
/// The property's own predicates evaluated on what the implementation does (no model involved):
/// requests issued and not yet answered per peer, from the observed selections and the events fed in.
#[derive(Default)]
struct Monitor {
    inflight: BTreeMap<u64, Vec<(u64, u64)>>,
    /// requests whose queue entry may have been dropped by an unobservable `remove_entry` of the routing glue
    maybe: BTreeMap<u64, Vec<(u64, u64)>>,
    /// (peer, hash) ↦ ids announced in this sequence
    announced: BTreeMap<(u64, u64), Vec<u64>>,
    /// blocks the node has (the harness' own `have`/`unhave` ops)
    have: Vec<u64>,
    /// hashes announced by a peer the network layer cannot fetch from (no url / unknown)
    unfetchable: Vec<u64>,
}
impl Monitor {
    fn two_ids(&self) -> bool {
        self.announced.values().any(|v| v.len() > 1)
    }
}

struct Runner<'a> {
    node: &'a mut Node,
    out: &'a mut Out,
    total_fails: BTreeMap<String, u64>,
}

impl<'a> Runner<'a> {
    /// at most 8 replays per key are recorded in full, the rest only counted
    fn fail(&mut self, key: &str, what: &str, replay: serde_json::Value) {
        let c = self.total_fails.entry(key.to_string()).or_insert(0);
        *c += 1;
        if *c <= 8 {
            self.out.monitor_fail(key, what, replay);
        } else {
            self.out.count(&format!("monitor_fail:{}", key));
        }
    }
    fn head(&self, kind: &str, batch: u64) -> String {
        let u: Vec<String> = self.node.url_peers.iter().map(|p| p.to_string()).collect();
        format!("{} {} {}", kind, batch, if u.is_empty() { "-".to_string() } else { u.join(",") })
    }

    /// One op on the real code + monitor. Returns the dump, or None after a panic.
    fn do_op(&mut self, batch: u64, op: Op, mon: &mut Monitor, trace: &[Op]) -> Option<String> {
        let replay = |trace: &[Op]| {
            serde_json::json!({"suite": "sync", "batch": batch,
                "ops": trace.iter().map(|o| o.text()).collect::<Vec<_>>().join(";")})
        };
        let r = self.node.apply(op);
        let sel = match r {
            Err(msg) => {
                let key = if msg.contains("subtract with overflow") {
                    "C16/get_blocks_to_fetch_per_peer/quota-underflow-panic"
                } else if msg.contains("peer index 0") {
                    "C16/get_blocks_to_fetch_per_peer/peer-0-assert"
                } else {
                    "C16/panic/other"
                };
                self.fail(key, &format!("panic: {}", msg), replay(trace));
                return None;
            }
            Ok(s) => s,
        };
        // --- monitor bookkeeping (events)
        match op {
            Op::Have(h) => {
                if !mon.have.contains(&h) {
                    mon.have.push(h);
                }
            }
            Op::Unhave(h) => mon.have.retain(|x| *x != h),
            Op::Add(p, i, h) => {
                let ps: Vec<u64> = if p == 0 { self.node.url_peers.clone() } else { vec![p] };
                if p != 0 && !self.node.url_peers.contains(&p) && !mon.unfetchable.contains(&h) {
                    mon.unfetchable.push(h);
                }
                for p in ps {
                    let v = mon.announced.entry((p, h)).or_default();
                    if !v.contains(&i) {
                        v.push(i);
                    }
                }
            }
            Op::Fetched(h) | Op::Remove(h) | Op::Upd(h) => {
                for v in mon.inflight.values_mut().chain(mon.maybe.values_mut()) {
                    v.retain(|(_, hh)| *hh != h);
                }
            }
            Op::Failed(i, h, p) => {
                if let Some(v) = mon.inflight.get_mut(&p) {
                    v.retain(|x| *x != (i, h));
                }
                if let Some(v) = mon.maybe.get_mut(&p) {
                    v.retain(|x| *x != (i, h));
                }
            }
            _ => {}
        }
        if let Some(sel) = &sel {
            for (p, v) in sel {
                // requested in non-decreasing (height, hash) order
                if v.windows(2).any(|w| w[0] > w[1]) {
                    self.fail(
                        "C16/get_blocks_to_fetch_per_peer/selection-not-sorted",
                        &format!("peer {} requested {:?}", p, v),
                        replay(trace),
                    );
                }
                if v.is_empty() {
                    self.fail("C16/get_blocks_to_fetch_per_peer/empty-selection-listed", "", replay(trace));
                }
                if let Some(m) = mon.maybe.get_mut(p) {
                    m.retain(|x| !v.contains(x)); // it was dropped indeed and is requested afresh
                }
                let fl = mon.inflight.entry(*p).or_default();
                for x in v {
                    if fl.contains(x) {
                        self.fail(
                            "C16/get_blocks_to_fetch_per_peer/same-entry-in-flight-twice",
                            &format!("peer {} block {:?} requested while in flight", p, x),
                            replay(trace),
                        );
                    } else if fl.iter().any(|(_, h)| *h == x.1) {
                        self.fail(
                            "C16/build_peer_block_picture/same-hash-two-ids",
                            &format!("peer {}: hash {} requested as id {} while in flight under another id", p, x.1, x.0),
                            replay(trace),
                        );
                    }
                    fl.push(*x);
                }
            }
        }
        if let Op::Upd(_) = op {
            // `fetch_next_blocks` calls `remove_entry(hash)` for every selected block the network layer declines
            // (the node has it / the peer has no url). Those calls are not observable; a request whose hash may
            // have been declined in this round is no longer counted as certainly in flight.
            let (have, unf) = (mon.have.clone(), mon.unfetchable.clone());
            for (p, v) in mon.inflight.iter_mut() {
                let (keep, mv): (Vec<_>, Vec<_>) =
                    v.iter().cloned().partition(|(_, hh)| !have.contains(hh) && !unf.contains(hh));
                *v = keep;
                let m = mon.maybe.entry(*p).or_default();
                for x in mv {
                    if !m.contains(&x) {
                        m.push(x);
                    }
                }
            }
        }
        let obs = self.node.observe();
        for (p, v) in mon.inflight.iter() {
            if v.len() as u64 > batch {
                self.fail(
                    "C16/get_blocks_to_fetch_per_peer/in-flight-exceeds-batch",
                    &format!("peer {} has {} requests in flight, batch {}", p, v.len(), batch),
                    replay(trace),
                );
            }
        }
        for (p, (_, _, f, _)) in obs.1.iter() {
            if *f > batch {
                self.fail(
                    "C16/get_blocks_to_fetch_per_peer/fetching-count-exceeds-batch",
                    &format!("peer {} fetching_count {} batch {}", p, f, batch),
                    replay(trace),
                );
            }
            if *p == 0 {
                self.fail("C16/add_entry/peer-0-in-queue", "", replay(trace));
            }
        }
        Some(dump(&obs, &sel))
    }

    /// Runs a whole sequence from the initial state. `all` = compare the dump after every op (`seq`),
    /// otherwise only the last (`fin`). `drain` appends the fair schedule (complete everything in flight,
    /// then a build;select round) and checks that every queue empties.
    fn run_seq(&mut self, batch: u64, ops: &[Op], all: bool, drain: bool) {
        self.node.reset(batch);
        let mut mon = Monitor::default();
        let mut trace: Vec<Op> = vec![];
        let mut dumps: Vec<String> = vec![];
        let mut panicked = false;
        for op in ops {
            trace.push(*op);
            self.out.count(&format!("op:{}", op.kind()));
            match self.do_op(batch, *op, &mut mon, &trace) {
                Some(d) => dumps.push(d),
                None => {
                    dumps.push("panic".to_string());
                    panicked = true;
                    break;
                }
            }
        }
        if drain && !panicked && batch > 0 {
            let adds = ops.iter().filter(|o| matches!(o, Op::Add(..))).count() as u64;
            let max_rounds = 2 * (adds * 2 + 2) + 2;
            let mut rounds = 0;
            let mut empty = false;
            'outer: while rounds < max_rounds {
                rounds += 1;
                let fl: Vec<(u64, u64, u64)> = mon
                    .inflight
                    .iter()
                    .chain(mon.maybe.iter())
                    .flat_map(|(p, v)| v.iter().map(move |(i, h)| (*p, *i, *h)))
                    .collect();
                let mut todo: Vec<Op> = fl.iter().map(|(_, _, h)| Op::Fetched(*h)).collect();
                todo.push(Op::Upd(NOHASH));
                for op in todo {
                    trace.push(op);
                    match self.do_op(batch, op, &mut mon, &trace) {
                        Some(d) => dumps.push(d),
                        None => {
                            dumps.push("panic".to_string());
                            panicked = true;
                            break 'outer;
                        }
                    }
                }
                let obs = self.node.observe();
                if obs.0 == 0 {
                    empty = true;
                    break;
                }
            }
            self.out.count(&format!("drain-rounds:{}", rounds.min(9)));
            if !empty && !panicked {
                let key = if mon.two_ids() {
                    "C16/mark_as_fetched/same-hash-two-ids-stale-fetching"
                } else {
                    "C16/drain/queue-not-drained"
                };
                self.fail(
                    key,
                    &format!("after {} fair rounds (complete everything in flight; build; select) the queues are not empty: {}",
                        rounds, dumps.last().cloned().unwrap_or_default()),
                    serde_json::json!({"suite": "sync", "batch": batch,
                        "ops": trace.iter().map(|o| o.text()).collect::<Vec<_>>().join(";")}),
                );
            }
        }
        let mut line = self.head(if all { "seq" } else { "fin" }, batch);
        for op in &trace {
            line.push(';');
            line.push_str(&op.text());
        }
        let ans = if all { dumps.join(";") } else { dumps.last().cloned().unwrap_or_else(|| "-".to_string()) };
        self.out.case(&line, &ans);
    }
}

// ------------------------------------------------------------------------------------------ generators
fn alphabet() -> Vec<Op> {
    let mut a = vec![];
    for p in 1..=2 {
        for h in 1..=3 {
            for i in 1..=2 {
                a.push(Op::Add(p, i, h));
            }
        }
    }
    for p in 1..=2 {
        for h in 1..=3 {
            for i in 1..=2 {
                a.push(Op::Failed(i, h, p));
            }
        }
    }
    for h in 1..=3 {
        a.push(Op::Fetched(h));
        a.push(Op::Remove(h));
    }
    a.push(Op::Upd(NOHASH));
    a.push(Op::Select);
    a.push(Op::Have(1));
    a
}

fn exhaustive(r: &mut Runner, batch: u64, depth: usize) -> u64 {
    let a = alphabet();
    // first op: an announcement from peer 1, or `have 1` (every other first op is a no-op on the empty state or
    // the mirror image under swapping the two peers)
    let firsts: Vec<Op> = a.iter().cloned().filter(|o| matches!(o, Op::Add(1, _, _) | Op::Have(_))).collect();
    let mut count = 0;
    let mut seq: Vec<Op> = vec![];
    fn rec(r: &mut Runner, batch: u64, a: &[Op], seq: &mut Vec<Op>, depth: usize, count: &mut u64) {
        r.run_seq(batch, seq, false, false);
        *count += 1;
        if seq.len() == depth {
            return;
        }
        for op in a {
            seq.push(*op);
            rec(r, batch, a, seq, depth, count);
            seq.pop();
        }
    }
    for f in firsts {
        seq.push(f);
        rec(r, batch, &a, &mut seq, depth, &mut count);
        seq.pop();
    }
    count
}

fn random_seq(rng: &mut Rng, len: usize, wide: bool) -> Vec<Op> {
    let (np, nh, ni) = if wide { (3, 6, 4) } else { (2, 3, 2) };
    let mut v = vec![];
    for _ in 0..len {
        let h = rng.range(1, nh);
        let i = if rng.coin(3, 4) { (h + 1) / 2 + rng.below(2) } else { rng.range(1, ni) };
        let p = rng.range(1, np);
        v.push(match rng.below(20) {
            0..=5 => Op::Add(p, i, h),
            6 => Op::Add(if wide { 0 } else { p }, i, h),
            7..=9 => Op::Upd(NOHASH),
            10 => Op::Upd(h),
            11..=12 => Op::Select,
            13..=14 => Op::Fetched(h),
            15..=16 => Op::Failed(i, h, rng.range(1, 2)),
            17 => Op::Remove(h),
            18 => Op::Have(h),
            _ => Op::Unhave(h),
        });
    }
    v
}

/// one entry failing over and over: exercises MAX_RETRIES_PER_BLOCK (500) and the give-up branch
fn retry_exhaustion(n: usize) -> Vec<Op> {
    let mut v = vec![Op::Add(1, 1, 1), Op::Add(1, 2, 2), Op::Upd(NOHASH)];
    for _ in 0..n {
        v.push(Op::Failed(1, 1, 1));
        v.push(Op::Upd(NOHASH));
        v.push(Op::Upd(NOHASH));
    }
    v.push(Op::Fetched(2));
    v.push(Op::Upd(NOHASH));
    v
}

fn corpus(r: &mut Runner) -> u64 {
    let dir = format!("{}/corpus/C16", verif_root());
    let mut n = 0;
    let mut files: Vec<_> = std::fs::read_dir(&dir).map(|d| d.flatten().map(|e| e.path()).collect()).unwrap_or_default();
    files.sort();
    for f in files {
        if f.extension().map(|e| e == "ops").unwrap_or(false) {
            for line in std::fs::read_to_string(&f).unwrap_or_default().lines() {
                let line = line.trim();
                if line.is_empty() || line.starts_with('#') {
                    continue;
                }
                let mut parts = line.split(';');
                let head: Vec<&str> = parts.next().unwrap().split_whitespace().collect();
                if head.len() < 2 {
                    continue;
                }
                let batch: u64 = head[1].parse().unwrap_or(1);
                let ops: Vec<Op> = parts.filter_map(Op::parse).collect();
                r.run_seq(batch, &ops, true, head[0] == "drain");
                n += 1;
            }
        }
    }
    n
}

/// measures the defect flag of the tree under test by replaying the witness on the real code
fn measure_dedup_by_hash(node: &mut Node) -> bool {
    node.reset(2);
    let _ = node.apply(Op::Add(1, 1, 1));
    let _ = node.apply(Op::Add(1, 2, 1));
    match node.apply(Op::Upd(NOHASH)) {
        Ok(Some(sel)) => sel.get(&1).map(|v| v.len()).unwrap_or(0) <= 1,
        _ => false,
    }
}

pub fn run(seed: u64, tier: &str, outdir: &str) {
    let mut out = Out::new(outdir);
    let mut node = Node::new();
    let thorough = tier == "thorough";
    let dedup = measure_dedup_by_hash(&mut node);
    out.setup(&format!("flags dedupByHash={}", dedup as u8));
    let mut rng = Rng::new(seed);
    let mut extra = serde_json::Map::new();
    let mut r = Runner { node: &mut node, out: &mut out, total_fails: BTreeMap::new() };

    let nc = corpus(&mut r);
    extra.insert("corpus_sequences".into(), nc.into());

    // targeted: retry exhaustion (needs > 500 failures of one entry)
    for batch in [1u64, 2] {
        r.run_seq(batch, &retry_exhaustion(503), true, false);
    }

    // exhaustive
    let depth = if thorough { 5 } else { 4 };
    let mut total = 0;
    for batch in [1u64, 2, 3] {
        let d = if thorough && batch == 3 { 4 } else { depth };
        total += exhaustive(&mut r, batch, d);
    }
    extra.insert("exhaustive_depth".into(), depth.into());
    extra.insert("exhaustive_sequences".into(), total.into());

    // random
    let nrand = if thorough { 200_000 } else { 50_000 };
    for k in 0..nrand {
        let batch = match rng.below(12) {
            0 => 0,
            1..=4 => 1,
            5..=8 => 2,
            9..=10 => 3,
            _ => 5,
        };
        let len = rng.range(1, 40) as usize;
        let ops = random_seq(&mut rng, len, k % 2 == 1);
        r.run_seq(batch, &ops, true, true);
    }
    extra.insert("random_sequences".into(), nrand.into());
    out.finish(serde_json::Value::Object(extra));
}
