//! C18 correspondence suite: lite blocks and the transaction commitment.
//!
//! For every transaction count n and every keep pattern (which transactions touch the key list) a REAL block is
//! built (real keys, real signatures, all transaction hashes distinct), `Block::generate_lite_block(keylist)` is
//! called and the result is compared with the Lean model (`driver merkle`):
//!   (a) structure of the lite transaction list (kept / placeholder, txs_replacements, placeholder hash and
//!       signature prefix),
//!   (b) the model's root TERM evaluated with the real blake3 against the root the real code computes for the lite
//!       block and for the full block,
//!   (c) the same after serialize_for_net → deserialize_from_net → generate.
//! The model's answers are obtained in a first pass (the driver is run once over all request lines); the
//! implementation line repeats a model term only if its blake3 evaluation equals the real digest, otherwise it
//! prints MISMATCH, so ./check's diff of the two streams finds every difference.
//!
//! Direct monitor (independent of the model): header fields / hash / signature equal, every relevant
//! transaction carried unchanged, recomputed merkle root of the lite block == the full block's, before and after
//! the wire.
use crate::common::{guarded, verif_root, Out, Rng};
use saito_core::core::consensus::block::{Block, BlockType};
use saito_core::core::consensus::merkle::MerkleTree;
use saito_core::core::consensus::slip::Slip;
use saito_core::core::consensus::transaction::{Transaction, TransactionType};
use saito_core::core::defs::{SaitoHash, SaitoPrivateKey, SaitoPublicKey};
use saito_core::core::util::crypto::{generate_keypair_from_private_key, hash};
use std::io::Write;
use std::process::{Command, Stdio};

const NKEYS: usize = 8;

/// one transaction of a case: golden ticket?, key numbers of the from slips, key numbers of the to slips
#[derive(Clone, Debug)]
pub struct TxD {
    gt: bool,
    from: Vec<u32>,
    to: Vec<u32>,
}
#[derive(Clone, Debug)]
pub struct Case {
    keys: Vec<u32>,
    txs: Vec<TxD>,
    origin: &'static str,
}

fn nums(v: &[u32]) -> String {
    if v.is_empty() {
        "-".to_string()
    } else {
        v.iter().map(|k| k.to_string()).collect::<Vec<_>>().join(",")
    }
}
fn parse_nums(s: &str) -> Option<Vec<u32>> {
    if s == "-" || s.is_empty() {
        return Some(vec![]);
    }
    s.split(',').map(|x| x.parse::<u32>().ok()).collect()
}

impl Case {
    pub fn op(&self) -> String {
        let t = if self.txs.is_empty() {
            "-".to_string()
        } else {
            self.txs
                .iter()
                .map(|t| format!("{}{}>{}", if t.gt { "g" } else { "" }, nums(&t.from), nums(&t.to)))
                .collect::<Vec<_>>()
                .join("|")
        };
        format!("lite K={} T={}", nums(&self.keys), t)
    }
    pub fn parse(line: &str, origin: &'static str) -> Option<Case> {
        let p: Vec<&str> = line.trim().split(' ').collect();
        if p.len() != 3 || p[0] != "lite" || !p[1].starts_with("K=") || !p[2].starts_with("T=") {
            return None;
        }
        let keys = parse_nums(&p[1][2..])?;
        let mut txs = vec![];
        if &p[2][2..] != "-" {
            for t in p[2][2..].split('|') {
                let (gt, body) = if let Some(b) = t.strip_prefix('g') { (true, b) } else { (false, t) };
                let ft: Vec<&str> = body.split('>').collect();
                if ft.len() != 2 {
                    return None;
                }
                txs.push(TxD { gt, from: parse_nums(ft[0])?, to: parse_nums(ft[1])? });
            }
        }
        if keys.iter().chain(txs.iter().flat_map(|t| t.from.iter().chain(t.to.iter()))).any(|k| *k == 0 || *k as usize > NKEYS) {
            return None;
        }
        Some(Case { keys, txs, origin })
    }
    /// the harness's own ground truth of "touches the key list" (not the code's, not the model's)
    fn keep(&self, i: usize) -> bool {
        let t = &self.txs[i];
        t.gt || t.from.iter().any(|k| self.keys.contains(k)) || t.to.iter().any(|k| self.keys.contains(k))
    }
    fn mask(&self) -> String {
        (0..self.txs.len()).map(|i| if self.keep(i) { '1' } else { '0' }).collect()
    }
}

/// a random realisation of keep pattern `mask` (bit i set = transaction i touches the key list)
fn realise(r: &mut Rng, n: usize, mask: u32, origin: &'static str) -> Case {
    // keys 1..4 may be listed, keys 5..8 are never listed
    let empty_list = r.coin(1, 8);
    let mut keys: Vec<u32> = vec![];
    if !empty_list {
        let k = r.range(1, 3);
        while (keys.len() as u64) < k {
            let c = r.range(1, 4) as u32;
            if !keys.contains(&c) {
                keys.push(c);
            }
        }
    }
    let unl = |r: &mut Rng, lo: u64, hi: u64| -> Vec<u32> { (0..r.range(lo, hi)).map(|_| r.range(5, 8) as u32).collect() };
    let mut txs = vec![];
    for i in 0..n {
        if mask >> i & 1 == 1 {
            let mode = if keys.is_empty() { 3 } else { r.below(4) };
            let listed = |r: &mut Rng| *r.pick(&keys);
            let mut from = unl(r, 0, 2);
            let mut to = unl(r, 0, 2);
            let mut gt = false;
            match mode {
                0 => {
                    let k = listed(r);
                    let p = r.below(to.len() as u64 + 1) as usize;
                    to.insert(p, k)
                }
                1 => {
                    let k = listed(r);
                    let p = r.below(from.len() as u64 + 1) as usize;
                    from.insert(p, k)
                }
                2 => {
                    let k = listed(r);
                    from.push(k);
                    let k = listed(r);
                    to.insert(0, k)
                }
                _ => gt = true,
            }
            txs.push(TxD { gt, from, to });
        } else {
            txs.push(TxD { gt: false, from: unl(r, 0, 2), to: unl(r, 0, 2) });
        }
    }
    Case { keys, txs, origin }
}

struct Keys {
    pk: Vec<SaitoPublicKey>,
    sk: Vec<SaitoPrivateKey>,
}
fn make_keys(r: &mut Rng) -> Keys {
    let mut pk = vec![];
    let mut sk = vec![];
    for _ in 0..=NKEYS {
        let mut b = r.bytes(32);
        b[0] = 1; // well below the group order, never zero
        let (p, s) = generate_keypair_from_private_key(&b);
        pk.push(p);
        sk.push(s);
    }
    Keys { pk, sk }
}

/// the real full block of a case; `salt` makes every transaction (hence every hash) of the run distinct
fn build_block(c: &Case, ks: &Keys, r: &mut Rng, salt: u64) -> Block {
    let mut b = Block::new();
    b.id = r.range(2, 1_000_000);
    b.timestamp = 1_700_000_000_000 + r.below(1 << 30);
    b.previous_block_hash = r.bytes(32).try_into().unwrap();
    b.creator = ks.pk[0];
    b.graveyard = r.below(1 << 40);
    b.treasury = r.below(1 << 40);
    b.burnfee = r.below(1 << 40);
    b.difficulty = r.below(1 << 20);
    b.avg_total_fees = r.below(1 << 40);
    b.avg_fee_per_byte = r.below(1 << 20);
    b.avg_nolan_rebroadcast_per_block = r.below(1 << 40);
    b.previous_block_unpaid = r.below(1 << 40);
    b.avg_total_fees_new = r.below(1 << 40);
    b.avg_total_fees_atr = r.below(1 << 40);
    b.avg_payout_routing = r.below(1 << 40);
    b.avg_payout_mining = r.below(1 << 40);
    b.avg_payout_treasury = r.below(1 << 40);
    b.avg_payout_graveyard = r.below(1 << 40);
    b.avg_payout_atr = r.below(1 << 40);
    b.total_payout_routing = r.below(1 << 40);
    b.total_payout_mining = r.below(1 << 40);
    b.total_payout_treasury = r.below(1 << 40);
    b.total_payout_graveyard = r.below(1 << 40);
    b.total_payout_atr = r.below(1 << 40);
    b.total_fees = r.below(1 << 40);
    b.total_fees_new = r.below(1 << 40);
    b.total_fees_atr = r.below(1 << 40);
    b.fee_per_byte = r.below(1 << 20);
    b.total_fees_cumulative = r.below(1 << 40);
    for (i, t) in c.txs.iter().enumerate() {
        let mut tx = Transaction::default();
        tx.timestamp = b.timestamp - 1000 + i as u64;
        tx.transaction_type = if t.gt { TransactionType::GoldenTicket } else { TransactionType::Normal };
        let mut data = salt.to_be_bytes().to_vec();
        data.extend((i as u32).to_be_bytes());
        let dl = r.below(40) as usize;
        data.extend(r.bytes(dl));
        if t.gt {
            // a golden ticket payload is exactly 97 bytes (a tree with the payload check refuses anything else)
            let fill = r.bytes(97);
            data.extend(fill);
            data.truncate(97);
        }
        tx.data = data;
        for (j, k) in t.from.iter().enumerate() {
            let mut s = Slip::default();
            s.public_key = ks.pk[*k as usize];
            s.amount = 1000 + r.below(1000);
            s.block_id = 1;
            s.tx_ordinal = salt * 16 + i as u64;
            s.slip_index = j as u8;
            tx.add_from_slip(s);
        }
        for k in t.to.iter() {
            let mut s = Slip::default();
            s.public_key = ks.pk[*k as usize];
            s.amount = 10 + r.below(900);
            tx.add_to_slip(s);
        }
        let signer = t.from.first().map(|k| *k as usize).unwrap_or(0);
        tx.sign(&ks.sk[signer]);
        b.add_transaction(tx);
        // every fourth block (one that stays in memory, see run_case) is generated once more while it is still growing (a block object that was generated before its
        // last transactions were added): whatever `generate` caches at that point is stale for the final transaction set
        if salt % 4 == 2 && i == 0 {
            let _ = b.generate();
            // the commitment is only computed when it is unset: clear it so that the final generate recomputes it
            b.merkle_root = [0; 32];
        }
    }
    b.generate().expect("block.generate");
    b.sign(&ks.sk[0]);
    b
}

// ---------------------------------------------------------------------------------------- terms
/// evaluate the model's textual term with the real hash: L<i> = hash_for_signature of transaction i of the full
/// block, S<i> = signature[0..32] of transaction i, N(a,b) = hash(a ‖ b)
fn eval_term(s: &str, full: &Block) -> Option<SaitoHash> {
    let b = s.as_bytes();
    let mut pos = 0usize;
    let v = eval_at(b, &mut pos, full)?;
    if pos == b.len() {
        Some(v)
    } else {
        None
    }
}
fn eval_at(b: &[u8], pos: &mut usize, full: &Block) -> Option<SaitoHash> {
    if *pos >= b.len() {
        return None;
    }
    match b[*pos] {
        c @ (b'L' | b'S') => {
            *pos += 1;
            let st = *pos;
            while *pos < b.len() && b[*pos].is_ascii_digit() {
                *pos += 1;
            }
            let i: usize = std::str::from_utf8(&b[st..*pos]).ok()?.parse().ok()?;
            let tx = full.transactions.get(i)?;
            if c == b'L' {
                tx.hash_for_signature
            } else {
                Some(tx.signature[0..32].try_into().unwrap())
            }
        }
        b'N' => {
            *pos += 1;
            if b.get(*pos) != Some(&b'(') {
                return None;
            }
            *pos += 1;
            let l = eval_at(b, pos, full)?;
            if b.get(*pos) != Some(&b',') {
                return None;
            }
            *pos += 1;
            let r = eval_at(b, pos, full)?;
            if b.get(*pos) != Some(&b')') {
                return None;
            }
            *pos += 1;
            Some(hash(&[l, r].concat()))
        }
        _ => None,
    }
}

/// the fields of the model's answer line
struct ModelAns {
    entries: Vec<String>,
    lite: String,
    full: String,
    wire: String,
}
fn parse_model(line: &str) -> Option<ModelAns> {
    let p: Vec<&str> = line.trim().split(' ').collect();
    if p.len() != 4 {
        return None;
    }
    let e = p[0].strip_prefix("entries=[")?.strip_suffix(']')?;
    let mut entries = vec![];
    let (mut depth, mut cur) = (0i32, String::new());
    for ch in e.chars() {
        match ch {
            '(' => depth += 1,
            ')' => depth -= 1,
            _ => {}
        }
        if ch == ',' && depth == 0 {
            entries.push(std::mem::take(&mut cur));
        } else {
            cur.push(ch);
        }
    }
    if !cur.is_empty() {
        entries.push(cur);
    }
    Some(ModelAns {
        entries,
        lite: p[1].strip_prefix("lite=")?.to_string(),
        full: p[2].strip_prefix("full=")?.to_string(),
        wire: p[3].strip_prefix("wire=")?.to_string(),
    })
}

/// print the model's term if it evaluates to `real`, MISMATCH otherwise. `none` = no tree (empty list → zero root)
fn confirm(term: Option<&str>, real: &SaitoHash, empty: bool, full: &Block) -> String {
    match term {
        Some("none") if empty && *real == [0u8; 32] => "none".to_string(),
        Some(t) if eval_term(t, full) == Some(*real) => t.to_string(),
        _ => format!("MISMATCH:{}", &hex::encode(real)[..12]),
    }
}

fn run_driver(lines: &[String], dir: &str) -> Vec<String> {
    let req = format!("{}/model_req.txt", dir);
    std::fs::write(&req, lines.join("\n") + "\n").unwrap();
    let drv = format!("{}/lean/.lake/build/bin/driver", verif_root());
    let o = Command::new(&drv)
        .arg("merkle")
        .stdin(Stdio::from(std::fs::File::open(&req).unwrap()))
        .output()
        .unwrap_or_else(|e| panic!("cannot run the model driver {}: {}", drv, e));
    if !o.status.success() {
        let _ = std::io::stderr().write_all(&o.stderr);
        panic!("model driver failed");
    }
    String::from_utf8_lossy(&o.stdout).lines().map(|s| s.to_string()).collect()
}

fn spv_tx(h: SaitoHash, sig: [u8; 64], repl: u32) -> Transaction {
    let mut t = Transaction::default();
    t.transaction_type = TransactionType::SPV;
    t.txs_replacements = repl;
    t.hash_for_signature = Some(h);
    t.signature = sig;
    t
}

fn wire_trip(lite: &Block) -> Result<Block, String> {
    let buf = lite.serialize_for_net(BlockType::Full);
    guarded(|| {
        let mut b = Block::deserialize_from_net(&buf).map_err(|_| "decode-error".to_string())?;
        b.generate().map_err(|_| "generate-error".to_string())?;
        Ok(b)
    })
    .unwrap_or_else(|p| Err(format!("panic:{}", p)))
}

/// replay the three witnesses on the tree under test: 1 = repaired behaviour
fn measure_flags(ks: &Keys, r: &mut Rng) -> (u8, u8, u8) {
    let all_omitted = |n: usize| Case { keys: vec![1], txs: (0..n).map(|_| TxD { gt: false, from: vec![5], to: vec![6] }).collect(), origin: "flags" };
    // single: a placeholder {repl 2, hash C} alone has root C
    let b2 = build_block(&all_omitted(2), ks, r, 1 << 40);
    let c = hash(&[b2.transactions[0].hash_for_signature.unwrap(), b2.transactions[1].hash_for_signature.unwrap()].concat());
    let single = match guarded(|| MerkleTree::generate(&vec![spv_tx(c, b2.transactions[0].signature, 2)]).map(|t| t.get_root_hash())) {
        Ok(Some(root)) if root == c => 1,
        _ => 0,
    };
    // siblings: four omitted transactions become [2,2] (pinned: [2,1,1])
    let b4 = build_block(&all_omitted(4), ks, r, (1 << 40) + 1);
    let l4 = b4.generate_lite_block(vec![ks.pk[1]]);
    let repl: Vec<u32> = l4.transactions.iter().map(|t| t.txs_replacements).collect();
    let siblings = if repl == vec![2, 2] { 1 } else { 0 };
    // carries: one omitted transaction keeps its leaf hash through the wire
    let b1 = build_block(&all_omitted(1), ks, r, (1 << 40) + 2);
    let l1 = b1.generate_lite_block(vec![ks.pk[1]]);
    let carries = match wire_trip(&l1) {
        Ok(w) if w.transactions.len() == 1 && w.transactions[0].hash_for_signature == b1.transactions[0].hash_for_signature => 1,
        _ => 0,
    };
    (single, siblings, carries)
}

fn header_eq(a: &Block, b: &Block) -> Vec<&'static str> {
    let mut d = vec![];
    macro_rules! f {
        ($($n:ident),*) => { $( if a.$n != b.$n { d.push(stringify!($n)); } )* };
    }
    f!(
        id, timestamp, previous_block_hash, creator, merkle_root, signature, graveyard, treasury, burnfee, difficulty,
        avg_total_fees, avg_fee_per_byte, avg_nolan_rebroadcast_per_block, previous_block_unpaid, avg_total_fees_new,
        avg_total_fees_atr, avg_payout_routing, avg_payout_mining, avg_payout_treasury, avg_payout_graveyard,
        avg_payout_atr, total_payout_routing, total_payout_mining, total_payout_treasury, total_payout_graveyard,
        total_payout_atr, total_fees, total_fees_new, total_fees_atr, fee_per_byte, total_fees_cumulative, hash
    );
    d
}

/// one case on the real code: implementation answer line + direct monitor
fn run_case(c: &Case, m: Option<&ModelAns>, ks: &Keys, r: &mut Rng, salt: u64, out: &mut Out) -> String {
    let n = c.txs.len();
    let mut full = build_block(c, ks, r, salt);
    if salt % 2 == 1 {
        // as the lite-block HTTP route does (saito-rust/src/network_controller.rs:920-930): the full block is read
        // back from its serialized form and generate()d before generate_lite_block
        let buf = full.serialize_for_net(BlockType::Full);
        match Block::deserialize_from_net(&buf).ok().and_then(|mut l| l.generate().ok().map(|_| l)) {
            Some(loaded) => {
                if loaded.hash != full.hash || loaded.merkle_root != full.merkle_root {
                    out.monitor_fail("C18/harness/full-block-changed-on-disk-trip", "hash or merkle root of the full block changed", serde_json::json!({"op": c.op()}));
                }
                full = loaded;
                out.count("full_block=decoded-from-bytes");
            }
            None => {
                // the node that serves lite blocks cannot even read this block back: nothing can be projected from it
                out.monitor_fail(
                    "C18/full-block-not-readable-by-the-serving-node",
                    "the full block of the case does not decode / generate from its own serialized form, so no lite block can be served for it",
                    serde_json::json!({"op": c.op(), "origin": c.origin}),
                );
                out.count("full_block=NOT-DECODABLE");
            }
        }
    } else {
        out.count("full_block=built-in-memory");
    }
    let keylist: Vec<SaitoPublicKey> = c.keys.iter().map(|k| ks.pk[*k as usize]).collect();
    let replay = serde_json::json!({"op": c.op(), "n": n, "keep_mask": c.mask(), "suite": "merkle"});
    let lite = match guarded(|| full.generate_lite_block(keylist.clone())) {
        Ok(l) => l,
        Err(p) => {
            out.monitor_fail("C18/generate_lite_block/panic", &p, replay);
            return "panic".to_string();
        }
    };
    out.count(&format!("n={}", n));
    out.count(&format!("origin={}", c.origin));
    out.count(if c.keys.is_empty() { "keylist=empty" } else { "keylist=nonempty" });

    // ---- (a) structure
    let mut ent = vec![];
    let mut off = 0usize; // leaves of the full tree claimed so far
    let mut merged = 0usize;
    let mut placeholders = 0usize;
    let mut misaligned = false;
    let mut kept_idx = vec![];
    for (pos, tx) in lite.transactions.iter().enumerate() {
        let me = m.and_then(|m| m.entries.get(pos));
        if tx.transaction_type == TransactionType::SPV {
            let rr = tx.txs_replacements as usize;
            placeholders += 1;
            if rr > 1 {
                merged += 1;
                if off % rr != 0 {
                    misaligned = true;
                }
            }
            let covers: Vec<String> = (off..off + rr).map(|x| x.to_string()).collect();
            // hash and signature prefix: repeat the model's term when it evaluates to the real bytes
            let (mh, ms) = match me.and_then(|e| e.split_once('#')).and_then(|(_, t)| t.split_once('~')) {
                Some((h, s)) => (Some(h), Some(s)),
                None => (None, None),
            };
            let hreal = tx.hash_for_signature.unwrap_or([0; 32]);
            let sreal: SaitoHash = tx.signature[0..32].try_into().unwrap();
            ent.push(format!("P{}[{}]#{}~{}", rr, covers.join("."), confirm(mh, &hreal, false, &full), confirm(ms, &sreal, false, &full)));
            off += rr;
        } else {
            match full.transactions.iter().position(|t| t.signature == tx.signature) {
                Some(i) if full.transactions[i] == *tx => {
                    ent.push(format!("K{}", i));
                    kept_idx.push(i);
                }
                Some(i) => ent.push(format!("K{}!altered", i)),
                None => ent.push("K?".to_string()),
            }
            off += 1;
        }
    }
    out.count(&format!("merged_placeholders={}", merged.min(3)));
    out.count(&format!("placeholders={}", placeholders.min(4)));

    // ---- (b) roots
    let root_full = full.generate_merkle_root(false, false);
    let root_lite = guarded(|| lite.generate_merkle_root(false, false));
    let s_full = confirm(m.map(|m| m.full.as_str()), &root_full, n == 0, &full);
    let s_lite = match &root_lite {
        Ok(h) => confirm(m.map(|m| m.lite.as_str()), h, lite.transactions.is_empty(), &full),
        Err(_) => "panic".to_string(),
    };
    // ---- (c) wire
    let wired = wire_trip(&lite);
    let s_wire = match &wired {
        Ok(w) => match guarded(|| w.generate_merkle_root(false, false)) {
            Ok(h) => confirm(m.map(|m| m.wire.as_str()), &h, w.transactions.is_empty(), &full),
            Err(_) => "panic".to_string(),
        },
        Err(e) => e.clone(),
    };

    // ---- direct monitor -------------------------------------------------------------------------
    // header projection
    let d = header_eq(&lite, &full);
    if !d.is_empty() {
        out.monitor_fail("C18/generate_lite_block/header-field-differs", &format!("fields {:?}", d), replay.clone());
    }
    // the header's root is the tree root of the full list (consistency of the input block itself)
    if n > 0 && full.merkle_root != root_full {
        out.monitor_fail("C18/harness/full-block-inconsistent", "merkle_root != generate_merkle_root", replay.clone());
    }
    // every relevant transaction is carried unchanged, in order
    let want: Vec<usize> = (0..n).filter(|i| c.keep(*i)).collect();
    if !want.iter().all(|i| kept_idx.contains(i)) || !kept_idx.windows(2).all(|w| w[0] < w[1]) {
        out.monitor_fail(
            "C18/generate_lite_block/relevant-tx-missing",
            &format!("relevant {:?} carried {:?}", want, kept_idx),
            replay.clone(),
        );
    }
    if off != n {
        out.monitor_fail("C18/generate_lite_block/replacement-counts-wrong", &format!("counts add up to {} for {} transactions", off, n), replay.clone());
    }
    // structural: a merged placeholder must stand for an aligned sibling subtree
    if misaligned {
        out.monitor_fail(
            "C18/generate_lite_block/merged-pair-not-siblings",
            "a merged placeholder covers leaves (p,p+1) with p odd: they have no common parent in the full tree",
            replay.clone(),
        );
    }
    // the commitment is recomputable
    let want_root = if n == 0 { root_full } else { full.merkle_root };
    match &root_lite {
        Ok(h) if *h == want_root => out.count("root_lite=ok"),
        Ok(_) => {
            out.count("root_lite=differs");
            if merged > 0 && !misaligned {
                out.monitor_fail(
                    "C18/merkle/adjacent-omitted-merged",
                    "recomputed root of the lite block != full block's merkle root; the lite block has merged placeholders, each covers a sibling pair (2j,2j+1)",
                    replay.clone(),
                );
            } else if merged > 0 {
                out.monitor_fail(
                    "C18/merkle/non-sibling-pair-merged",
                    "recomputed root of the lite block != full block's merkle root; a merged placeholder covers two leaves that are not siblings",
                    replay.clone(),
                );
            } else {
                out.monitor_fail("C18/merkle/root-differs-without-merge", "recomputed root differs although nothing was merged", replay.clone());
            }
        }
        Err(p) => out.monitor_fail("C18/merkle/panic", p, replay.clone()),
    }
    // after the wire
    match &wired {
        Ok(w) => {
            let d = header_eq(w, &full);
            if !d.is_empty() {
                out.monitor_fail("C18/wire/header-or-hash-changed", &format!("fields {:?}", d), replay.clone());
            }
            let mut lost = false;
            let mut altered = false;
            if w.transactions.len() != lite.transactions.len() {
                altered = true;
            } else {
                for (a, b) in w.transactions.iter().zip(lite.transactions.iter()) {
                    if b.transaction_type == TransactionType::SPV {
                        if a.hash_for_signature != b.hash_for_signature {
                            lost = true;
                        }
                        if a.txs_replacements != b.txs_replacements || a.transaction_type != TransactionType::SPV {
                            altered = true;
                        }
                    } else if a.serialize_for_net() != b.serialize_for_net() || a.hash_for_signature != b.hash_for_signature {
                        altered = true;
                    }
                }
            }
            if altered {
                out.monitor_fail("C18/wire/kept-tx-altered", "a transaction of the lite block changed on the wire", replay.clone());
            }
            if lost {
                out.monitor_fail(
                    "C18/wire/placeholder-hash-lost",
                    "a placeholder's hash_for_signature after decode+generate differs from the one it was built with (it is signature[0..32] now)",
                    replay.clone(),
                );
            }
            let rw = guarded(|| w.generate_merkle_root(false, false));
            match rw {
                Ok(h) if h == want_root => out.count("root_wire=ok"),
                Ok(_) => {
                    out.count("root_wire=differs");
                    let pre_ok = matches!(&root_lite, Ok(h) if *h == want_root);
                    if !lost && pre_ok {
                        out.monitor_fail("C18/wire/root-differs-other", "root after the wire differs, no placeholder hash changed", replay.clone());
                    }
                }
                Err(p) => out.monitor_fail("C18/wire/merkle-panic", &p, replay.clone()),
            }
        }
        Err(e) => out.monitor_fail("C18/wire/lite-block-not-decodable", e, replay.clone()),
    }

    format!("entries=[{}] lite={} full={} wire={}", ent.join(","), s_lite, s_full, s_wire)
}

pub fn run(seed: u64, tier: &str, outdir: &str) {
    let mut out = Out::new(outdir);
    let mut r = Rng::new(seed);
    let thorough = tier == "thorough";
    let ks = make_keys(&mut r);

    let (single, siblings, carries) = measure_flags(&ks, &mut r);
    let flags = format!("flags single={} siblings={} carries={}", single, siblings, carries);
    out.setup(&flags);
    out.count(&format!("flags_measured single={} siblings={} carries={}", single, siblings, carries));

    // ---- outside the model's assumption (monitor only): a transaction of the FULL block whose own txs_replacements
    // field is 2 counts as two leaves of the full tree (merkle.rs:75 looks at the count, not at the type), its
    // placeholder gets txs_replacements = 1 (block.rs:2552)
    {
        let c = Case { keys: vec![1], txs: vec![TxD { gt: false, from: vec![], to: vec![5] }, TxD { gt: false, from: vec![], to: vec![1] }], origin: "probe" };
        let mut b = build_block(&c, &ks, &mut r, (1 << 40) + 7);
        b.transactions[0].txs_replacements = 2;
        b.transactions[0].sign(&ks.sk[0]);
        b.merkle_root = [0; 32];
        // a tree that refuses such a transaction outright (Block::generate returns Err) has nothing to project
        let refused = b.generate().is_err();
        out.count(if refused { "probe=full-tx-with-replacements-2:refused-by-generate" } else { "probe=full-tx-with-replacements-2" });
        let lite = b.generate_lite_block(vec![ks.pk[1]]);
        if !refused && lite.generate_merkle_root(false, false) != b.merkle_root {
            out.monitor_fail(
                "C18/merkle/omitted-tx-has-own-replacement-count",
                "a non-SPV transaction with txs_replacements = 2 is two leaves of the full tree but its placeholder is one leaf",
                serde_json::json!({"probe": "full block [tx0{txs_replacements:2, not relevant}, tx1{relevant}], keylist [key1]"}),
            );
        }
    }

    // ---- pass 1: the cases
    let mut cases: Vec<Case> = vec![];
    if let Ok(dir) = std::fs::read_dir(format!("{}/corpus/C18", verif_root())) {
        let mut files: Vec<_> = dir.filter_map(|e| e.ok()).map(|e| e.path()).filter(|p| p.extension().map(|x| x == "ops").unwrap_or(false)).collect();
        files.sort();
        for f in files {
            for l in std::fs::read_to_string(&f).unwrap_or_default().lines() {
                if let Some(c) = Case::parse(l, "corpus") {
                    cases.push(c);
                }
            }
        }
    }
    let (nmax, reps) = if thorough { (12usize, 2) } else { (8usize, 1) };
    for n in 0..=nmax {
        for mask in 0..(1u32 << n) {
            for _ in 0..reps {
                cases.push(realise(&mut r, n, mask, "exhaustive"));
            }
        }
    }
    // larger blocks, random patterns
    for _ in 0..(if thorough { 400 } else { 60 }) {
        let n = r.range(nmax as u64 + 1, 28) as usize;
        let mask = (r.next() as u32) & ((1u32 << n) - 1) & if r.coin(1, 2) { r.next() as u32 } else { u32::MAX };
        cases.push(realise(&mut r, n, mask, "random-large"));
    }

    // a KEPT transaction with many slips: each list within the limit of 255, more than 255 in total (between two omitted ones,
    // first, last, alone)
    for (nf, nt) in [(200usize, 100usize), (255, 255), (130, 126), (1, 255), (255, 1)] {
        let wide = TxD { gt: false, from: std::iter::once(1u32).chain(std::iter::repeat(5u32).take(nf - 1)).collect(), to: vec![6u32; nt] };
        let small = || TxD { gt: false, from: vec![5], to: vec![6] };
        for shape in 0..4 {
            let txs = match shape {
                0 => vec![small(), wide.clone(), small()],
                1 => vec![wide.clone(), small(), small()],
                2 => vec![small(), small(), wide.clone()],
                _ => vec![wide.clone()],
            };
            cases.push(Case { keys: vec![1], txs, origin: "wide-kept-transaction" });
        }
    }

    let mut req = vec![flags.clone()];
    req.extend(cases.iter().map(|c| c.op()));
    let ans = run_driver(&req, outdir);
    if ans.len() != req.len() {
        panic!("model driver answered {} lines for {} requests", ans.len(), req.len());
    }

    // ---- pass 2: the real code
    for (i, c) in cases.iter().enumerate() {
        let m = parse_model(&ans[i + 1]);
        let line = run_case(c, m.as_ref(), &ks, &mut r, i as u64, &mut out);
        out.case(&c.op(), &line);
    }
    out.finish(serde_json::json!({"cases": cases.len(), "nmax_exhaustive": nmax, "flags": flags}));
}

/// replay of one case: `harness merkle-one K=<keys> T=<txs> x` prints the measured flags, the implementation's line,
/// the model's line and the direct monitor's verdicts
pub fn one(k: &str, t: &str) {
    let dir = std::env::temp_dir().join(format!("c18-one-{}", std::process::id()));
    let dir = dir.to_str().unwrap().to_string();
    let mut out = Out::new(&dir);
    let mut r = Rng::new(1);
    let ks = make_keys(&mut r);
    let (single, siblings, carries) = measure_flags(&ks, &mut r);
    let flags = format!("flags single={} siblings={} carries={}", single, siblings, carries);
    let c = match Case::parse(&format!("lite {} {}", k, t), "replay") {
        Some(c) => c,
        None => {
            println!("bad-op");
            return;
        }
    };
    let ans = run_driver(&[flags.clone(), c.op()], &dir);
    let m = ans.get(1).and_then(|l| parse_model(l));
    let line = run_case(&c, m.as_ref(), &ks, &mut r, 0, &mut out);
    println!("{}", flags);
    println!("implementation: {}", line);
    println!("model:          {}", ans.get(1).cloned().unwrap_or_default());
    for f in out.monitor_failures.iter() {
        println!("monitor: {} — {}", f["key"].as_str().unwrap_or(""), f["what"].as_str().unwrap_or(""));
    }
    out.finish(serde_json::json!({}));
    let _ = std::fs::remove_dir_all(&dir);
}
