//! C08 correspondence ("bf" suite): routing work gates block production; payouts go only to eligible parties.
//!  (a) `BurnFee::return_routing_work_needed_to_produce_block_in_nolan` / `calculate_burnfee_for_block` / the
//!      `× 1.5` payout cap against the native-Float Lean model, BIT-EXACT, on the edge grid of u64 × Timestamp
//!      plus random points; direct monitor of antitonicity / zero-after-two-heartbeats on the real function.
//!  (b) real transactions (real keys, `Transaction::add_hop` / `Hop::generate`) with arbitrary fees and paths:
//!      `generate_total_work`, `validate_routing_path`, `get_winning_routing_node` against the model.
//!  (c) real blocks (`Block::create`, then re-ordered and re-signed) whose routing work falls short of / meets /
//!      exceeds the requirement, offered to TWO real nodes — one fed from genesis, one that joined mid-chain (never
//!      receives block 1: `validate_against_utxo` = false); verdict against the model and against an ORACLE work
//!      computation done here (closed form, real signature verification).
//!  (d) fee transactions of the blocks of (c): outputs against the model's payout function; direct monitor of
//!      eligibility (ticket key or on a routing path of a paid block) and of the bound (Σ ≤ fees of the paid blocks).
use crate::common::*;
use crate::node::*;
use saito_core::core::consensus::block::Block;
use saito_core::core::consensus::burnfee::BurnFee;
use saito_core::core::consensus::hop::Hop;
use saito_core::core::consensus::transaction::{Transaction, TransactionType};
use saito_core::core::defs::{SaitoHash, SaitoPublicKey, SaitoSignature};
use saito_core::core::util::crypto::{hash, verify};
use std::collections::HashMap;

pub const HB: u64 = 100;
pub const NKEYS: u64 = 10;
const SENTINEL: u64 = 10_000_000_000_000_000_000;

// ------------------------------------------------------------------------------------------------ helpers

/// big-endian bytes → decimal string (lottery numbers are 256-bit integers)
pub fn dec256(b: &[u8]) -> String {
    let mut digits: Vec<u8> = vec![0];
    for &byte in b {
        let mut carry = byte as u32;
        for d in digits.iter_mut() {
            let v = (*d as u32) * 256 + carry;
            *d = (v % 10) as u8;
            carry = v / 10;
        }
        while carry > 0 {
            digits.push((carry % 10) as u8);
            carry /= 10;
        }
    }
    digits.iter().rev().map(|d| (b'0' + d) as char).collect()
}

fn num_hash(n: u128) -> SaitoHash {
    let mut h = [0u8; 32];
    h[16..].copy_from_slice(&n.to_be_bytes());
    h
}

/// small ids for public keys: 0 = the all-zero key, i+1 = factory key i, ≥ 1000 = anything else
pub struct Keys {
    pub pk: Vec<SaitoPublicKey>,
    pub sk: Vec<[u8; 32]>,
    other: HashMap<SaitoPublicKey, u64>,
}
impl Keys {
    pub fn new() -> Keys {
        let mut pk = vec![];
        let mut sk = vec![];
        for i in 0..NKEYS {
            let (p, s) = key(i);
            pk.push(p);
            sk.push(s);
        }
        Keys { pk, sk, other: HashMap::new() }
    }
    pub fn id(&mut self, k: &SaitoPublicKey) -> u64 {
        if *k == [0u8; 33] {
            return 0;
        }
        if let Some(i) = self.pk.iter().position(|p| p == k) {
            return i as u64 + 1;
        }
        let n = 1000 + self.other.len() as u64;
        *self.other.entry(*k).or_insert(n)
    }
}

fn hop_sig_ok(tx: &Transaction, h: &Hop) -> bool {
    let bytes: Vec<u8> = [tx.signature.as_slice(), h.to.as_slice()].concat();
    verify(bytes.as_slice(), &h.sig, &h.from)
}

/// `<sender|->;<fees>;<restOk>;<hops>` — the model's view of a transaction (after `generate`)
fn tx_str(tx: &Transaction, keys: &mut Keys) -> String {
    let sender = match tx.from.first() {
        Some(s) => keys.id(&s.public_key).to_string(),
        None => "-".to_string(),
    };
    let hops = if tx.path.is_empty() {
        "-".to_string()
    } else {
        tx.path
            .iter()
            .map(|h| format!("{}:{}:{}", keys.id(&h.from), keys.id(&h.to), hop_sig_ok(tx, h) as u8))
            .collect::<Vec<_>>()
            .join(",")
    };
    format!("{};{};1;{}", sender, tx.total_fees, hops)
}

fn txs_str(txs: &[Transaction], keys: &mut Keys) -> String {
    if txs.is_empty() {
        "-".to_string()
    } else {
        txs.iter().map(|t| tx_str(t, keys)).collect::<Vec<_>>().join("|")
    }
}

/// ORACLE: the routing work a transaction delivers to `creator` as the property states it — only through a
/// non-empty path that ends at the creator, is contiguous, has no self-hop and whose every hop signature
/// verifies (real secp256k1 verification); first hop gets everything, each further hop halves (rounding up):
/// closed form ceil(fees / 2^(hops-1)).
pub fn oracle_valid_work(tx: &Transaction, creator: &SaitoPublicKey) -> u64 {
    let n = tx.path.len();
    if n == 0 || tx.path[n - 1].to != *creator {
        return 0;
    }
    for (i, h) in tx.path.iter().enumerate() {
        if !hop_sig_ok(tx, h) || h.from == h.to || (i > 0 && h.from != tx.path[i - 1].to) {
            return 0;
        }
    }
    let k = (n - 1) as u32;
    if k >= 64 {
        return if tx.total_fees > 0 { 1 } else { 0 };
    }
    ((tx.total_fees as u128 + (1u128 << k) - 1) >> k) as u64
}

// ------------------------------------------------------------------------------------------------ (a) burn fee

fn real_need(bf: u64, cur: u64, prev: u64, hb: u64) -> String {
    match guarded(|| BurnFee::return_routing_work_needed_to_produce_block_in_nolan(bf, cur, prev, hb)) {
        Ok(v) => v.to_string(),
        Err(_) => "panic".to_string(),
    }
}
fn real_next(bf: u64, cur: u64, prev: u64, hb: u64) -> String {
    match guarded(|| BurnFee::calculate_burnfee_for_block(bf, cur, prev, hb)) {
        Ok(v) => v.to_string(),
        Err(_) => "panic".to_string(),
    }
}
/// the cap expression of block.rs:2026, 2047, 2097, 2113 (inline in the repo, quoted here)
fn real_cap(avg: u64) -> u64 {
    (avg as f64 * 1.5) as u64
}

fn bf_point(out: &mut Out, bf: u64, cur: u64, prev: u64, hb: u64, tag: &str) {
    let a = real_need(bf, cur, prev, hb);
    out.case(&format!("need {} {} {} {}", bf, cur, prev, hb), &a);
    out.case(&format!("next {} {} {} {}", bf, cur, prev, hb), &real_next(bf, cur, prev, hb));
    let cls = if a == "panic" {
        "panic-2hb-overflow"
    } else if prev >= cur {
        "misordered"
    } else if a == "0" {
        "zero"
    } else {
        "curve"
    };
    out.count(&format!("bf:{}:{}", tag, cls));
}

fn burnfee_part(r: &mut Rng, out: &mut Out, thorough: bool) {
    let p2 = |k: u32| 1u64 << k;
    let bfs: Vec<u64> = vec![
        0, 1, 2, 49_999_999, 50_000_000, 100_000_000, p2(32), p2(53) - 1, p2(53), p2(53) + 1, p2(63) - 1, p2(63), p2(63) + 1,
        SENTINEL - 1, SENTINEL, SENTINEL + 1, u64::MAX - 1, u64::MAX,
    ];
    let prevs: Vec<u64> = vec![0, 1, 1_700_000_000_000, p2(53) - 1, p2(53) + 1, p2(63), u64::MAX - 1, u64::MAX];
    let hbs: Vec<u64> = vec![0, 1, 2, 100, 5000, p2(32), p2(53) + 1, p2(62), p2(63) - 1, p2(63), u64::MAX];
    for &bf in &bfs {
        for &prev in &prevs {
            for &hb in &hbs {
                // elapsed: 0, 1, 2, hb-1, hb, hb+1, 2hb-1, 2hb, 2hb+1, huge; and misordered
                let mut els: Vec<u64> = vec![0, 1, 2, 3, 7];
                for e in [hb.wrapping_sub(1), hb, hb.wrapping_add(1)] {
                    els.push(e);
                }
                if let Some(t) = hb.checked_mul(2) {
                    els.push(t.wrapping_sub(1));
                    els.push(t);
                    els.push(t.wrapping_add(1));
                }
                els.push(u64::MAX);
                els.push(p2(53) + 1);
                els.sort();
                els.dedup();
                for e in els {
                    if let Some(cur) = prev.checked_add(e) {
                        bf_point(out, bf, cur, prev, hb, "grid");
                    }
                }
                if prev > 0 {
                    bf_point(out, bf, prev - 1, prev, hb, "grid");
                    bf_point(out, bf, 0, prev, hb, "grid");
                }
            }
        }
    }
    for &a in &[0u64, 1, 2, 3, 100, 101, p2(32), p2(52), p2(53) - 1, p2(53), p2(53) + 1, 12_297_829_382_473_034_410, 12_297_829_382_473_034_411, u64::MAX] {
        out.case(&format!("cap {}", a), &real_cap(a).to_string());
    }
    // random points: log-uniform burn fee, elapsed relative to the heartbeat, or fully random words
    let n = if thorough { 200_000 } else { 60_000 };
    for _ in 0..n {
        let bf = match r.below(4) {
            0 => r.next() >> r.below(64),
            1 => r.edge_u64(),
            2 => 50_000_000u64.saturating_mul(r.range(1, 1000)),
            _ => r.next(),
        };
        let hb = match r.below(5) {
            0 => 100,
            1 => 5000,
            2 => r.range(1, 100_000),
            3 => r.next() >> r.below(64),
            _ => r.edge_u64(),
        };
        let prev = match r.below(3) {
            0 => 1_700_000_000_000 + r.below(1_000_000),
            1 => r.next() >> r.below(64),
            _ => r.edge_u64(),
        };
        let e = match r.below(4) {
            0 => r.below(hb.saturating_mul(2).saturating_add(3).max(1)),
            1 => r.below(10),
            2 => r.next() >> r.below(64),
            _ => hb.saturating_mul(2).saturating_sub(r.below(3)),
        };
        let cur = if r.coin(1, 12) { prev.saturating_sub(r.below(5)) } else { prev.saturating_add(e) };
        bf_point(out, bf, cur, prev, hb, "random");
        if r.coin(1, 8) {
            let a = r.next() >> r.below(64);
            out.case(&format!("cap {}", a), &real_cap(a).to_string());
        }
    }
    // direct monitor on the real function: the requirement never increases with elapsed time, is zero from two
    // heartbeats on, and stays within rounding distance of the exact quotient bf / elapsed
    let n = if thorough { 400_000 } else { 150_000 };
    for _ in 0..n {
        let bf = match r.below(3) {
            0 => r.next() >> r.below(64),
            1 => r.edge_u64(),
            _ => r.next(),
        };
        let hb = match r.below(4) {
            0 => 100,
            1 => 5000,
            2 => r.range(1, 1_000_000),
            _ => (r.next() >> r.below(64)) >> 2,
        };
        let prev = if r.coin(1, 2) { 1_700_000_000_000 } else { r.next() >> 2 };
        let span = hb.saturating_mul(2).saturating_add(5).min(u64::MAX / 4);
        let (mut t1, mut t2) = (r.below(span + 1), r.below(span + 1));
        if r.coin(1, 4) {
            t1 = r.below(3);
        }
        if r.coin(1, 6) {
            t2 = t1 + r.below(3);
        }
        if t1 > t2 {
            std::mem::swap(&mut t1, &mut t2);
        }
        let f = |t: u64| BurnFee::return_routing_work_needed_to_produce_block_in_nolan(bf, prev + t, prev, hb);
        let (w1, w2) = (f(t1), f(t2));
        out.count("mono:triples");
        // a block stamped AT or BEFORE its parent can never carry enough work, however far back it is stamped: the requirement
        // is the impossible amount (10^19), in particular it is not the "two heartbeats have passed" zero
        let back = match r.below(6) {
            0 => 0,
            1 => r.below(3),
            2 => hb.saturating_mul(2).saturating_sub(1).saturating_add(r.below(3)),
            3 => hb.saturating_mul(r.range(2, 5)),
            4 => t2,
            _ => r.below(span + 1),
        }
        .min(prev);
        let wb = BurnFee::return_routing_work_needed_to_produce_block_in_nolan(bf, prev - back, prev, hb);
        out.count("mono:misordered");
        if wb < SENTINEL {
            out.monitor_fail(
                "C08/work-needed-for-a-block-stamped-at-or-before-its-parent-is-attainable",
                &format!("a block stamped {} ms before its parent needs only {} work (heartbeat {}, parent burn fee {})", back, wb, hb, bf),
                serde_json::json!({"burn_fee": bf.to_string(), "previous_ts": prev.to_string(), "heartbeat": hb, "stamped_before_parent_by": back}),
            );
        }
        if w2 > w1 {
            // feature of the input, computed here alone: the only listed failure needs t1 = 0 (sentinel branch) and bf ≥ 10^19
            let cls = if t1 == 0 && bf >= SENTINEL { "zero-elapsed-and-burnfee-at-or-above-the-1e19-sentinel" } else { "other" };
            out.monitor_fail(
                &format!("C08/work-needed-not-antitone/{}", cls),
                &format!("work needed rises from {} at elapsed {} to {} at elapsed {}", w1, t1, w2, t2),
                serde_json::json!({"burn_fee": bf.to_string(), "previous_ts": prev.to_string(), "heartbeat": hb, "elapsed_1": t1, "elapsed_2": t2}),
            );
        }
        for (t, w) in [(t1, w1), (t2, w2)] {
            if t > 0 && t >= 2 * hb && w != 0 {
                out.monitor_fail(
                    "C08/work-needed-nonzero-after-two-heartbeats",
                    &format!("work needed {} at elapsed {} with heartbeat {}", w, t, hb),
                    serde_json::json!({"burn_fee": bf.to_string(), "previous_ts": prev.to_string(), "heartbeat": hb, "elapsed": t}),
                );
            }
            if t > 0 && t < 2 * hb {
                // exact quotient in u128, compared with a relative tolerance of 2^-50 (three roundings of 2^-53 each) + 1
                let exact = bf as u128 / t as u128;
                let tol = (bf as u128 >> 50) + 2;
                let wv = w as u128;
                if exact < u64::MAX as u128 - tol && (wv + tol < exact || wv > exact + tol) {
                    out.monitor_fail(
                        "C08/work-needed-far-from-exact-quotient",
                        &format!("work needed {} but burn_fee / elapsed = {}", w, exact),
                        serde_json::json!({"burn_fee": bf.to_string(), "heartbeat": hb, "elapsed": t}),
                    );
                }
            }
        }
    }
}

// ------------------------------------------------------------------------------------------------ (b) transactions

#[derive(Clone, Debug, PartialEq)]
pub enum SigKind {
    Good,
    Garbage,
    WrongSigner(u64),
    WrongTo(u64),
    Zero,
}
#[derive(Clone, Debug)]
pub struct HopSpec {
    pub from: u64,
    pub to: u64,
    pub sig: SigKind,
}
#[derive(Clone, Debug, Default)]
pub struct PathSpec {
    pub hops: Vec<HopSpec>,
}
impl PathSpec {
    /// features of the path relative to sender / creator, by construction
    pub fn class(&self, sender: u64, creator: u64) -> String {
        if self.hops.is_empty() {
            return "empty".into();
        }
        let mut f = vec![];
        if self.hops.iter().any(|h| h.sig != SigKind::Good) {
            f.push("forged");
        }
        if self.hops.iter().any(|h| h.from == h.to) {
            f.push("self");
        }
        if self.hops.windows(2).any(|w| w[1].from != w[0].to) {
            f.push("break");
        }
        if self.hops.last().unwrap().to != creator {
            f.push("noend");
        }
        if self.hops[0].from != sender {
            f.push("nosender");
        }
        if f.is_empty() {
            "valid".into()
        } else {
            f.join("+")
        }
    }
    pub fn forged(&self) -> bool {
        self.hops.iter().any(|h| h.sig != SigKind::Good)
    }
    pub fn self_hop(&self) -> bool {
        self.hops.iter().any(|h| h.from == h.to)
    }
}

pub fn other_key(r: &mut Rng, not: &[u64]) -> u64 {
    loop {
        let k = r.below(NKEYS);
        if !not.contains(&k) {
            return k;
        }
    }
}

/// a path of `n` hops from `sender` to `creator` with seeded deviations
pub fn gen_path(r: &mut Rng, sender: u64, creator: u64, force_valid: bool) -> PathSpec {
    let n = match r.below(8) {
        0 => 0,
        1 | 2 => 1,
        3 | 4 => 2,
        5 => 3,
        6 => r.range(4, 6),
        _ => r.range(1, 3),
    } as usize;
    if n == 0 {
        return PathSpec::default();
    }
    // key sequence k0..kn without accidental self-hops, ending at the creator
    let n = if n == 1 && sender == creator { 2 } else { n };
    let mut ks = vec![sender];
    for i in 1..n {
        let last = *ks.last().unwrap();
        let mut avoid = vec![last];
        if i == n - 1 {
            avoid.push(creator);
        }
        ks.push(other_key(r, &avoid));
    }
    ks.push(creator);
    let mut hops: Vec<HopSpec> = (0..n).map(|i| HopSpec { from: ks[i], to: ks[i + 1], sig: SigKind::Good }).collect();
    if force_valid {
        return PathSpec { hops };
    }
    // deviations
    if r.coin(1, 6) {
        // does not end at the creator
        let l = hops.len() - 1;
        hops[l].to = other_key(r, &[creator, hops[l].from]);
    }
    if r.coin(1, 6) {
        // first hop not signed by the sender (a forwarding node signs the first hop)
        hops[0].from = other_key(r, &[sender, hops[0].to]);
    }
    if hops.len() >= 2 && r.coin(1, 5) {
        // broken contiguity
        let i = r.range(1, hops.len() as u64 - 1) as usize;
        hops[i].from = other_key(r, &[hops[i - 1].to, hops[i].to]);
    }
    if r.coin(1, 5) {
        // self-hop inserted so that the path stays contiguous
        let i = r.below(hops.len() as u64 + 1) as usize;
        let k = if i == 0 { hops[0].from } else { hops[i - 1].to };
        hops.insert(i, HopSpec { from: k, to: k, sig: SigKind::Good });
    }
    if r.coin(1, 4) {
        let i = r.below(hops.len() as u64) as usize;
        hops[i].sig = match r.below(4) {
            0 => SigKind::Garbage,
            1 => SigKind::WrongSigner(other_key(r, &[hops[i].from])),
            2 => SigKind::WrongTo(other_key(r, &[hops[i].to])),
            _ => SigKind::Zero,
        };
    }
    PathSpec { hops }
}

/// attach the path to a SIGNED transaction with real keys
pub fn apply_path(tx: &mut Transaction, p: &PathSpec, keys: &Keys, r: &mut Rng) {
    for h in &p.hops {
        let (f, t) = (h.from as usize, h.to as usize);
        match &h.sig {
            SigKind::Good if f != t => tx.add_hop(&keys.sk[f], &keys.pk[f], &keys.pk[t]),
            SigKind::Good => {
                // `add_hop` asserts from ≠ to; a peer can still send such a hop
                let hop = Hop::generate(&keys.sk[f], &keys.pk[f], &keys.pk[t], tx);
                tx.path.push(hop);
            }
            SigKind::Garbage => {
                let mut hop = Hop::generate(&keys.sk[f], &keys.pk[f], &keys.pk[t], tx);
                let g = r.bytes(64);
                hop.sig.copy_from_slice(&g);
                tx.path.push(hop);
            }
            SigKind::Zero => {
                let mut hop = Hop::generate(&keys.sk[f], &keys.pk[f], &keys.pk[t], tx);
                hop.sig = [0; 64];
                tx.path.push(hop);
            }
            SigKind::WrongSigner(k) => {
                let hop = Hop::generate(&keys.sk[*k as usize], &keys.pk[f], &keys.pk[t], tx);
                tx.path.push(hop);
            }
            SigKind::WrongTo(k) => {
                let mut hop = Hop::generate(&keys.sk[f], &keys.pk[f], &keys.pk[*k as usize], tx);
                hop.to = keys.pk[t];
                tx.path.push(hop);
            }
        }
    }
}

fn edge_fee(r: &mut Rng) -> u64 {
    match r.below(12) {
        0 => 0,
        1 => 1,
        2 => 2,
        3 => 3,
        4 => r.range(4, 100),
        5 => (1u64 << 32) + r.below(3),
        6 => (1u64 << 53) + 1,
        7 => (1u64 << 62) + r.below(1000),
        8 => (1u64 << 63) - 1,
        9 => 1u64 << r.below(63),
        _ => r.next() >> (1 + r.below(63)),
    }
}

/// a signed, free-standing transaction paying `fee` (its input need not exist anywhere: tx-level functions only)
fn loose_tx(sender: u64, fee: u64, extra: u64, keys: &Keys, salt: u64) -> Transaction {
    use saito_core::core::consensus::slip::{Slip, SlipType};
    let mut tx = Transaction::default();
    tx.transaction_type = TransactionType::Normal;
    tx.timestamp = 1_700_000_000_000 + salt;
    let mut i = Slip::default();
    i.public_key = keys.pk[sender as usize];
    i.amount = fee.saturating_add(extra);
    i.slip_type = SlipType::Normal;
    i.block_id = 1;
    i.tx_ordinal = salt;
    tx.from.push(i);
    let mut o = Slip::default();
    o.public_key = keys.pk[((sender + 1) % NKEYS) as usize];
    o.amount = fee.saturating_add(extra) - fee;
    o.slip_type = SlipType::Normal;
    tx.to.push(o);
    tx.sign(&keys.sk[sender as usize]);
    tx
}

/// eligibility of a lottery winner of ONE transaction, as the property states it
fn winner_eligible(tx: &Transaction, w: &SaitoPublicKey) -> bool {
    if *w == [0u8; 33] {
        return true; // burnt: nobody is paid
    }
    if tx.path.is_empty() {
        return tx.from.first().map(|s| s.public_key == *w).unwrap_or(false);
    }
    tx.path.iter().any(|h| h.to == *w)
}

fn tx_case(out: &mut Out, r: &mut Rng, keys: &mut Keys, tx: &mut Transaction, creator: u64, class: &str, expect_sig: Option<Vec<bool>>) {
    let cpk = keys.pk[creator as usize];
    tx.generate(&cpk, 0, 1);
    let vrp = guarded(|| tx.validate_routing_path());
    let oracle = oracle_valid_work(tx, &cpk);
    let ts = tx_str(tx, keys);
    let imp = match vrp {
        Ok(v) => format!("work={} vrp={} valid={}", tx.total_work_for_me, v as u8, oracle),
        Err(_) => "panic".to_string(),
    };
    out.case(&format!("tx {} {}", creator + 1, ts), &imp);
    out.count(&format!("tx:path:{}", class));
    out.count(&format!("tx:work:{}", if tx.total_work_for_me == 0 { "zero" } else if tx.total_work_for_me == tx.total_fees { "all-fees" } else { "halved" }));
    // self-check of the generator: the oracle bit of every hop is what the construction intended
    if let Some(exp) = expect_sig {
        let got: Vec<bool> = tx.path.iter().map(|h| hop_sig_ok(tx, h)).collect();
        if got != exp {
            out.monitor_fail("C08/harness-self-check/hop-signature-oracle-differs-from-construction", &format!("{:?} vs {:?}", got, exp), serde_json::json!({"tx": ts}));
        }
    }
    // direct monitors: work never exceeds the fees; counted work is the oracle's unless the path is invalid
    if tx.total_work_for_me > tx.total_fees {
        out.monitor_fail("C08/work-exceeds-fees", &format!("work {} fees {}", tx.total_work_for_me, tx.total_fees), serde_json::json!({"tx": ts}));
    }
    if vrp == Ok(true) && tx.total_work_for_me != oracle {
        out.monitor_fail("C08/work-of-valid-path-differs-from-halving-law", &format!("work {} oracle {}", tx.total_work_for_me, oracle), serde_json::json!({"tx": ts}));
    }
    // lottery: a few outcomes per transaction, crafted at the thresholds and random
    let mut numbers: Vec<SaitoHash> = vec![];
    let f = tx.total_fees as u128;
    let agg: u128 = {
        let mut a = f;
        let mut t = f;
        for _ in 1..tx.path.len().max(1) {
            t /= 2;
            a += t;
        }
        a
    };
    for n in [0u128, 1, f.saturating_sub(1), f, f + 1, f + f / 2, f + f / 2 + 1, agg.saturating_sub(1), agg, agg + 1] {
        if r.coin(1, 3) {
            numbers.push(num_hash(n));
        }
    }
    numbers.push(hash(&r.bytes(8)));
    if r.coin(1, 4) {
        numbers.push([0xff; 32]);
    }
    for h in numbers {
        let res = guarded(|| tx.get_winning_routing_node(h));
        let imp = match &res {
            Ok(k) => format!("key={}", keys.id(k)),
            Err(_) => "panic".to_string(),
        };
        out.case(&format!("win {} {}", dec256(&h), ts), &imp);
        match res {
            Ok(k) => {
                out.count(&format!("win:{}", if k == [0u8; 33] { "burn" } else if tx.path.is_empty() { "sender" } else { "hop" }));
                if !winner_eligible(tx, &k) {
                    out.monitor_fail("C08/lottery-winner-not-on-path", &format!("winner key {}", keys.id(&k)), serde_json::json!({"tx": ts, "number": dec256(&h)}));
                }
            }
            Err(m) => out.monitor_fail("C08/get_winning_routing_node-panics", &m, serde_json::json!({"tx": ts, "number": dec256(&h)})),
        }
    }
}

fn expected_sigs(p: &PathSpec) -> Vec<bool> {
    p.hops.iter().map(|h| h.sig == SigKind::Good).collect()
}

fn tx_part(r: &mut Rng, out: &mut Out, keys: &mut Keys, thorough: bool) {
    let n = if thorough { 6000 } else { 2500 };
    for i in 0..n {
        let sender = r.below(NKEYS);
        let creator = r.below(NKEYS);
        let fee = edge_fee(r);
        let mut tx = loose_tx(sender, fee, r.below(1000), keys, i);
        let fv = r.coin(1, 4);
        let p = gen_path(r, sender, creator, fv);
        apply_path(&mut tx, &p, keys, r);
        let class = p.class(sender, creator);
        tx_case(out, r, keys, &mut tx, creator, &class, Some(expected_sigs(&p)));
    }
}

/// corpus lines `tx <creator> <sender>;<fees>;1;<hops>` are rebuilt with real keys (hop ok-bit 0 = garbage signature)
fn corpus_part(r: &mut Rng, out: &mut Out, keys: &mut Keys) {
    let dir = format!("{}/corpus/C08", verif_root());
    let mut files: Vec<_> = match std::fs::read_dir(&dir) {
        Ok(d) => d.filter_map(|e| e.ok()).map(|e| e.path()).filter(|p| p.extension().map(|x| x == "ops").unwrap_or(false)).collect(),
        Err(_) => vec![],
    };
    files.sort();
    for f in files {
        for l in std::fs::read_to_string(&f).unwrap_or_default().lines() {
            let t: Vec<&str> = l.split_whitespace().collect();
            let nums: Vec<u64> = t.iter().skip(1).filter_map(|x| x.parse().ok()).collect();
            match t.first().copied() {
                Some("need") | Some("next") if nums.len() == 4 => {
                    bf_point(out, nums[0], nums[1], nums[2], nums[3], "corpus");
                }
                Some("cap") if nums.len() == 1 => out.case(&format!("cap {}", nums[0]), &real_cap(nums[0]).to_string()),
                Some("tx") if t.len() == 3 => {
                    let creator: u64 = t[1].parse().unwrap_or(1);
                    let parts: Vec<&str> = t[2].split(';').collect();
                    if parts.len() != 4 || creator == 0 || creator > NKEYS {
                        continue;
                    }
                    let sender: u64 = parts[0].parse().unwrap_or(1);
                    let fee: u64 = parts[1].parse().unwrap_or(0);
                    let mut p = PathSpec::default();
                    if parts[3] != "-" {
                        for h in parts[3].split(',') {
                            let x: Vec<u64> = h.split(':').filter_map(|y| y.parse().ok()).collect();
                            if x.len() == 3 && x[0] >= 1 && x[0] <= NKEYS && x[1] >= 1 && x[1] <= NKEYS {
                                p.hops.push(HopSpec { from: x[0] - 1, to: x[1] - 1, sig: if x[2] == 1 { SigKind::Good } else { SigKind::Garbage } });
                            }
                        }
                    }
                    if sender == 0 || sender > NKEYS {
                        continue;
                    }
                    let mut tx = loose_tx(sender - 1, fee, 0, keys, 7_000_000);
                    apply_path(&mut tx, &p, keys, r);
                    tx_case(out, r, keys, &mut tx, creator - 1, "corpus", Some(expected_sigs(&p)));
                }
                _ => {}
            }
        }
    }
}

// ------------------------------------------------------------------------------------------------ (c) + (d) blocks

#[derive(Clone, Debug)]
pub struct TxPlan {
    pub sender: u64,
    pub fee: u64,
    pub path: PathSpec,
}

#[derive(Clone, Debug)]
pub struct BlockPlan {
    pub creator: u64,
    pub elapsed: i64, // timestamp − parent timestamp (may be ≤ 0)
    pub gt: Option<u64>,
    pub txs: Vec<TxPlan>,
    /// how the routing work relates to the requirement (by construction)
    pub mode: &'static str,
    /// the block's golden ticket is not a separate fee-less transaction: the plan at this index IS the ticket (a
    /// GoldenTicket-typed transaction that spends a value input of the miner, pays the planned fee and carries the
    /// planned path) — legal, its fee counts like any other
    pub gt_carries: Option<usize>,
}

pub struct Built {
    pub block: Block,
    pub plan: BlockPlan,
}

pub struct World {
    pub f: Factory,
    pub node: Node,
    /// a second validating node that joined mid-chain: it never receives block 1, so `has_total_supply_loaded()` is
    /// false and `Block::validate` runs with `validate_against_utxo = false`
    pub mid: Node,
    pub mid_started: bool,
    pub mid_alive: bool,
    pub keys: Keys,
    pub pool: Vec<Utxo>, // unspent genesis outputs
    pub gp: u64,
}

const ISSUE: u64 = 10_000_000_000_000;

impl World {
    pub async fn new(seed: u64, gp: u64) -> (World, Block) {
        let cfg = Cfg::new(gp, HB, 50);
        let mut f = Factory::new(seed, cfg.clone());
        let mut issue = vec![];
        for i in 0..90u64 {
            issue.push((1 + (i % (NKEYS - 1)), ISSUE + i));
        }
        let g = f.make_genesis(&issue).await;
        f.remember(&g);
        let pool = outputs_of(&g, &owner_lookup(NKEYS));
        let node = Node::new(0, cfg.clone());
        let mid = Node::new(0, cfg);
        (World { f, node, mid, mid_started: false, mid_alive: true, keys: Keys::new(), pool, gp }, g)
    }

    fn take_utxo(&mut self, r: &mut Rng, sender: Option<u64>) -> Option<Utxo> {
        let idx: Vec<usize> = self.pool.iter().enumerate().filter(|(_, u)| sender.map(|s| u.owner == s).unwrap_or(true)).map(|(i, _)| i).collect();
        if idx.is_empty() {
            return None;
        }
        let i = idx[r.below(idx.len() as u64) as usize];
        Some(self.pool.remove(i))
    }

    /// a real, signed transaction spending a genesis output, paying `fee`, carrying `path`
    fn make_fee_tx(&mut self, r: &mut Rng, plan: &mut TxPlan, salt: u8, ticket_for: Option<&Block>) -> Option<Transaction> {
        let u = self.take_utxo(r, Some(plan.sender)).or_else(|| self.take_utxo(r, None))?;
        if u.owner != plan.sender {
            // re-home the plan onto the output's owner (paths that started at the planned sender keep their keys)
            for h in plan.path.hops.iter_mut() {
                if h.from == plan.sender {
                    h.from = u.owner;
                }
                if h.to == plan.sender {
                    h.to = u.owner;
                }
            }
            plan.sender = u.owner;
        }
        let amt = u.slip.amount;
        let to = 1 + r.below(NKEYS - 1);
        let mut tx = self.f.make_tx(&TxSpec { inputs: vec![u], outputs: vec![(to, amt - plan.fee)], data: vec![salt, r.next() as u8, r.next() as u8] });
        if let Some(parent) = ticket_for {
            // the sender mines the ticket; type and payload are part of the signed bytes, the path goes on afterwards
            let g = self.f.golden_ticket_tx(parent, plan.sender);
            tx.transaction_type = TransactionType::GoldenTicket;
            tx.data = g.data;
            tx.sign(&key(plan.sender).1);
        }
        apply_path(&mut tx, &plan.path, &self.keys, r);
        Some(tx)
    }

    /// `Block::create` on `parent`, then: transactions put into plan order (create drains a hash map), merkle
    /// root / signature / hash regenerated
    async fn build(&mut self, r: &mut Rng, parent: &Block, plan: &mut BlockPlan, salt: u8) -> Option<Block> {
        let mut txs = vec![];
        let mut order: HashMap<SaitoSignature, usize> = HashMap::new();
        let mut plans = plan.txs.clone();
        let mut ticket = None;
        for (i, tp) in plans.iter_mut().enumerate() {
            let as_ticket = plan.gt.is_some() && plan.gt_carries == Some(i);
            let tx = self.make_fee_tx(r, tp, salt.wrapping_add(i as u8), if as_ticket { Some(parent) } else { None })?;
            if as_ticket {
                plan.gt = Some(tp.sender);
                ticket = Some(tx);
                continue;
            }
            order.insert(tx.signature, i);
            txs.push(tx);
        }
        plan.txs = plans;
        let gt = match ticket {
            Some(t) => Some(t),
            None => plan.gt.map(|m| self.f.golden_ticket_tx(parent, m)),
        };
        let ts = (parent.timestamp as i64 + plan.elapsed) as u64;
        let mut b = self.f.make_block(parent.hash, ts, plan.creator, txs, gt).await.ok()?;
        b.transactions.sort_by_key(|t| match t.transaction_type {
            TransactionType::GoldenTicket => 0usize,
            TransactionType::Fee => usize::MAX,
            _ => 1 + order.get(&t.signature).copied().unwrap_or(usize::MAX - 1),
        });
        b.generate().ok()?;
        b.merkle_root = b.generate_merkle_root(false, false);
        self.f.resign(&mut b, plan.creator);
        b.generate().ok()?;
        self.f.remember(&b);
        Some(b)
    }
}

/// ORACLE view of a block: (code-independent) valid work, and which invalid-path features carry counted work
fn oracle_block_work(b: &Block) -> (u64, bool, bool) {
    let mut valid: u64 = 0;
    let (mut forged, mut selfhop) = (false, false);
    for tx in &b.transactions {
        let w = oracle_valid_work(tx, &b.creator);
        valid += w;
        if w == 0 && !tx.path.is_empty() && tx.path.last().unwrap().to == b.creator {
            if tx.path.iter().any(|h| !hop_sig_ok(tx, h)) {
                forged = true;
            } else if tx.path.iter().any(|h| h.from == h.to) {
                selfhop = true;
            }
        }
    }
    (valid, forged, selfhop)
}

fn paid_str(b: &Block, keys: &mut Keys) -> String {
    format!("{}/{}", b.total_fees, txs_str(&b.transactions, keys))
}

/// keys that may legitimately receive a routing payout from `b`
fn eligible_keys(b: &Block) -> Vec<SaitoPublicKey> {
    let mut v = vec![];
    for tx in &b.transactions {
        if tx.path.is_empty() {
            if let Some(s) = tx.from.first() {
                v.push(s.public_key);
            }
        }
        for h in &tx.path {
            v.push(h.to);
        }
    }
    v
}

/// offer `b` (child of `parent`, grandparent `pp`) to the node; emit the `blk` and `fee` lines; run the monitors.
/// `tampered`: the block's fee transactions were edited after `Block::create` (the `fee` line — create's own
/// payout against the model — is then skipped; the `blk` line carries the block's actual fee outputs).
/// `mid`: offer to the node that joined mid-chain instead of the full node (only the `blk` line and the monitors).
async fn offer(w: &mut World, out: &mut Out, b: &Block, plan: &BlockPlan, parent: &Block, pp: Option<&Block>, tampered: bool, mid: bool, ctx: &serde_json::Value) -> bool {
    let keys = &mut w.keys;
    let node: &mut Node = if mid { &mut w.mid } else { &mut w.node };
    let need = real_need(parent.burnfee, b.timestamp, parent.timestamp, HB);
    let (valid, forged, selfhop) = oracle_block_work(b);
    // `validate_against_utxo` of this node (Blockchain::has_total_supply_loaded; chains here are shorter than the genesis period)
    let vau = node.blockchain.blockring.get_longest_chain_block_hash_at_block_id(1).is_some();
    let tag = if mid { "blkmid" } else { "blk" };
    let res = guarded_async(node.add_block(b.clone())).await;
    let (cls, panic_msg) = match &res {
        Ok(r) => (add_result_class(r), String::new()),
        Err(m) => ("panic", m.clone()),
    };
    let acc = match cls {
        "added_lc" => "1",
        "invalid" => "0",
        "panic" if panic_msg.contains("invalid total supply") => "supply-panic",
        other => other,
    };
    // the block's Fee-typed transactions as the validator sees them
    let gt_tx = b.transactions.iter().find(|t| t.transaction_type == TransactionType::GoldenTicket);
    let fee_txs: Vec<&Transaction> = b.transactions.iter().filter(|t| t.transaction_type == TransactionType::Fee).collect();
    let fee_lists: Vec<String> = fee_txs
        .iter()
        .map(|t| if t.to.is_empty() { "~".to_string() } else { t.to.iter().map(|s| format!("{}:{}", keys.id(&s.public_key), s.amount)).collect::<Vec<_>>().join(",") })
        .collect();
    let fee_field = if fee_lists.is_empty() { "-".to_string() } else { fee_lists.join("/") };
    // ticket context (lottery numbers derived from the ticket's random with the real hash)
    let mut gtctx = "-".to_string();
    let mut miner: SaitoPublicKey = [0; 33];
    if let Some(gt) = gt_tx {
        if gt.data.len() == 97 {
            let random: SaitoHash = gt.data[32..64].try_into().unwrap();
            miner = gt.data[64..97].try_into().unwrap();
            let a1 = hash(&random);
            let a2 = hash(&a1);
            let b1 = hash(&a2);
            let b2 = hash(&b1);
            let ppstr = match pp {
                Some(q) => paid_str(q, keys),
                None => "-".to_string(),
            };
            gtctx = format!(
                "{} {} {} {} {} {} {} {} {}",
                keys.id(&miner), parent.has_golden_ticket as u8, parent.avg_total_fees, dec256(&a1), dec256(&a2), dec256(&b1), dec256(&b2), paid_str(parent, keys), ppstr
            );
        }
    }
    let op = format!("blk {} {} {} {} {} 1 {} {} {} {}", parent.burnfee, b.timestamp, parent.timestamp, HB, keys.id(&b.creator), vau as u8, txs_str(&b.transactions, keys), fee_field, gtctx);
    out.case(&op, &format!("acc={} need={} work={} valid={}", acc, need, b.total_work, valid));
    let e = plan.elapsed;
    let side = if e <= 0 { "misordered" } else if (e as u64) < HB { "lt-hb" } else if (e as u64) < 2 * HB { "hb-to-2hb" } else { "ge-2hb" };
    out.count(&format!("{}:elapsed:{}", tag, side));
    out.count(&format!("{}:mode:{}:{}", tag, plan.mode, match acc { "1" => "accepted", "0" => "rejected", x => x }));
    out.count(&format!("{}:validate_against_utxo:{}", tag, vau as u8));
    let replay = serde_json::json!({"case": ctx, "op": op});
    let needv: u64 = need.parse().unwrap_or(u64::MAX);
    // the block passed Block::validate if it was added, or if the node died in the supply check that follows winding
    let passed_validation = acc == "1" || acc == "supply-panic";
    if passed_validation && valid < needv {
        // feature of the INPUT, computed here alone
        let class = if forged { "forged-hop-signature" } else if selfhop { "self-hop" } else { "too-little-work" };
        // … and of the validating node: one that never received block 1 gets its own class
        let class = if vau { class.to_string() } else { format!("{}/node-without-block-1", class) };
        out.monitor_fail(
            &format!("C08/accepted-without-enough-valid-work/{}", class),
            &format!(
                "block accepted by a node {} with valid routing work {} (counted by the node: {}) but {} needed (elapsed {} ms, parent burn fee {})",
                if vau { "holding block 1" } else { "that joined mid-chain (validate_against_utxo = false)" }, valid, b.total_work, needv, plan.elapsed, parent.burnfee
            ),
            replay.clone(),
        );
    }
    // ---- the block-level lottery on this block (as a later block would run it): crafted and random numbers
    if acc == "1" && !mid {
        let y = b.total_fees as u128;
        let mut numbers: Vec<SaitoHash> = vec![hash(&b.hash), hash(&b.signature[..8])];
        let mut cum: u128 = 0;
        for t in b.transactions.iter().take(4) {
            cum += t.total_fees as u128;
            numbers.push(num_hash(cum));
            numbers.push(num_hash(cum + 1));
        }
        numbers.push(num_hash(0));
        numbers.push(num_hash(y));
        numbers.push(num_hash(y.saturating_sub(1)));
        let elig = eligible_keys(b);
        for h in numbers {
            let res = guarded(|| b.find_winning_router(h));
            let imp = match &res {
                Ok(k) => format!("key={}", keys.id(k)),
                Err(_) => "panic".to_string(),
            };
            let fop = format!("fwr {} {} {} {}", b.total_fees, dec256(&h), dec256(&hash(&h)), txs_str(&b.transactions, keys));
            out.case(&fop, &imp);
            match res {
                Ok(k) => {
                    out.count(&format!("fwr:{}", if k == [0u8; 33] { "burn" } else { "key" }));
                    if k != [0u8; 33] && !elig.contains(&k) {
                        out.monitor_fail("C08/lottery-winner-not-on-path", &format!("block lottery winner key {}", keys.id(&k)), serde_json::json!({"case": ctx, "op": fop}));
                    }
                }
                Err(m) => out.monitor_fail("C08/find_winning_router-panics", &m, serde_json::json!({"case": ctx, "op": fop})),
            }
        }
    }
    // ---- (d) fee transactions
    if gt_tx.is_some() && !tampered && !mid {
        // the fee transaction of an untampered block is the one Block::create derived: compare it with the model
        let imp = if fee_txs.iter().all(|t| t.to.is_empty()) { "outs=-".to_string() } else { format!("outs={}", fee_lists.iter().filter(|x| *x != "~").cloned().collect::<Vec<_>>().join(",")) };
        out.case(&format!("fee {}", gtctx), &imp);
        out.count(&format!("fee:outputs:{}", fee_txs.iter().map(|t| t.to.len()).sum::<usize>()));
        out.count(&format!("fee:parent-ticket:{}", parent.has_golden_ticket as u8));
        let capped = parent.total_fees / 2 > real_cap(parent.avg_total_fees);
        out.count(&format!("fee:capped:{}", capped as u8));
    }
    if passed_validation {
        // direct monitor: every output of every Fee transaction the validator let through goes to the ticket's key
        // or to a key on a routing path of a paid block, and together they do not exceed the fees of the paid blocks
        let mut elig = vec![];
        let mut budget: u128 = 0;
        if gt_tx.is_some() {
            elig = eligible_keys(parent);
            budget = parent.total_fees as u128;
            if !parent.has_golden_ticket {
                if let Some(q) = pp {
                    elig.extend(eligible_keys(q));
                    budget += q.total_fees as u128;
                }
            }
        }
        // feature of the INPUT: how the block's fee transactions deviate from "exactly one, only with a ticket"
        let class = if gt_tx.is_none() { "fee-transaction-without-ticket" } else if fee_txs.len() > 1 { "second-fee-transaction" } else { "single-fee-transaction" };
        // a node without block 1 compares no fee transaction at all (one root cause whatever the shape)
        let class = if vau { class } else { "node-without-block-1" };
        let mut sum: u128 = 0;
        let mut bad = 0;
        for t in &fee_txs {
            for s in &t.to {
                sum += s.amount as u128;
                let wound = node.blockchain.utxoset.get(&s.utxoset_key).copied();
                if (gt_tx.is_none() || s.public_key != miner) && !elig.contains(&s.public_key) {
                    bad += 1;
                    out.monitor_fail(
                        &format!("C08/fee-output-to-ineligible-key/{}", class),
                        &format!(
                            "Block::validate let through an output of {} to key {} which is neither the ticket's key nor on a routing path of a paid block (in the node's utxo set after winding: {:?}; add_block outcome: {})",
                            s.amount, keys.id(&s.public_key), wound, acc
                        ),
                        replay.clone(),
                    );
                }
            }
        }
        if sum > budget && bad == 0 {
            out.monitor_fail(&format!("C08/fee-outputs-exceed-fees-of-paid-blocks/{}", class), &format!("outputs {} fees {}", sum, budget), replay.clone());
        }
        if !fee_txs.is_empty() {
            out.count(if mid { "fee:monitored-on-node-without-block-1" } else { "fee:monitored" });
        }
    }
    acc == "1"
}

/// the same block for the node that joined mid-chain. Its first block (id 2, parent unknown to it) is simply delivered;
/// from then on every block gets its own `blk` line (vau = 0) and the monitors. The node is dropped from the case once it
/// disagrees with the full node (it would no longer be on the chain the factory extends).
async fn offer_mid(w: &mut World, out: &mut Out, b: &Block, plan: &BlockPlan, parent: &Block, pp: Option<&Block>, tampered: bool, full_accepted: bool, ctx: &serde_json::Value) {
    if !w.mid_alive {
        return;
    }
    if !w.mid_started {
        w.mid_started = true;
        let ok = matches!(guarded_async(w.mid.add_block(b.clone())).await.as_ref().map(add_result_class), Ok("added_lc"));
        let no_block_1 = w.mid.blockchain.blockring.get_longest_chain_block_hash_at_block_id(1).is_none();
        if !ok || !no_block_1 {
            w.mid_alive = false;
            out.count("blkmid:could-not-start");
        }
        return;
    }
    let acc = offer(w, out, b, plan, parent, pp, tampered, true, ctx).await;
    if acc != full_accepted {
        w.mid_alive = false;
        out.count("blkmid:verdict-differs-from-full-node");
    }
}

fn filler(r: &mut Rng, creator: u64, target: u64, kind: u64) -> (TxPlan, &'static str) {
    let sender = other_key(r, &[creator, 0]);
    match kind {
        // one valid hop sender → creator: work = fee
        0 => (TxPlan { sender, fee: target, path: PathSpec { hops: vec![HopSpec { from: sender, to: creator, sig: SigKind::Good }] } }, "valid-1hop"),
        // two valid hops: work = ceil(fee / 2)
        1 => {
            let m = other_key(r, &[creator, sender]);
            (
                TxPlan { sender, fee: target * 2, path: PathSpec { hops: vec![HopSpec { from: sender, to: m, sig: SigKind::Good }, HopSpec { from: m, to: creator, sig: SigKind::Good }] } },
                "valid-2hop",
            )
        }
        // first hop signed by a forwarding node, not the sender
        2 => {
            let m = other_key(r, &[creator, sender]);
            (TxPlan { sender, fee: target, path: PathSpec { hops: vec![HopSpec { from: m, to: creator, sig: SigKind::Good }] } }, "valid-forwarder")
        }
        // forged: the creator claims a hop `x → creator` it has no signature for
        3 => {
            let m = other_key(r, &[creator]);
            let sig = if r.coin(1, 2) { SigKind::Garbage } else { SigKind::WrongSigner(creator) };
            (TxPlan { sender, fee: target, path: PathSpec { hops: vec![HopSpec { from: m, to: creator, sig }] } }, "forged-1hop")
        }
        // self-hop in the middle: s→m, m→m, m→creator: counted work = ceil(fee / 4)
        _ => {
            let m = other_key(r, &[creator, sender]);
            (
                TxPlan {
                    sender,
                    fee: target * 4,
                    path: PathSpec {
                        hops: vec![
                            HopSpec { from: sender, to: m, sig: SigKind::Good },
                            HopSpec { from: m, to: m, sig: SigKind::Good },
                            HopSpec { from: m, to: creator, sig: SigKind::Good },
                        ],
                    },
                },
                "selfhop-3hop",
            )
        }
    }
}

/// work the NODE will count for a planned transaction (contiguous path ending at the creator, whatever the signatures)
fn planned_counted_work(tp: &TxPlan, creator: u64) -> u64 {
    let h = &tp.path.hops;
    if h.is_empty() || h.last().unwrap().to != creator || h.windows(2).any(|w| w[1].from != w[0].to) {
        return 0;
    }
    let k = (h.len() - 1) as u32;
    ((tp.fee as u128 + (1u128 << k) - 1) >> k) as u64
}

fn decorations(r: &mut Rng, creator: u64, max_fee: u64, n: u64, clean: bool) -> Vec<TxPlan> {
    (0..n)
        .map(|_| {
            let sender = other_key(r, &[0]);
            let fee = if r.coin(1, 5) { 0 } else { r.range(1, max_fee.max(1)) };
            let fv = r.coin(1, 3) || clean;
            TxPlan { sender, fee, path: gen_path(r, sender, creator, fv) }
        })
        .collect()
}

const ELAPSED: [i64; 16] = [1, 2, 3, 50, 99, 100, 101, 150, 198, 199, 200, 201, 400, 0, -1, -500];

/// plan a block whose counted work is `need + delta` (delta ∈ {−1, 0, +1, …}) at the given elapsed time
fn plan_test_block(r: &mut Rng, parent: &Block, elapsed: i64, mode: u64, filler_kind: u64, creator: u64, gt: Option<u64>, clean: bool) -> BlockPlan {
    let ts = (parent.timestamp as i64 + elapsed) as u64;
    let need = BurnFee::return_routing_work_needed_to_produce_block_in_nolan(parent.burnfee, ts, parent.timestamp, HB);
    let reachable = need < ISSUE / 8;
    let (target, mode_s): (u64, &'static str) = match mode {
        0 if need > 0 && reachable => (need - 1, "one-short"),
        1 if reachable => (need, "exact"),
        2 if reachable => (need + 1, "one-over"),
        3 => (0, "no-work"),
        4 if reachable => (need + r.range(2, 1_000_000), "well-over"),
        _ if reachable => (need / 2, "half"),
        _ => (r.range(0, 1000), "unreachable-requirement"),
    };
    let nd = r.below(3);
    let mut txs = decorations(r, creator, (target / 4).min(1_000_000), nd, clean);
    let mut counted: u64 = txs.iter().map(|t| planned_counted_work(t, creator)).sum();
    while counted > target {
        let t = txs.pop().unwrap();
        counted -= planned_counted_work(&t, creator);
    }
    let rest = target - counted;
    if rest > 0 {
        let (f, _) = filler(r, creator, rest, filler_kind);
        txs.push(f);
    }
    if txs.is_empty() && gt.is_none() {
        // a block needs at least one transaction
        let sender = other_key(r, &[0]);
        txs.push(TxPlan { sender, fee: 0, path: PathSpec::default() });
    }
    // seeded position of the filler among the decorations
    if txs.len() > 1 && r.coin(1, 2) {
        let l = txs.len();
        txs.swap(0, l - 1);
    }
    BlockPlan { creator, elapsed, gt, txs, mode: mode_s, gt_carries: None }
}

fn plan_json(p: &BlockPlan) -> serde_json::Value {
    serde_json::json!({
        "creator": p.creator, "elapsed": p.elapsed, "ticket": p.gt, "mode": p.mode, "ticket_is_tx": p.gt_carries,
        "txs": p.txs.iter().map(|t| format!("sender={} fee={} path={}", t.sender, t.fee,
            t.path.hops.iter().map(|h| format!("{}>{}:{:?}", h.from, h.to, h.sig)).collect::<Vec<_>>().join(","))).collect::<Vec<_>>(),
    })
}

/// one chain G → [A0] → A → B → C; B is the block under test, A/A0 fix the burn fee and the fees to pay out
/// `clean`: every path other than the filler's is valid (witness / calibration cases)
async fn chain_case(seed: u64, idx: u64, out: &mut Out, forced: Option<(i64, u64, u64)>, forced_tamper: Option<u64>, clean: bool) {
    let mut r = Rng::new(seed ^ idx.wrapping_mul(0x9E37_79B9_7F4A_7C15) ^ 0xC08);
    let gp = if r.coin(1, 2) { 10 } else { 100 };
    // how the fee transactions of the last block are tampered with (0 = not at all)
    let tamper = match forced_tamper {
        Some(t) => t,
        None => if r.coin(1, 3) { 1 + r.below(5) } else { 0 },
    };
    // a ticket-less last block must not fail the ticket-density rule instead: earlier blocks then all carry tickets
    let force_gt = tamper == 5;
    let (mut w, g) = World::new(seed.wrapping_add(idx), gp).await;
    let _ = guarded_async(w.node.add_block(g.clone())).await;
    let mut chain: Vec<Block> = vec![g];
    let mut plans = vec![];
    // prefix: one or two blocks with fee-paying transactions; elapsed above two heartbeats or short (the
    // genesis burn fee is 0, so the first block never needs work; the second needs 50_000_000 / elapsed)
    let prefix = if r.coin(1, 3) { 2 } else { 1 };
    for k in 0..prefix {
        let parent = chain.last().unwrap().clone();
        let creator = 1 + r.below(NKEYS - 1);
        let gt = if r.coin(1, 2) || force_gt { Some(1 + r.below(NKEYS - 1)) } else { None };
        let big = prefix == 2 && k == 0;
        let mut plan = if k == 0 {
            let nd = r.range(1, 4);
            let mut txs = decorations(&mut r, creator, if big { 100_000_000_000 } else { 5_000_000 }, nd, clean);
            if txs.iter().all(|t| t.fee == 0) {
                txs[0].fee = 1 + r.below(1000);
            }
            BlockPlan { creator, elapsed: *r.pick(&[201i64, 250, 1000, 150, 30]), gt, txs, mode: "prefix", gt_carries: None }
        } else {
            let e = *r.pick(&[201i64, 260, 1, 10, 100, 199]);
            let mut p = plan_test_block(&mut r, &parent, e, 2, 0, creator, gt, clean);
            let nd = r.below(3);
            p.txs.extend(decorations(&mut r, creator, 1_000_000, nd, clean));
            p.mode = "prefix";
            p
        };
        let b = match w.build(&mut r, &parent, &mut plan, 10 * k as u8).await {
            Some(b) => b,
            None => {
                out.count("blk:factory-could-not-build");
                return;
            }
        };
        let pp = if chain.len() >= 2 { Some(chain[chain.len() - 2].clone()) } else { None };
        let ctx = serde_json::json!({"seed": seed, "case": idx, "block": format!("prefix{}", k), "plan": plan_json(&plan)});
        if !offer(&mut w, out, &b, &plan, &parent, pp.as_ref(), false, false, &ctx).await {
            out.count("blk:prefix-rejected");
            return;
        }
        offer_mid(&mut w, out, &b, &plan, &parent, pp.as_ref(), false, true, &ctx).await;
        chain.push(b);
        plans.push(plan);
    }
    // B: the block under test
    let parent = chain.last().unwrap().clone();
    let (elapsed, mode, fk) = forced.unwrap_or_else(|| (*r.pick(&ELAPSED), r.below(6), if r.coin(1, 2) { 0 } else { r.below(5) }));
    let creator = 1 + r.below(NKEYS - 1);
    let gt = if r.coin(1, 2) || force_gt { Some(1 + r.below(NKEYS - 1)) } else { None };
    let mut plan = plan_test_block(&mut r, &parent, elapsed, mode, fk, creator, gt, clean);
    if plan.gt.is_some() && !plan.txs.is_empty() && forced.is_none() && r.coin(1, 3) {
        // the transaction that carries most of the planned fees doubles as the block's golden ticket
        let i = (0..plan.txs.len()).max_by_key(|i| (plan.txs[*i].fee, *i)).unwrap();
        plan.gt_carries = Some(i);
        out.count("blk:ticket-carries-fee-and-path");
    }
    let ctx = serde_json::json!({"seed": seed, "case": idx, "block": "B", "plans": plans.iter().map(plan_json).collect::<Vec<_>>(), "plan": plan_json(&plan)});
    let pp = chain[chain.len() - 2].clone();
    let accepted_b = match w.build(&mut r, &parent, &mut plan, 100).await {
        Some(b) => {
            let acc = offer(&mut w, out, &b, &plan, &parent, Some(&pp), false, false, &ctx).await;
            offer_mid(&mut w, out, &b, &plan, &parent, Some(&pp), false, acc, &ctx).await;
            if acc {
                chain.push(b);
            }
            acc
        }
        None => {
            out.count("blk:factory-could-not-build");
            false
        }
    };
    let _ = accepted_b;
    // C: a ticket block on the tip, past two heartbeats: pays the tip (and the block before it if the tip has no ticket)
    let parent = chain.last().unwrap().clone();
    let pp = chain[chain.len() - 2].clone();
    let creator = 1 + r.below(NKEYS - 1);
    let e = *r.pick(&[201i64, 300, 5000]);
    let nd = r.below(2);
    let mode = ["payout", "payout-tampered-key", "payout-tampered-amount", "payout-second-fee-tx", "payout-fee-tx-removed", "fee-tx-without-ticket"][tamper as usize];
    let gt = if tamper == 5 { None } else { Some(1 + r.below(NKEYS - 1)) };
    let mut txs = decorations(&mut r, creator, 1000, nd, clean);
    if gt.is_none() && txs.is_empty() {
        txs = decorations(&mut r, creator, 1000, 1, clean);
    }
    let mut plan = BlockPlan { creator, elapsed: e, gt, txs, mode, gt_carries: None };
    let ctx = serde_json::json!({"seed": seed, "case": idx, "block": "C", "plan": plan_json(&plan)});
    if let Some(mut b) = w.build(&mut r, &parent, &mut plan, 200).await {
        let mut tampered = false;
        if tamper > 0 {
            use saito_core::core::consensus::slip::{Slip, SlipType};
            let outsider = key(50).0;
            let fi = b.transactions.iter().position(|t| t.transaction_type == TransactionType::Fee);
            let forged_fee = |r: &mut Rng, ts: u64| {
                let mut t = Transaction::default();
                t.transaction_type = TransactionType::Fee;
                t.timestamp = ts;
                let mut s = Slip::default();
                s.public_key = outsider;
                s.amount = 1 + r.below(1_000_000);
                s.slip_type = SlipType::RouterOutput;
                t.to.push(s);
                t.data = vec![0xF0];
                t
            };
            match (tamper, fi) {
                (1, Some(i)) if !b.transactions[i].to.is_empty() => {
                    b.transactions[i].to[0].public_key = outsider;
                    b.transactions[i].sign(&w.keys.sk[creator as usize]);
                    tampered = true;
                }
                (2, Some(i)) if !b.transactions[i].to.is_empty() => {
                    b.transactions[i].to[0].amount += 1;
                    b.transactions[i].sign(&w.keys.sk[creator as usize]);
                    tampered = true;
                }
                (3, Some(_)) => {
                    // a second, forged fee transaction in front of the legitimate one
                    let mut t = forged_fee(&mut r, b.timestamp);
                    t.sign(&w.keys.sk[creator as usize]);
                    b.transactions.insert(1, t);
                    tampered = true;
                }
                (4, Some(i)) => {
                    b.transactions.remove(i);
                    tampered = true;
                }
                (5, None) => {
                    // no ticket, yet a fee transaction
                    let mut t = forged_fee(&mut r, b.timestamp);
                    t.sign(&w.keys.sk[creator as usize]);
                    b.transactions.push(t);
                    tampered = true;
                }
                _ => {}
            }
            if tampered {
                let ok = b.generate().is_ok();
                b.merkle_root = b.generate_merkle_root(false, false);
                w.f.resign(&mut b, creator);
                let ok2 = b.generate().is_ok();
                if !(ok && ok2) {
                    out.count("blk:tamper-could-not-regenerate");
                    return;
                }
            } else {
                plan.mode = "payout";
            }
        }
        let acc = offer(&mut w, out, &b, &plan, &parent, Some(&pp), tampered, false, &ctx).await;
        offer_mid(&mut w, out, &b, &plan, &parent, Some(&pp), tampered, acc, &ctx).await;
    } else {
        out.count("blk:factory-could-not-build");
    }
}

/// flags of the tree under test, measured by replaying the witnesses on the real code:
///  txv  = 1 iff a block whose only routing work comes through a forged hop signature is rejected
///  feex = 1 iff a block with a second (forged) fee transaction AND a block with a fee transaction but no golden
///         ticket are both rejected
pub fn calibrate(outdir: &str) -> String {
    let rt = rt();
    let mut probe = Out::new(&format!("{}/calibrate", outdir));
    rt.block_on(chain_case(4242, 0, &mut probe, Some((100, 1, 3)), Some(0), true));
    let accepted = probe.hist.get("blk:mode:exact:accepted").copied().unwrap_or(0) > 0;
    let rejected = probe.hist.get("blk:mode:exact:rejected").copied().unwrap_or(0) > 0;
    let txv = rejected && !accepted;
    rt.block_on(chain_case(4243, 0, &mut probe, Some((201, 2, 0)), Some(3), true));
    rt.block_on(chain_case(4244, 0, &mut probe, Some((201, 2, 0)), Some(5), true));
    let feex = probe.hist.get("blk:mode:payout-second-fee-tx:rejected").copied().unwrap_or(0) > 0
        && probe.hist.get("blk:mode:fee-tx-without-ticket:rejected").copied().unwrap_or(0) > 0;
    format!("txv={} feex={}", txv as u8, feex as u8)
}

pub fn run(seed: u64, tier: &str, outdir: &str) {
    let thorough = tier == "thorough";
    let flags = calibrate(outdir);
    let mut out = Out::new(outdir);
    out.setup(&format!("flags {}", flags));
    out.count(&format!("flags:{}", flags));
    let mut r = Rng::new(seed ^ 0xC08C08);
    let mut keys = Keys::new();
    corpus_part(&mut r, &mut out, &mut keys);
    burnfee_part(&mut r, &mut out, thorough);
    tx_part(&mut r, &mut out, &mut keys, thorough);
    let rt = rt();
    // witnesses of the listed defect first: work carried only by a forged hop signature / through a self-hop
    rt.block_on(chain_case(seed, 1_000_001, &mut out, Some((100, 1, 3)), Some(0), true));
    rt.block_on(chain_case(seed, 1_000_002, &mut out, Some((100, 1, 4)), Some(0), true));
    //   … a forged fee transaction next to the legitimate one / without any golden ticket
    rt.block_on(chain_case(seed, 1_000_003, &mut out, Some((201, 2, 0)), Some(3), true));
    rt.block_on(chain_case(seed, 1_000_004, &mut out, Some((201, 2, 0)), Some(5), true));
    // systematic: every elapsed value × every mode × filler kinds
    let mut idx = 0u64;
    for (ei, &e) in ELAPSED.iter().enumerate() {
        for mode in 0..6u64 {
            let kinds: Vec<u64> = if thorough { vec![0, 1, 2, 3, 4] } else { vec![(ei as u64 + mode) % 5, (ei as u64 + mode + 3) % 5] };
            for fk in kinds {
                rt.block_on(chain_case(seed, idx, &mut out, Some((e, mode, fk)), None, idx % 3 == 0));
                idx += 1;
            }
        }
    }
    for _ in 0..(if thorough { 1500 } else { 400 }) {
        rt.block_on(chain_case(seed, idx, &mut out, None, None, idx % 4 == 0));
        idx += 1;
    }
    out.finish(serde_json::json!({"chain_cases": idx + 2, "flags": flags}));
}
