//! Shared pieces of the correspondence harness: PRNG, output files, panic capture.
use std::collections::BTreeMap;
use std::fs::File;
use std::io::{BufWriter, Write};
use std::panic::{self, AssertUnwindSafe};

/// xorshift64* — every random choice of a run derives from one seed, so `(seed, case)` replays exactly.
pub struct Rng(pub u64);
impl Rng {
    pub fn new(seed: u64) -> Rng {
        Rng(seed.wrapping_mul(0x9E3779B97F4A7C15) ^ 0xD1B54A32D192ED03 | 1)
    }
    pub fn next(&mut self) -> u64 {
        let mut x = self.0;
        x ^= x >> 12;
        x ^= x << 25;
        x ^= x >> 27;
        self.0 = x;
        x.wrapping_mul(0x2545F4914F6CDD1D)
    }
    pub fn below(&mut self, n: u64) -> u64 {
        if n == 0 {
            0
        } else {
            self.next() % n
        }
    }
    pub fn range(&mut self, lo: u64, hi: u64) -> u64 {
        lo + self.below(hi - lo + 1)
    }
    pub fn coin(&mut self, num: u64, den: u64) -> bool {
        self.below(den) < num
    }
    pub fn bytes(&mut self, n: usize) -> Vec<u8> {
        (0..n).map(|_| self.next() as u8).collect()
    }
    pub fn pick<'a, T>(&mut self, v: &'a [T]) -> &'a T {
        &v[self.below(v.len() as u64) as usize]
    }
    /// integers that exercise field boundaries
    pub fn edge_u64(&mut self) -> u64 {
        match self.below(10) {
            0 => 0,
            1 => 1,
            2 => u32::MAX as u64,
            3 => 1u64 << 63,
            4 => u64::MAX,
            5 => u64::MAX - 1,
            6 => self.below(1000),
            _ => self.next(),
        }
    }
}

pub fn hex(b: &[u8]) -> String {
    if b.is_empty() {
        "-".to_string()
    } else {
        hex::encode(b)
    }
}

/// Output of one harness run: the op lines for the Lean driver, the implementation's answer per line,
/// and statistics (distribution of inputs, branch/outcome histogram, samples) for the evidence file.
pub struct Out {
    ops: BufWriter<File>,
    imp: BufWriter<File>,
    pub n: u64,
    pub hist: BTreeMap<String, u64>,
    pub samples: Vec<String>,
    pub monitor_failures: Vec<serde_json::Value>,
    pub distinct: std::collections::HashSet<u64>,
    dir: String,
}
impl Out {
    pub fn new(dir: &str) -> Out {
        std::fs::create_dir_all(dir).unwrap();
        Out {
            ops: BufWriter::new(File::create(format!("{}/ops.txt", dir)).unwrap()),
            imp: BufWriter::new(File::create(format!("{}/impl.txt", dir)).unwrap()),
            n: 0,
            hist: BTreeMap::new(),
            samples: vec![],
            monitor_failures: vec![],
            distinct: Default::default(),
            dir: dir.to_string(),
        }
    }
    /// one request for the model and what the implementation answered
    pub fn case(&mut self, op: &str, imp: &str) {
        writeln!(self.ops, "{}", op).unwrap();
        writeln!(self.imp, "{}", imp).unwrap();
        self.n += 1;
        let mut h = std::collections::hash_map::DefaultHasher::new();
        std::hash::Hash::hash(op, &mut h);
        self.distinct.insert(std::hash::Hasher::finish(&h));
        if self.samples.len() < 6 && (self.n % 97 == 1) {
            let mut s = format!("{} => {}", op, imp);
            if s.len() > 400 {
                s.truncate(400);
                s.push_str("…");
            }
            self.samples.push(s);
        }
    }
    /// a line for the driver that has no implementation counterpart to compare (state set-up)
    pub fn setup(&mut self, op: &str) {
        writeln!(self.ops, "{}", op).unwrap();
        writeln!(self.imp, "-").unwrap();
    }
    pub fn count(&mut self, key: &str) {
        *self.hist.entry(key.to_string()).or_insert(0) += 1;
    }
    pub fn monitor_fail(&mut self, key: &str, what: &str, replay: serde_json::Value) {
        self.count(&format!("monitor_fail:{}", key));
        // keep the first three examples of every key (never let a frequent key crowd out a rare one)
        let seen = self.monitor_failures.iter().filter(|m| m["key"] == key).count();
        if seen < 3 && self.monitor_failures.len() < 2000 {
            self.monitor_failures
                .push(serde_json::json!({"key": key, "what": what, "replay": replay}));
        }
    }
    pub fn finish(mut self, extra: serde_json::Value) {
        self.ops.flush().unwrap();
        self.imp.flush().unwrap();
        let stats = serde_json::json!({
            "cases": self.n,
            "distinct_ops": self.distinct.len(),
            "hist": self.hist,
            "samples": self.samples,
            "monitor_failures": self.monitor_failures,
            "extra": extra,
        });
        std::fs::write(
            format!("{}/stats.json", self.dir),
            serde_json::to_string_pretty(&stats).unwrap(),
        )
        .unwrap();
    }
}

/// run `f` catching a Rust panic; the default hook is silenced once at start-up
pub fn guarded<T>(f: impl FnOnce() -> T) -> Result<T, String> {
    match panic::catch_unwind(AssertUnwindSafe(f)) {
        Ok(v) => Ok(v),
        Err(e) => Err(if let Some(s) = e.downcast_ref::<&str>() {
            s.to_string()
        } else if let Some(s) = e.downcast_ref::<String>() {
            s.clone()
        } else {
            "panic".to_string()
        }),
    }
}

pub fn quiet_panics() {
    // VERIF_LOUD=1: keep the default hook (panic messages with their location), for looking at a replay by hand
    if std::env::var("VERIF_LOUD").is_ok() {
        return;
    }
    panic::set_hook(Box::new(|_| {}));
}

/// root of the verification tree (set by ./check; default /verif)
pub fn verif_root() -> String {
    std::env::var("VERIF_ROOT").unwrap_or_else(|_| "/verif".to_string())
}

/// await a future catching a Rust panic inside it
pub async fn guarded_async<T>(f: impl std::future::Future<Output = T>) -> Result<T, String> {
    use std::task::Poll;
    let mut f = Box::pin(f);
    std::future::poll_fn(move |cx| {
        let r = panic::catch_unwind(AssertUnwindSafe(|| f.as_mut().poll(cx)));
        match r {
            Ok(Poll::Ready(v)) => Poll::Ready(Ok(v)),
            Ok(Poll::Pending) => Poll::Pending,
            Err(e) => Poll::Ready(Err(if let Some(s) = e.downcast_ref::<&str>() {
                s.to_string()
            } else if let Some(s) = e.downcast_ref::<String>() {
                s.clone()
            } else {
                "panic".to_string()
            })),
        }
    })
    .await
}

/// Supervisor for suites whose real-code calls can kill the process (allocation abort) or never return:
/// the cases run in a child process (`<exe> <worker_suite> <seed> <tier> <start index>`) that streams tagged lines
/// (`C\t<idx>` next case index, `S\t<setup line>`, `O\t<op>`, `I\t<answer>`, `H\t<hist key>`, `M\t<key>\t<what>\t<json>`,
/// `E\t<n>` end). Silence for `stall_ms` inside a case or the death of the child becomes the answer returned by
/// `on_fail(op, died)` = (answer, finding key, what); the worker is restarted at the next index.
pub fn supervise(
    out: &mut Out,
    worker_suite: &str,
    seed: u64,
    tier: &str,
    stall_ms: u64,
    max_failures: usize,
    on_fail: &dyn Fn(&str, bool) -> (String, String, String),
) -> usize {
    use std::io::{BufRead, BufReader};
    use std::process::{Command, Stdio};
    use std::sync::mpsc;
    use std::time::Duration;
    let exe = std::env::current_exe().unwrap();
    let mut start = 0usize;
    let mut failures = 0usize;
    'outer: loop {
        let mut child = Command::new(&exe)
            .args([worker_suite, &seed.to_string(), tier, &start.to_string()])
            .stdout(Stdio::piped())
            .stderr(Stdio::null())
            .spawn()
            .unwrap();
        let stdout = child.stdout.take().unwrap();
        let (tx, rx) = mpsc::channel::<String>();
        std::thread::spawn(move || {
            for l in BufReader::new(stdout).lines() {
                if let Ok(l) = l {
                    if tx.send(l).is_err() {
                        break;
                    }
                }
            }
        });
        let mut cur = start;
        let mut pending: Option<String> = None;
        loop {
            let wait = if pending.is_some() { stall_ms } else { 300_000 };
            let r = rx.recv_timeout(Duration::from_millis(wait));
            match r {
                Ok(l) => {
                    let (tag, rest) = l.split_once('\t').unwrap_or((&l, ""));
                    match tag {
                        "C" => cur = rest.parse().unwrap_or(cur),
                        "S" => out.setup(rest),
                        "O" => pending = Some(rest.to_string()),
                        "I" => {
                            if let Some(op) = pending.take() {
                                out.case(&op, rest);
                            }
                        }
                        "H" => out.count(rest),
                        "M" => {
                            let p: Vec<&str> = rest.splitn(3, '\t').collect();
                            if p.len() == 3 {
                                out.monitor_fail(p[0], p[1], serde_json::from_str(p[2]).unwrap_or(serde_json::Value::Null));
                            }
                        }
                        "E" => {
                            let _ = child.wait();
                            break 'outer;
                        }
                        _ => {}
                    }
                }
                Err(e) => {
                    let died = matches!(e, mpsc::RecvTimeoutError::Disconnected);
                    let _ = child.kill();
                    let _ = child.wait();
                    if let Some(op) = pending.take() {
                        let (ans, key, what) = on_fail(&op, died);
                        out.case(&op, &ans);
                        let short = if op.len() > 3000 { format!("{}…", &op[..3000]) } else { op.clone() };
                        out.monitor_fail(&key, &what, serde_json::json!({"case_index": cur, "seed": seed, "tier": tier, "op": short}));
                    } else {
                        out.count("worker-ended-outside-a-case");
                        if died && start == cur {
                            // no progress at all: give up rather than loop
                            out.count("worker-makes-no-progress");
                            break 'outer;
                        }
                    }
                    failures += 1;
                    start = cur + 1;
                    if failures > max_failures {
                        out.count("too-many-worker-failures-stopped-early");
                        break 'outer;
                    }
                    continue 'outer;
                }
            }
        }
    }
    failures
}
