//! C02 correspondence: token supply.
//! (a) per transaction: real `Transaction::generate_total_fees` + `Transaction::validate` on amount vectors that
//!     include 0, 1, 2^63, 2^64-1, in whatever profile this binary was built with (dev: overflow panics,
//!     prodlike: overflow wraps) against `Saito.Supply.txEval`;
//! (b) per history: two real nodes, each an HONEST producer on its own tip (`Block::create` on the node's own
//!     blockchain/storage, so automatic rebroadcast happens once the window wraps), exchanging blocks (forks and
//!     reorganisations); every accounting field of every produced block is diffed against `Saito.Supply.account`,
//!     and after every accepted block the node's supply is recomputed in u128 (in-window spendable outputs + the
//!     tip's treasury, graveyard, unpaid and collected fees) and compared with the genesis issuance (direct
//!     monitor) and with the model's `Nat` value.
//! Histories run in a child process (`supply-worker`): a call that does not return becomes `stall`.
use crate::chain::Ids;
use crate::common::*;
use crate::node::*;
use saito_core::core::consensus::block::Block;
use saito_core::core::consensus::golden_ticket::GoldenTicket;
use saito_core::core::consensus::slip::{Slip, SlipType};
use saito_core::core::consensus::transaction::{Transaction, TransactionType};
use saito_core::core::defs::{SaitoHash, SaitoPublicKey, SaitoSignature, UtxoSet};
use saito_core::core::util::crypto::hash;
use std::collections::{HashMap, HashSet};
use std::io::{BufRead, BufReader, Write};
use std::process::{Command, Stdio};
use std::sync::mpsc;
use std::time::Duration;

pub const HEARTBEAT: u64 = 100;
pub const NKEYS: u64 = 6;
const M64: u128 = 1u128 << 64;

fn list64(v: &[u64]) -> String {
    if v.is_empty() {
        "-".into()
    } else {
        v.iter().map(|x| x.to_string()).collect::<Vec<_>>().join(",")
    }
}

// ------------------------------------------------------------------------------------------------ (a) transactions

/// a signed Normal transaction whose input / output slips carry the given amounts (distinct utxo keys)
pub fn build_tx(ins: &[u64], outs: &[u64]) -> Transaction {
    let mut tx = Transaction::default();
    tx.transaction_type = TransactionType::Normal;
    tx.timestamp = 1_700_000_000_000;
    for (i, a) in ins.iter().enumerate() {
        let mut s = Slip::default();
        s.public_key = key(1).0;
        s.amount = *a;
        s.block_id = 1;
        s.tx_ordinal = i as u64 + 1;
        s.slip_index = i as u8;
        s.slip_type = SlipType::Normal;
        tx.from.push(s);
    }
    for a in outs {
        let mut s = Slip::default();
        s.public_key = key(2).0;
        s.amount = *a;
        s.slip_type = SlipType::Normal;
        tx.to.push(s);
    }
    tx.sign(&key(1).1);
    tx
}

pub struct TxObs {
    pub answer: String,
    pub accepted: bool,
    pub fees: u64,
    pub panicked: bool,
}

/// the real `generate_total_fees` then the real `validate` (against a utxo set holding exactly the inputs)
pub fn eval_tx(ins: &[u64], outs: &[u64], node: &Node) -> TxObs {
    let mut tx = build_tx(ins, outs);
    let r = guarded(move || {
        tx.generate_total_fees(1, 2);
        tx
    });
    let tx = match r {
        Ok(t) => t,
        Err(_) => return TxObs { answer: "panic".into(), accepted: false, fees: 0, panicked: true },
    };
    let mut utxo: UtxoSet = Default::default();
    for s in &tx.from {
        if s.amount > 0 {
            utxo.insert(s.utxoset_key, true);
        }
    }
    let v = guarded(|| tx.validate(&utxo, &node.blockchain, true));
    match v {
        Ok(acc) => TxObs {
            answer: format!("in={} out={} fees={} acc={}", tx.total_in, tx.total_out, tx.total_fees, acc as u8),
            accepted: acc,
            fees: tx.total_fees,
            panicked: false,
        },
        Err(_) => TxObs { answer: "panic".into(), accepted: false, fees: 0, panicked: true },
    }
}

fn sum128(v: &[u64]) -> u128 {
    v.iter().map(|x| *x as u128).sum()
}

/// measured defect flags of the tree / profile under test: `sums` (repaired?), `ovf` (wrap / panic), `mz`
pub fn calibrate() -> String {
    let node = Node::new(9, Cfg::new(5, HEARTBEAT, 50));
    let w = eval_tx(&[1], &[u64::MAX, 2], &node);
    // control: an overflowing sum of plain u64s in THIS crate (same profile as saito-core in this build)
    let (sums, ovf) = if w.panicked {
        (0, "panic")
    } else if w.accepted {
        (0, "wrap")
    } else if w.answer.starts_with("in=1 out=1 ") {
        // wrapped totals but rejected for another reason: still the pinned arithmetic
        (0, "wrap")
    } else {
        (1, "wrap")
    };
    let mz = rt().block_on(async { measure_miner_zero().await });
    let atrcap = rt().block_on(async { measure_atr_cap().await });
    format!("sums={} ovf={} mz={} atrcap={}", sums, ovf, mz, atrcap)
}

// ------------------------------------------------------------------------------------------------ (b) histories

#[derive(Clone, Debug)]
pub struct HistSpec {
    pub kind: &'static str, // honest | mint | zero-miner | small-amounts
    pub gp: u64,
    pub len: usize,
    pub seed: u64,
    pub stake: u64,
}

pub struct Sim {
    pub gp: u64,
    pub nodes: Vec<Node>,
    pub seen: Vec<HashSet<SaitoHash>>,
    pub blocks: HashMap<SaitoHash, Block>,
    pub ids: Ids,
    pub issued: u128,
    pub rng: Rng,
    /// features of the history (computed by the harness alone) that explain a supply change
    pub f_wrapped: bool,
    pub f_zero_miner: bool,
    pub f_atr_mult: bool,
    pub dead: Vec<bool>,
    pub last_own: String,
    /// social stake requirement (0 = staking off)
    pub stake: u64,
    /// the next produced block gets this accounting field falsified (re-signed) and is offered to the OTHER node
    pub tamper_next: Option<usize>,
}

pub const TAMPER_FIELDS: [&str; 14] = [
    "treasury+1", "treasury-1", "graveyard+1", "graveyard-1", "previous_block_unpaid+1", "total_fees+1", "total_fees_new+1", "total_fees_atr+1",
    "total_payout_mining+1", "total_payout_routing+1", "total_payout_treasury+1", "total_payout_graveyard+1", "total_payout_atr+1", "fee-tx-output+1",
];

/// falsify one accounting field of an honest block (the creator re-signs it); false if the field cannot be changed here
fn tamper(b: &mut Block, f: usize) -> bool {
    match TAMPER_FIELDS[f] {
        "treasury+1" => b.treasury = b.treasury.wrapping_add(1),
        "treasury-1" => {
            if b.treasury == 0 {
                return false;
            }
            b.treasury -= 1
        }
        "graveyard+1" => b.graveyard = b.graveyard.wrapping_add(1),
        "graveyard-1" => {
            if b.graveyard == 0 {
                return false;
            }
            b.graveyard -= 1
        }
        "previous_block_unpaid+1" => b.previous_block_unpaid = b.previous_block_unpaid.wrapping_add(1),
        "total_fees+1" => b.total_fees = b.total_fees.wrapping_add(1),
        "total_fees_new+1" => b.total_fees_new = b.total_fees_new.wrapping_add(1),
        "total_fees_atr+1" => b.total_fees_atr = b.total_fees_atr.wrapping_add(1),
        "total_payout_mining+1" => b.total_payout_mining = b.total_payout_mining.wrapping_add(1),
        "total_payout_routing+1" => b.total_payout_routing = b.total_payout_routing.wrapping_add(1),
        "total_payout_treasury+1" => b.total_payout_treasury = b.total_payout_treasury.wrapping_add(1),
        "total_payout_graveyard+1" => b.total_payout_graveyard = b.total_payout_graveyard.wrapping_add(1),
        "total_payout_atr+1" => b.total_payout_atr = b.total_payout_atr.wrapping_add(1),
        _ => {
            // one more unit for the first output of the fee transaction
            let ft = b.transactions.iter_mut().find(|t| t.transaction_type == TransactionType::Fee && !t.to.is_empty());
            match ft {
                Some(t) => t.to[0].amount = t.to[0].amount.wrapping_add(1),
                None => return false,
            }
        }
    }
    true
}

fn gt_tx(rng: &mut Rng, parent: &Block, gt_pk: SaitoPublicKey, signer: u64) -> Transaction {
    loop {
        let random: SaitoHash = hash(&rng.bytes(32));
        let gt = GoldenTicket::create(parent.hash, random, gt_pk);
        if gt.validate(parent.difficulty) {
            let mut tx = Transaction::default();
            tx.transaction_type = TransactionType::GoldenTicket;
            tx.timestamp = 1_700_000_000_000;
            tx.data = gt.serialize_for_net();
            let mut input = Slip::default();
            input.public_key = key(signer).0;
            input.amount = 0;
            let mut output = Slip::default();
            output.public_key = key(signer).0;
            output.amount = 0;
            tx.add_from_slip(input);
            tx.add_to_slip(output);
            tx.sign(&key(signer).1);
            return tx;
        }
    }
}

/// `Block::create` on the node's OWN blockchain and storage (what a producing node does)
async fn create_on(node: &Node, parent_hash: SaitoHash, ts: u64, creator: u64, txs: Vec<Transaction>, gt: Option<Transaction>) -> Result<Block, String> {
    let (pk, sk) = key(creator);
    let mut map: ahash::AHashMap<SaitoSignature, Transaction> = Default::default();
    for t in txs {
        // dev profile: `generate_total_fees` panics on an overflowing amount vector
        let t = guarded(move || {
            let mut t = t;
            t.generate(&pk, 0, 0);
            t
        })
        .map_err(|p| format!("panic:{}", p))?;
        map.insert(t.signature, t);
    }
    let gt = gt.map(|mut g| {
        g.generate(&pk, 0, 0);
        g
    });
    let r = guarded_async(Block::create(&mut map, parent_hash, &node.blockchain, ts, &pk, &sk, gt, &node.cfg, &node.storage)).await;
    match r {
        Ok(Ok(mut b)) => {
            b.generate().map_err(|e| e.to_string())?;
            Ok(b)
        }
        Ok(Err(e)) => Err(format!("err:{}", e)),
        Err(p) => Err(format!("panic:{}", p)),
    }
}

/// what a HOSTILE producer can do: the steps of `Block::create` (block.rs:585-876) on the node's own chain, with every
/// consensus value computed by the real `generate_consensus_values`, but WITHOUT the producer-side guard that refuses
/// to emit a block in which one output is consumed twice. The transactions are kept in the given order.
async fn create_hostile(node: &Node, parent: &Block, ts: u64, creator: u64, txs: Vec<Transaction>, gt: Option<Transaction>) -> Result<Block, String> {
    let (pk, sk) = key(creator);
    let mut block = Block::new();
    block.id = parent.id + 1;
    block.previous_block_hash = parent.hash;
    block.timestamp = ts;
    block.creator = pk;
    block.previous_block_unpaid = if gt.is_some() { 0 } else { parent.total_fees };
    if let Some(mut g) = gt {
        g.generate(&pk, 0, 0);
        block.transactions.push(g);
    }
    for t in txs {
        let t = guarded(move || {
            let mut t = t;
            t.generate(&pk, 0, 0);
            t
        })
        .map_err(|p| format!("panic:{}", p))?;
        block.transactions.push(t);
    }
    let cv = guarded_async(block.generate_consensus_values(&node.blockchain, &node.storage, &node.cfg)).await.map_err(|p| format!("panic:{}", p))?;
    let mut cv = cv;
    block.cv = cv.clone();
    block.total_fees_new = cv.total_fees_new;
    block.total_fees_atr = cv.total_fees_atr;
    block.total_fees_cumulative = cv.total_fees_cumulative;
    block.total_fees = block.total_fees_new.wrapping_add(block.total_fees_atr);
    block.avg_total_fees = cv.avg_total_fees;
    block.avg_total_fees_new = cv.avg_total_fees_new;
    block.avg_total_fees_atr = cv.avg_total_fees_atr;
    block.total_payout_routing = cv.total_payout_routing;
    block.total_payout_mining = cv.total_payout_mining;
    block.total_payout_treasury = cv.total_payout_treasury;
    block.total_payout_graveyard = cv.total_payout_graveyard;
    block.total_payout_atr = cv.total_payout_atr;
    block.avg_payout_routing = cv.avg_payout_routing;
    block.avg_payout_mining = cv.avg_payout_mining;
    block.avg_payout_treasury = cv.avg_payout_treasury;
    block.avg_payout_graveyard = cv.avg_payout_graveyard;
    block.avg_payout_atr = cv.avg_payout_atr;
    block.avg_fee_per_byte = cv.avg_fee_per_byte;
    block.fee_per_byte = cv.fee_per_byte;
    block.avg_nolan_rebroadcast_per_block = cv.avg_nolan_rebroadcast_per_block;
    block.burnfee = cv.burnfee;
    block.difficulty = cv.difficulty;
    block.treasury = parent.treasury.wrapping_add(cv.total_payout_treasury).wrapping_sub(cv.total_payout_atr);
    block.graveyard = parent.graveyard.wrapping_add(cv.total_payout_graveyard);
    let bid = block.id;
    for (index, tx) in cv.rebroadcasts.iter_mut().enumerate() {
        tx.generate(&pk, index as u64, bid);
    }
    block.transactions.append(&mut cv.rebroadcasts);
    if let Some(mut fee_tx) = cv.fee_transaction.take() {
        fee_tx.hash_for_signature = Some(hash(&fee_tx.serialize_for_signature()));
        fee_tx.sign(&sk);
        block.add_transaction(fee_tx);
    }
    block.merkle_root = block.generate_merkle_root(false, false);
    block.generate_pre_hash();
    block.sign(&sk);
    // the wire form is what a peer receives (nothing computed on the producer's side survives)
    let bytes = block.serialize_for_net(saito_core::core::consensus::block::BlockType::Full);
    let mut b = Block::deserialize_from_net(&bytes).map_err(|e| format!("err:{}", e))?;
    b.generate_pre_hash();
    b.generate_hash();
    Ok(b)
}

pub const HOSTILE_FORK: [&str; 2] = ["second-block-spends-never-created-output", "second-block-spends-output-spent-below-fork-point"];
pub const HOSTILE: [&str; 3] = ["control", "output-spent-by-two-transactions", "output-spent-by-transaction-and-rebroadcast"];

/// in-window spendable value, number of such outputs, and the supply of the node, all in u128
pub fn node_supply(n: &Node, gp: u64) -> Option<(u128, usize, u128)> {
    let tip = n.blockchain.get_latest_block()?;
    let lo = tip.id.saturating_sub(gp);
    let mut sum: u128 = 0;
    let mut cnt = 0usize;
    for (k, v) in n.blockchain.utxoset.iter() {
        if !*v {
            continue;
        }
        if let Ok(s) = Slip::parse_slip_from_utxokey(k) {
            if s.slip_type == SlipType::Bound || s.block_id < lo {
                continue;
            }
            sum += s.amount as u128;
            cnt += 1;
        }
    }
    let supply = sum + tip.treasury as u128 + tip.graveyard as u128 + tip.previous_block_unpaid as u128 + tip.total_fees as u128;
    Some((sum, cnt, supply))
}

fn cap_of(parent: &Block) -> u64 {
    (parent.avg_total_fees as f64 * 1.5) as u64
}

impl Sim {
    pub async fn new(gp: u64, seed: u64, issue: &[(u64, u64)], emit: &mut dyn FnMut(&str, &str)) -> Sim {
        let cfg = Cfg::new(gp, HEARTBEAT, 50);
        let mut f = Factory::new(seed, cfg.clone());
        let genesis = f.make_genesis(issue).await;
        let mut sim = Sim {
            gp,
            // wallet keys 11 / 12 never receive anything (the wallet's own balance arithmetic is not under test here)
            nodes: vec![Node::new(11, cfg.clone()), Node::new(12, cfg.clone())],
            seen: vec![HashSet::new(), HashSet::new()],
            blocks: HashMap::new(),
            ids: Ids::default(),
            issued: issue.iter().map(|x| x.1 as u128).sum(),
            rng: Rng::new(seed ^ 0x5EED),
            f_wrapped: false,
            f_zero_miner: false,
            f_atr_mult: false,
            dead: vec![false, false],
            last_own: String::new(),
            stake: 0,
            tamper_next: None,
        };
        // genesis line for the model
        let mut outs = vec![];
        for tx in &genesis.transactions {
            for s in tx.to.iter().filter(|s| s.amount > 0) {
                outs.push(format!("{}:{}", sim.ids.k(&s.utxoset_key), s.amount));
            }
        }
        let gh = sim.ids.h(&genesis.hash);
        sim.blocks.insert(genesis.hash, genesis.clone());
        let op = format!("genesis {} {} {}", gp, gh, if outs.is_empty() { "-".to_string() } else { outs.join(",") });
        for i in 0..2 {
            let r = guarded_async(sim.nodes[i].add_block(genesis.clone())).await;
            sim.seen[i].insert(genesis.hash);
            if r.is_err() {
                sim.dead[i] = true;
            }
        }
        let ans = match node_supply(&sim.nodes[0], gp) {
            Some((s, c, sup)) => format!("inwin={}/{} supply={}", s, c, sup),
            None => "no-tip".into(),
        };
        emit("O", &op);
        emit("I", &ans);
        sim
    }

    fn chain_of(&self, tip: &SaitoHash) -> Vec<SaitoHash> {
        let mut v = vec![];
        let mut h = *tip;
        while let Some(b) = self.blocks.get(&h) {
            v.push(h);
            if b.previous_block_hash == [0; 32] {
                break;
            }
            h = b.previous_block_hash;
        }
        v.reverse();
        v
    }

    fn ancestor_at(&self, tip: &SaitoHash, id: u64) -> Option<&Block> {
        let mut h = *tip;
        while let Some(b) = self.blocks.get(&h) {
            if b.id == id {
                return Some(b);
            }
            if b.id < id || b.previous_block_hash == [0; 32] {
                return None;
            }
            h = b.previous_block_hash;
        }
        None
    }

    /// ticket density as `is_golden_ticket_count_valid_` wants it for a block on `parent`
    fn density_ok(&self, parent: &SaitoHash, has_gt: bool) -> bool {
        let mut found = 0u64;
        let mut depth = 0u64;
        let mut h = *parent;
        for _ in 0..5 {
            match self.blocks.get(&h) {
                Some(b) => {
                    depth += 1;
                    if b.has_golden_ticket {
                        found += 1;
                    }
                    h = b.previous_block_hash;
                }
                None => break,
            }
        }
        let required = 2u64.saturating_sub(6u64.saturating_sub(depth + 1));
        if has_gt {
            found += 1;
        }
        found >= required
    }

    /// the request line for the model and the real block's own accounting fields
    fn blk_lines(&mut self, b: &Block) -> (String, String) {
        let parent = self.blocks.get(&b.previous_block_hash).cloned().expect("parent known");
        let pp = self.blocks.get(&parent.previous_block_hash).cloned();
        let (mut mz, mut r1z, mut r2z) = (false, false, false);
        if b.has_golden_ticket {
            if let Some(gtx) = b.transactions.iter().find(|t| t.transaction_type == TransactionType::GoldenTicket) {
                if gtx.data.len() == 97 {
                    let random: SaitoHash = gtx.data[32..64].try_into().unwrap();
                    let pk: SaitoPublicKey = gtx.data[64..97].try_into().unwrap();
                    mz = pk == [0; 33];
                    let mut next = hash(random.as_ref());
                    let p2 = parent.clone();
                    r1z = guarded(move || p2.find_winning_router(next)).map(|k| k == [0; 33]).unwrap_or(true);
                    next = hash(next.as_ref());
                    next = hash(next.as_ref());
                    if !parent.has_golden_ticket {
                        if let Some(ppb) = pp.clone() {
                            r2z = guarded(move || ppb.find_winning_router(next)).map(|k| k == [0; 33]).unwrap_or(true);
                        }
                    }
                }
            }
        }
        let mut txs = vec![];
        for tx in &b.transactions {
            if tx.transaction_type == TransactionType::Normal || tx.transaction_type == TransactionType::GoldenTicket || tx.transaction_type == TransactionType::BlockStake {
                let i: Vec<String> = tx.from.iter().filter(|s| s.amount > 0).map(|s| format!("{}:{}:{}", self.ids.k(&s.utxoset_key), s.amount, s.block_id)).collect();
                let o: Vec<String> = tx.to.iter().filter(|s| s.amount > 0).map(|s| format!("{}:{}", self.ids.k(&s.utxoset_key), s.amount)).collect();
                if i.is_empty() && o.is_empty() {
                    continue;
                }
                let j = |v: Vec<String>| if v.is_empty() { "-".to_string() } else { v.join(",") };
                txs.push(format!("{}/{}", j(i), j(o)));
            }
        }
        // rebroadcast oracle: fee per output of the block that leaves the window, keys of the rebroadcast outputs
        let mut atrfee = vec![];
        let mut atrout = vec![];
        if b.id > self.gp + 1 {
            if let Some(pruned) = self.ancestor_at(&b.previous_block_hash, b.id - self.gp - 1).cloned() {
                for tx in &pruned.transactions {
                    let fee = (tx.get_serialized_size() as u64).wrapping_mul(parent.avg_fee_per_byte);
                    for s in tx.to.iter().filter(|s| s.amount > 0) {
                        atrfee.push(format!("{}:{}", self.ids.k(&s.utxoset_key), fee));
                    }
                }
                for tx in b.transactions.iter().filter(|t| t.transaction_type == TransactionType::ATR) {
                    if let (Some(f), Some(t)) = (tx.from.first(), tx.to.first()) {
                        // the original output: same owner / block / ordinal / index (its amount may differ when the multiplier is above one)
                        let src = pruned.transactions.iter().flat_map(|x| x.to.iter()).find(|s| {
                            s.public_key == f.public_key && s.block_id == f.block_id && s.tx_ordinal == f.tx_ordinal && s.slip_index == f.slip_index
                        });
                        if let Some(src) = src {
                            atrout.push(format!("{}:{}", self.ids.k(&src.utxoset_key), self.ids.k(&t.utxoset_key)));
                        }
                    }
                }
            }
        }
        let mut feekeys = vec![];
        let mut feeouts = vec![];
        for tx in b.transactions.iter().filter(|t| t.transaction_type == TransactionType::Fee) {
            for s in tx.to.iter().filter(|s| s.amount > 0) {
                feekeys.push(self.ids.k(&s.utxoset_key).to_string());
                feeouts.push(s.amount);
            }
        }
        let atrouts: Vec<u64> = b
            .transactions
            .iter()
            .filter(|t| t.transaction_type == TransactionType::ATR)
            .flat_map(|t| t.to.iter().filter(|s| s.amount > 0).map(|s| s.amount))
            .collect();
        let j = |v: Vec<String>, sep: &str| if v.is_empty() { "-".to_string() } else { v.join(sep) };
        let op = format!(
            "blk {} {} gt={} mz={} r1z={} r2z={} cap={} txs={} atrfee={} atrout={} feekeys={}",
            self.ids.h(&b.hash),
            self.ids.h(&b.previous_block_hash),
            b.has_golden_ticket as u8,
            mz as u8,
            r1z as u8,
            r2z as u8,
            cap_of(&parent),
            j(txs, ";"),
            j(atrfee, ","),
            j(atrout, ","),
            j(feekeys, ",")
        );
        let l = |v: &[u64]| format!("[{}]", v.iter().map(|x| x.to_string()).collect::<Vec<_>>().join(","));
        let ans = format!(
            "id={} gt={} feesnew={} feesatr={} fees={} unpaid={} mining={} routing={} ptreas={} pgrave={} patr={} treasury={} graveyard={} avgfees={} avgnr={} feeouts={} atrouts={}",
            b.id,
            b.has_golden_ticket as u8,
            b.total_fees_new,
            b.total_fees_atr,
            b.total_fees,
            b.previous_block_unpaid,
            b.total_payout_mining,
            b.total_payout_routing,
            b.total_payout_treasury,
            b.total_payout_graveyard,
            b.total_payout_atr,
            b.treasury,
            b.graveyard,
            b.avg_total_fees,
            b.avg_nolan_rebroadcast_per_block,
            l(&feeouts),
            l(&atrouts)
        );
        (op, ans)
    }

    fn cause(&self) -> &'static str {
        if self.f_wrapped {
            "chain-holds-tx-with-wrapped-output-sum"
        } else if self.f_zero_miner {
            "chain-holds-ticket-with-all-zero-miner-key"
        } else if self.f_atr_mult {
            "chain-holds-rebroadcast-with-multiplier-above-one"
        } else {
            "honest-history"
        }
    }

    /// deliver one block to node `n`, then evaluate the supply monitors; returns the result class
    async fn deliver(&mut self, n: usize, h: &SaitoHash, emit: &mut dyn FnMut(&str, &str), ctx: &serde_json::Value) -> String {
        if self.dead[n] {
            return "dead".into();
        }
        let b = self.blocks.get(h).unwrap().clone();
        self.seen[n].insert(*h);
        let before_tip = self.nodes[n].tip().map(|t| t.1);
        let r = guarded_async(self.nodes[n].add_block(b.clone())).await;
        let (cls, panic_msg) = match &r {
            Ok(r) => (add_result_class(r).to_string(), String::new()),
            Err(m) => ("panic".to_string(), m.replace('\t', " ").replace('\n', " ")),
        };
        emit("H", &format!("add:{}", cls));
        let hid = self.ids.h(h);
        let replay = serde_json::json!({"history": ctx, "node": n, "block": hid, "block_id": b.id});
        if cls == "panic" {
            self.dead[n] = true;
            let site = if panic_msg.contains("invalid total supply") { "check_total_supply" } else { "other" };
            emit("H", &format!("add-panic:{}", site));
            if site == "check_total_supply" {
                emit("M", &format!("C02/supply-changed/{}\tthe node's own check_total_supply found a different supply after accepting block {} and panicked\t{}", self.cause(), b.id, replay));
            } else {
                emit("M", &format!("C11/add_block-panics/{}\t{}\t{}", site, panic_msg, replay));
            }
        }
        // u128 supply of the real node whenever the tip moved (also after a caught panic: the block is already wound)
        // (also when the tip did not move: a rejected block or a side block must leave the supply where it was)
        let after_tip = self.nodes[n].tip().map(|t| t.1);
        if after_tip.is_some() {
            let th = after_tip.unwrap();
            if let Some((s, c, sup)) = node_supply(&self.nodes[n], self.gp) {
                if cls != "panic" {
                    emit("O", &format!("tip {}", self.ids.h(&th)));
                    emit("I", &format!("inwin={}/{} supply={}", s, c, sup));
                }
                if sup != self.issued {
                    let dir = if sup > self.issued { format!("+{}", sup - self.issued) } else { format!("-{}", self.issued - sup) };
                    emit("M", &format!("C02/supply-changed/{}\tsupply of the node is {} after block {} but {} was issued (change {}; u128 arithmetic)\t{}", self.cause(), sup, b.id, self.issued, dir, replay));
                    emit("H", "supply:changed");
                } else {
                    emit("H", "supply:equal-to-issuance");
                }
            }
            if after_tip != before_tip && before_tip.is_some() && Some(b.previous_block_hash) != before_tip && cls == "added_lc" {
                emit("H", "reorg");
            }
        }
        cls
    }

    /// all blocks of `src`'s chain that `dst` has not seen, oldest first
    async fn sync(&mut self, dst: usize, src: usize, emit: &mut dyn FnMut(&str, &str), ctx: &serde_json::Value) {
        let tip = match self.nodes[src].tip() {
            Some(t) => t.1,
            None => return,
        };
        let chain = self.chain_of(&tip);
        for h in chain {
            if !self.seen[dst].contains(&h) {
                self.deliver(dst, &h, emit, ctx).await;
            }
        }
    }

    /// spendable outputs of node `n` that stay inside the window when block `newid` becomes the tip
    fn spendable(&self, n: usize, newid: u64) -> Vec<Utxo> {
        let owner = owner_lookup(NKEYS);
        let mut v: Vec<Utxo> = vec![];
        let mut ks: Vec<_> = self.nodes[n].blockchain.utxoset.iter().filter(|(_, v)| **v).map(|(k, _)| *k).collect();
        ks.sort();
        for k in ks {
            if let Ok(s) = Slip::parse_slip_from_utxokey(&k) {
                if s.slip_type == SlipType::Bound || s.slip_type == SlipType::BlockStake || s.amount == 0 {
                    continue;
                }
                if s.block_id + self.gp < newid {
                    continue;
                }
                if let Some(o) = owner(&s.public_key) {
                    v.push(Utxo { slip: s, owner: o });
                }
            }
        }
        // an order that does not depend on the (hash-map) order of transactions inside a block
        v.sort_by_key(|u| (u.slip.block_id, u.slip.amount, u.owner, u.slip.slip_index, u.slip.tx_ordinal));
        v
    }

    pub fn set_stake(&mut self, r: u64, period: u64) {
        self.stake = r;
        for n in self.nodes.iter_mut() {
            n.blockchain.social_stake_requirement = r;
            n.blockchain.social_stake_period = period;
        }
    }

    /// the one BlockStake transaction a block needs when staking is on: Normal outputs of one owner in, a BlockStake
    /// output of exactly the requirement plus Normal change out (nothing is paid as a fee)
    fn stake_tx(&mut self, n: usize, newid: u64) -> Option<(Transaction, Vec<Utxo>)> {
        let avail = self.spendable(n, newid);
        for owner in 1..NKEYS {
            let mut mine: Vec<Utxo> = avail.iter().filter(|u| u.owner == owner).cloned().collect();
            mine.sort_by_key(|u| std::cmp::Reverse(u.slip.amount));
            let mut inputs = vec![];
            let mut got: u128 = 0;
            for u in mine {
                if got >= self.stake as u128 || inputs.len() >= 4 {
                    break;
                }
                got += u.slip.amount as u128;
                inputs.push(u);
            }
            if got >= self.stake as u128 && got <= u64::MAX as u128 {
                let mut tx = Transaction::default();
                tx.transaction_type = TransactionType::BlockStake;
                tx.timestamp = 1_700_000_000_000 + newid;
                for u in &inputs {
                    tx.from.push(u.slip.clone());
                }
                let mut st = Slip::default();
                st.public_key = key(owner).0;
                st.amount = self.stake;
                st.slip_type = SlipType::BlockStake;
                tx.to.push(st);
                let change = got as u64 - self.stake;
                if change > 0 {
                    let mut c = Slip::default();
                    c.public_key = key(owner).0;
                    c.amount = change;
                    c.slip_type = SlipType::Normal;
                    tx.to.push(c);
                }
                tx.sign(&key(owner).1);
                return Some((tx, inputs));
            }
        }
        None
    }

    fn make_value_tx(&mut self, inputs: Vec<Utxo>, outputs: Vec<(u64, u64)>, tag: u64) -> Transaction {
        let mut tx = Transaction::default();
        tx.transaction_type = TransactionType::Normal;
        tx.timestamp = 1_700_000_000_000 + tag;
        for u in &inputs {
            tx.from.push(u.slip.clone());
        }
        for (k, amt) in &outputs {
            let mut s = Slip::default();
            s.public_key = key(*k).0;
            s.amount = *amt;
            s.slip_type = SlipType::Normal;
            tx.to.push(s);
        }
        tx.data = tag.to_be_bytes().to_vec();
        let signer = inputs.first().map(|u| u.owner).unwrap_or(0);
        tx.sign(&key(signer).1);
        tx
    }

    /// honest random transactions for a block `newid` of node `n`: each spends 1-2 outputs of ONE owner
    fn random_txs(&mut self, n: usize, newid: u64, fee_profile: u8, exclude: &HashSet<[u8; 59]>) -> Vec<Transaction> {
        let mut avail: Vec<Utxo> = self.spendable(n, newid).into_iter().filter(|u| !exclude.contains(&u.slip.utxoset_key)).collect();
        let mut txs = vec![];
        let ntx = self.rng.below(4);
        for t in 0..ntx {
            if avail.is_empty() {
                break;
            }
            let i = self.rng.below(avail.len() as u64) as usize;
            let first = avail.remove(i);
            let mut inputs = vec![first.clone()];
            if self.rng.coin(1, 3) {
                if let Some(j) = avail.iter().position(|u| u.owner == first.owner) {
                    inputs.push(avail.remove(j));
                }
            }
            let tin: u128 = inputs.iter().map(|u| u.slip.amount as u128).sum();
            if tin > u64::MAX as u128 {
                continue;
            }
            let tin = tin as u64;
            // fee: none / small / a large share / everything
            let fee = match (fee_profile, self.rng.below(6)) {
                (_, 0) => 0,
                (0, 1) | (0, 2) => self.rng.below(50).min(tin),
                (0, 3) | (0, 4) => self.rng.range(200, 5000).min(tin),
                (0, _) => tin / self.rng.range(2, 10),
                (2, _) => self.rng.range(20, 150).min(tin),
                (_, 1) | (_, 2) => self.rng.range(200, 3000).min(tin),
                (_, 3) => tin,
                (_, _) => tin / self.rng.range(1, 4),
            };
            let rest = tin - fee;
            let mut outputs = vec![];
            if rest > 0 {
                let nout = self.rng.range(1, 3);
                let mut left = rest;
                for o in 0..nout {
                    let a = if o == nout - 1 { left } else { self.rng.below(left + 1) };
                    left -= a;
                    outputs.push((self.rng.range(1, NKEYS - 1), a));
                }
            } else {
                outputs.push((self.rng.range(1, NKEYS - 1), 0));
            }
            let tag = newid * 1000 + t * 10 + n as u64;
            txs.push(self.make_value_tx(inputs, outputs, tag));
        }
        txs
    }

    /// last step of a history: node 0 acts as a hostile producer (`create_hostile`) and offers the block to node 1.
    /// The theorems assume that the inputs consumed by one block are pairwise distinct (`Honest.insDistinct`); this is
    /// the validation side of that hypothesis: a block consuming one output twice must not be accepted.
    async fn hostile(&mut self, variant: usize, emit: &mut dyn FnMut(&str, &str), ctx: &serde_json::Value) {
        let name = HOSTILE[variant];
        if self.dead[0] || self.dead[1] {
            return;
        }
        let parent = match self.nodes[0].blockchain.get_latest_block() {
            Some(p) => p.clone(),
            None => return,
        };
        let newid = parent.id + 1;
        let avail = self.spendable(0, newid);
        let mut txs = vec![];
        let mut target: Option<[u8; 59]> = None;
        match name {
            "control" => {
                if let Some(u) = avail.iter().find(|u| u.slip.block_id + self.gp >= newid).cloned() {
                    let (o, a) = (u.owner, u.slip.amount);
                    txs.push(self.make_value_tx(vec![u], vec![(o, a)], newid * 1000 + 901));
                }
            }
            "output-spent-by-two-transactions" => {
                if let Some(u) = avail.iter().find(|u| u.slip.block_id + self.gp >= newid).cloned() {
                    let (o, a) = (u.owner, u.slip.amount);
                    target = Some(u.slip.utxoset_key);
                    txs.push(self.make_value_tx(vec![u.clone()], vec![(o, a)], newid * 1000 + 902));
                    txs.push(self.make_value_tx(vec![u], vec![((o % (NKEYS - 1)) + 1, a)], newid * 1000 + 903));
                }
            }
            _ => {
                // an output that leaves the window with this block (block.rs:1477: the pruned block is newid - gp - 1 ... its
                // unspent outputs are rebroadcast by consensus), largest first so that it is not collected as dust
                let mut old: Vec<Utxo> = self.all_unspent(0).into_iter().filter(|u| u.slip.block_id + self.gp + 1 == newid).collect();
                old.sort_by_key(|u| std::cmp::Reverse(u.slip.amount));
                if let Some(u) = old.first().cloned() {
                    let (o, a) = (u.owner, u.slip.amount);
                    target = Some(u.slip.utxoset_key);
                    txs.push(self.make_value_tx(vec![u], vec![((o % (NKEYS - 1)) + 1, a)], newid * 1000 + 904));
                }
            }
        }
        if txs.is_empty() {
            emit("H", &format!("hostile:{}:not-applicable", name));
            return;
        }
        if self.stake > 0 {
            // the block must carry its BlockStake transaction, funded by outputs the other transactions do not touch
            let used: HashSet<[u8; 59]> = txs.iter().flat_map(|t| t.from.iter().map(|s| s.utxoset_key)).collect();
            let saved = self.stake;
            let mut found = None;
            let avail2: Vec<Utxo> = avail.iter().filter(|u| !used.contains(&u.slip.utxoset_key)).cloned().collect();
            for owner in 1..NKEYS {
                let mut mine: Vec<Utxo> = avail2.iter().filter(|u| u.owner == owner).cloned().collect();
                mine.sort_by_key(|u| std::cmp::Reverse(u.slip.amount));
                if let Some(u) = mine.first() {
                    if u.slip.amount >= saved {
                        found = Some(u.clone());
                        break;
                    }
                }
            }
            match found {
                Some(u) => {
                    let mut tx = Transaction::default();
                    tx.transaction_type = TransactionType::BlockStake;
                    tx.timestamp = 1_700_000_000_000 + newid;
                    tx.from.push(u.slip.clone());
                    let mut st = Slip::default();
                    st.public_key = key(u.owner).0;
                    st.amount = saved;
                    st.slip_type = SlipType::BlockStake;
                    tx.to.push(st);
                    if u.slip.amount > saved {
                        let mut c = Slip::default();
                        c.public_key = key(u.owner).0;
                        c.amount = u.slip.amount - saved;
                        c.slip_type = SlipType::Normal;
                        tx.to.push(c);
                    }
                    tx.sign(&key(u.owner).1);
                    txs.push(tx);
                }
                None => {
                    emit("H", &format!("hostile:{}:not-applicable", name));
                    return;
                }
            }
        }
        let want_gt = !self.density_ok(&parent.hash, false);
        let gt = if want_gt { Some(gt_tx(&mut self.rng, &parent, key(3).0, 3)) } else { None };
        let b = match create_hostile(&self.nodes[0], &parent, parent.timestamp + 260, 1, txs, gt).await {
            Ok(b) => b,
            Err(e) => {
                emit("H", &format!("hostile:{}:create-{}", name, if e.starts_with("panic") { "panic" } else { "error" }));
                return;
            }
        };
        if let Some(k) = target {
            let spenders = b.transactions.iter().filter(|t| t.from.iter().any(|s| s.get_utxoset_key() == k)).count();
            if spenders < 2 {
                emit("H", &format!("hostile:{}:not-applicable", name));
                return;
            }
        }
        let r = guarded_async(self.nodes[1].add_block(b.clone())).await;
        let cls = match &r {
            Ok(r) => add_result_class(r).to_string(),
            Err(_) => "panic".to_string(),
        };
        emit("H", &format!("hostile:{}:{}", name, cls));
        if name != "control" {
            let on_chain = self.nodes[1].blockchain.blocks.contains_key(&b.hash);
            if cls == "added_lc" || cls == "added_side" || (cls == "panic" && on_chain) {
                let sup = node_supply(&self.nodes[1], self.gp).map(|x| x.2);
                emit("M", &format!("C02/block-consuming-one-output-twice-accepted/{}\tthe node accepted ({}) block {} in which one output is consumed twice; supply now {:?}, issued {}\t{}", name, cls, b.id, sup, self.issued, serde_json::json!({"history": ctx, "block_id": b.id, "variant": name})));
            }
        }
        self.dead[1] = true;
    }

    /// A hostile fork of two blocks against a node whose own chain is one block shorter than the fork: node 0 extends the
    /// common tip by block A; node 1 extends it by the honest block B1 and a hostile producer puts B2 on B1, whose only
    /// user transaction spends an output that does not exist (never created, or spent below the fork point). Node 0 is
    /// given B1 (side block) and B2 (the fork is longer: A is unwound, B1 wound, B2 fails, B1 unwound, A wound back).
    /// The supply and the spendable outputs of node 0 must be what they were.
    async fn hostile_fork(&mut self, variant: usize, emit: &mut dyn FnMut(&str, &str), ctx: &serde_json::Value) {
        let name = HOSTILE_FORK[variant];
        if self.dead[0] || self.dead[1] || self.stake > 0 {
            emit("H", &format!("hostile-fork:{}:not-applicable", name));
            return;
        }
        let tip0 = self.nodes[0].tip().map(|t| t.1);
        if tip0.is_none() || tip0 != self.nodes[1].tip().map(|t| t.1) {
            emit("H", &format!("hostile-fork:{}:not-applicable", name));
            return;
        }
        // an input that cannot be spent on the fork
        let common = self.nodes[0].blockchain.get_latest_block().unwrap().clone();
        let fake: Option<Utxo> = match name {
            "second-block-spends-never-created-output" => {
                let mut sl = Slip::default();
                sl.public_key = key(2).0;
                sl.amount = 777_000 + common.id;
                sl.block_id = common.id; // inside the window
                sl.tx_ordinal = 250;
                sl.slip_index = 0;
                sl.slip_type = SlipType::Normal;
                sl.utxoset_key = sl.get_utxoset_key();
                Some(Utxo { slip: sl, owner: 2 })
            }
            _ => {
                // an output consumed by a transaction of the common chain, inside the window
                let mut found = None;
                for h in self.chain_of(&common.hash) {
                    let b = &self.blocks[&h];
                    if b.id + self.gp <= common.id + 2 {
                        continue;
                    }
                    for t in b.transactions.iter().filter(|t| t.transaction_type == TransactionType::Normal) {
                        if let Some(sl) = t.from.iter().find(|sl| sl.amount > 0 && sl.slip_type == SlipType::Normal && sl.block_id + self.gp > common.id + 2) {
                            let o = (1..NKEYS).find(|k| key(*k).0 == sl.public_key);
                            if let Some(o) = o {
                                let mut sl = sl.clone();
                                sl.utxoset_key = sl.get_utxoset_key();
                                found = Some(Utxo { slip: sl, owner: o });
                            }
                        }
                    }
                }
                found
            }
        };
        let Some(fake) = fake else {
            emit("H", &format!("hostile-fork:{}:not-applicable", name));
            return;
        };
        if self.nodes[0].blockchain.utxoset.get(&fake.slip.utxoset_key).copied().unwrap_or(false) {
            emit("H", &format!("hostile-fork:{}:not-applicable", name));
            return;
        }
        let a = self.produce(0, Some(false), None, false, 0, 260, emit, ctx).await;
        let b1 = self.produce(1, Some(true), None, false, 0, 300, emit, ctx).await;
        let (Some(_a), Some(b1)) = (a, b1) else {
            emit("H", &format!("hostile-fork:{}:not-applicable", name));
            return;
        };
        if self.last_own != "added_lc" || self.nodes[0].tip().map(|t| t.0) != Some(common.id + 1) {
            emit("H", &format!("hostile-fork:{}:not-applicable", name));
            return;
        }
        let parent = self.blocks[&b1].clone();
        let (o, amt) = (fake.owner, fake.slip.amount);
        let tx = self.make_value_tx(vec![fake.clone()], vec![(o, amt)], (parent.id + 1) * 1000 + 905);
        let want_gt = !self.density_ok(&parent.hash, false);
        let gt = if want_gt { Some(gt_tx(&mut self.rng, &parent, key(3).0, 3)) } else { None };
        let b2 = match create_hostile(&self.nodes[1], &parent, parent.timestamp + 260, 2, vec![tx], gt).await {
            Ok(b) => b,
            Err(e) => {
                emit("H", &format!("hostile-fork:{}:create-{}", name, if e.starts_with("panic") { "panic" } else { "error" }));
                return;
            }
        };
        self.blocks.insert(b2.hash, b2.clone());
        let before = node_supply(&self.nodes[0], self.gp);
        let spendable_before: usize = self.nodes[0].blockchain.utxoset.iter().filter(|(_, v)| **v).count();
        let c1 = self.deliver(0, &b1, emit, ctx).await;
        let c2 = self.deliver(0, &b2.hash, emit, ctx).await;
        emit("H", &format!("hostile-fork:{}:{}+{}", name, c1, c2));
        if !self.dead[0] {
            let after = node_supply(&self.nodes[0], self.gp);
            let spendable_after: usize = self.nodes[0].blockchain.utxoset.iter().filter(|(_, v)| **v).count();
            let fake_spendable = self.nodes[0].blockchain.utxoset.get(&fake.slip.utxoset_key).copied().unwrap_or(false);
            let on_chain = self.nodes[0].tip().map(|t| t.1) == Some(b2.hash);
            if on_chain {
                emit("M", &format!("C02/block-spending-nonexistent-output-accepted/{}\tthe node moved its tip to a block (id {}) that spends an output which does not exist on that chain\t{}", name, b2.id, serde_json::json!({"history": ctx, "variant": name, "block_id": b2.id})));
            } else if before.map(|x| x.2) != after.map(|x| x.2) || spendable_before != spendable_after || fake_spendable {
                emit("M", &format!("C02/supply-changed-by-rejected-fork/{}\tafter a fork was rejected ({} then {}) the node's supply is {:?} (before: {:?}), spendable outputs {} (before: {}), the made-up input spendable: {}\t{}", name, c1, c2, after.map(|x| x.2), before.map(|x| x.2), spendable_after, spendable_before, fake_spendable, serde_json::json!({"history": ctx, "variant": name, "block_id": b2.id})));
            }
        }
        self.dead[0] = true;
    }

    /// every spendable value output of node `n`, in or out of the window
    fn all_unspent(&self, n: usize) -> Vec<Utxo> {
        let owner = owner_lookup(NKEYS);
        let mut v: Vec<Utxo> = vec![];
        let mut ks: Vec<_> = self.nodes[n].blockchain.utxoset.iter().filter(|(_, v)| **v).map(|(k, _)| *k).collect();
        ks.sort();
        for k in ks {
            if let Ok(s) = Slip::parse_slip_from_utxokey(&k) {
                if s.slip_type == SlipType::Bound || s.slip_type == SlipType::BlockStake || s.amount == 0 {
                    continue;
                }
                if let Some(o) = owner(&s.public_key) {
                    v.push(Utxo { slip: s, owner: o });
                }
            }
        }
        v
    }

    /// node `n` produces a block on its own tip and adds it to its own chain
    async fn produce(&mut self, n: usize, want_gt: Option<bool>, txs_override: Option<Vec<Transaction>>, gt_zero_key: bool, fee_profile: u8, dt: u64,
                     emit: &mut dyn FnMut(&str, &str), ctx: &serde_json::Value) -> Option<SaitoHash> {
        if self.dead[n] {
            return None;
        }
        let parent = self.nodes[n].blockchain.get_latest_block()?.clone();
        let newid = parent.id + 1;
        let mut exclude: HashSet<[u8; 59]> = HashSet::new();
        let mut stake_txs = vec![];
        if self.stake > 0 {
            match self.stake_tx(n, newid) {
                Some((tx, used)) => {
                    for u in used {
                        exclude.insert(u.slip.utxoset_key);
                    }
                    stake_txs.push(tx);
                    emit("H", "staking:block-with-stake-tx");
                }
                None => {
                    emit("H", "staking:no-funds-history-ends");
                    self.last_own = "invalid".into();
                    return None;
                }
            }
        }
        let mut txs = match txs_override {
            Some(t) => t,
            None => self.random_txs(n, newid, fee_profile, &exclude),
        };
        // ticket: random unless forced; respect the density rule; keep the difficulty low enough to mine quickly
        let mut gt = want_gt.unwrap_or_else(|| self.rng.coin(1, 2));
        if parent.difficulty >= 10 && want_gt.is_none() {
            gt = false;
        }
        if !self.density_ok(&parent.hash, gt) {
            gt = true;
        }
        if txs.is_empty() && !gt && stake_txs.is_empty() {
            // a block needs at least one transaction: a zero-fee self-payment if something is spendable, else a ticket
            let avail = self.spendable(n, newid);
            if let Some(u) = avail.first().cloned() {
                let amt = u.slip.amount;
                let owner = u.owner;
                txs.push(self.make_value_tx(vec![u], vec![(owner, amt)], newid * 1000 + 999));
            } else {
                gt = true;
            }
        }
        let miner = self.rng.range(1, NKEYS - 1);
        let gt_tx_opt = if gt {
            let pk = if gt_zero_key { [0u8; 33] } else { key(miner).0 };
            Some(gt_tx(&mut self.rng, &parent, pk, miner))
        } else {
            None
        };
        if gt {
            let pat = format!("pattern:prev={} this=gt", if parent.has_golden_ticket { "gt" } else { "nogt" });
            emit("H", &pat);
        } else {
            let pat = format!("pattern:prev={} this=nogt", if parent.has_golden_ticket { "gt" } else { "nogt" });
            emit("H", &pat);
        }
        txs.extend(stake_txs);
        let creator = n as u64 + 1;
        let b = match create_on(&self.nodes[n], parent.hash, parent.timestamp + dt, creator, txs, gt_tx_opt).await {
            Ok(b) => b,
            Err(e) => {
                let k = if e.starts_with("panic") { "create:panic" } else { "create:error" };
                emit("H", k);
                if std::env::var("VERIF_LOUD").is_ok() {
                    eprintln!("create failed: {}", e);
                }
                return None;
            }
        };
        if let Some(f) = self.tamper_next.take() {
            // validation side of the hypothesis "the block's accounting fields are the model's": a block whose field was
            // falsified by its (re-signing) creator must be rejected
            let mut b = b;
            if !tamper(&mut b, f) {
                emit("H", &format!("tamper:{}:not-applicable", TAMPER_FIELDS[f]));
                return None;
            }
            b.generate_pre_hash();
            b.sign(&key(creator).1);
            b.generate_hash();
            if b.generate().is_err() {
                return None;
            }
            let other = 1 - n;
            if self.dead[other] {
                return None;
            }
            let r = guarded_async(self.nodes[other].add_block(b.clone())).await;
            let cls = match &r {
                Ok(r) => add_result_class(r).to_string(),
                Err(_) => "panic".to_string(),
            };
            emit("H", &format!("tamper:{}:{}", TAMPER_FIELDS[f], cls));
            if cls == "added_lc" || cls == "added_side" {
                emit("M", &format!("C02/block-with-falsified-accounting-accepted/{}	the node accepted a block (id {}) whose header/fee-transaction field was falsified	{}", TAMPER_FIELDS[f], b.id, serde_json::json!({"history": ctx, "block_id": b.id, "field": TAMPER_FIELDS[f]})));
            }
            self.dead[other] = true; // a rejected block may leave traces (C04): the history ends here
            return None;
        }
        // what the harness knows about this block
        let m = atr_multiplier(self.gp, &parent);
        let natr = b.transactions.iter().filter(|t| t.transaction_type == TransactionType::ATR).count();
        if natr > 0 {
            emit("H", &format!("atr:multiplier={}", if m >= 2 { ">=2".to_string() } else { m.to_string() }));
            emit("H", "atr:block-with-rebroadcast");
        }
        if b.id > self.gp + 1 && b.total_fees_atr > 0 && natr == 0 {
            emit("H", "atr:dust-only");
        }
        if m >= 2 && b.id > self.gp + 1 {
            self.f_atr_mult = true;
        }
        if gt_zero_key && gt {
            self.f_zero_miner = true;
        }
        for tx in &b.transactions {
            if tx.transaction_type == TransactionType::Normal {
                let so: u128 = tx.to.iter().map(|s| s.amount as u128).sum();
                let si: u128 = tx.from.iter().map(|s| s.amount as u128).sum();
                if so >= M64 || si >= M64 {
                    self.f_wrapped = true;
                }
            }
        }
        self.blocks.insert(b.hash, b.clone());
        let (op, ans) = self.blk_lines(&b);
        emit("O", &op);
        emit("I", &ans);
        emit("H", &format!("gp:{}", self.gp));
        if b.total_payout_graveyard > 0 {
            emit("H", "payout:graveyard>0");
        }
        if b.total_payout_treasury > 0 {
            emit("H", "payout:treasury>0");
        }
        if b.total_payout_mining > 0 {
            emit("H", "payout:mining>0");
        }
        let h = b.hash;
        let cls = self.deliver(n, &h, emit, ctx).await;
        self.last_own = cls.clone();
        if cls != "added_lc" {
            emit("H", &format!("own-block-not-adopted:{}", cls));
            if cls == "invalid" {
                let feat = if m >= 2 && b.id > self.gp + 1 { "rebroadcast-multiplier-above-one" } else { "other" };
                emit("M", &format!("C07/own-block-rejected/{}\tthe node rejected the block it produced itself (id {})\t{}", feat, b.id, serde_json::json!({"history": ctx, "block_id": b.id})));
            }
        }
        Some(h)
    }
}

/// the multiplier as the code computes it (block.rs:1544: the product is a plain u64 multiplication)
pub fn atr_multiplier(gp: u64, parent: &Block) -> u64 {
    let staked = gp.wrapping_mul(parent.avg_nolan_rebroadcast_per_block);
    if staked > 0 {
        1 + parent.treasury / staked
    } else {
        1
    }
}

fn issuance_for(kind: &str, r: &mut Rng) -> Vec<(u64, u64)> {
    let mut v = vec![];
    match kind {
        "small-amounts" | "small-lowfee" => {
            for _ in 0..14 {
                v.push((r.range(1, NKEYS - 1), r.range(1, 40)));
            }
            for _ in 0..4 {
                v.push((r.range(1, NKEYS - 1), r.range(20_000, 90_000)));
            }
        }
        "big" => {
            // the whole u64 range is issued: 2^63 + (2^63 - 1 - rest) + rest = 2^64 - 1
            let mut rest = 0u64;
            for _ in 0..10 {
                let a = r.range(1_000, 5_000_000);
                rest += a;
                v.push((r.range(1, NKEYS - 1), a));
            }
            v.push((1, 1u64 << 63));
            v.push((2, (1u64 << 63) - 1 - rest));
        }
        _ => {
            for _ in 0..6 {
                v.push((r.range(1, NKEYS - 1), r.range(1_000_000, 900_000_000_000)));
            }
            for _ in 0..8 {
                v.push((r.range(1, NKEYS - 1), r.range(2_000, 400_000)));
            }
            for _ in 0..6 {
                v.push((r.range(1, NKEYS - 1), r.range(1, 600)));
            }
            v.push((1, 1));
            v.push((2, 0x7fff_ffff_ffff));
        }
    }
    v
}

/// one generated history; every line goes through `emit`
pub async fn run_history(spec: &HistSpec, index: usize, emit: &mut dyn FnMut(&str, &str)) {
    let mut r = Rng::new(spec.seed);
    let issue = if spec.kind == "atr-cap" { vec![(1, 100_000), (1, 10)] } else { issuance_for(if spec.kind == "honest" && r.coin(1, 5) { "big" } else { spec.kind }, &mut r) };
    let ctx = serde_json::json!({"kind": spec.kind, "gp": spec.gp, "len": spec.len, "seed": spec.seed, "stake": spec.stake});
    emit("S", "reset");
    let mut sim = Sim::new(spec.gp, spec.seed, &issue, emit).await;
    emit("H", &format!("history:{}{}", spec.kind, if spec.stake > 0 { "+staking" } else { "" }));
    if spec.stake > 0 {
        sim.set_stake(spec.stake, 3);
    }
    let dts = [201u64, 230, 260, 300, 400];
    match spec.kind {
        "mint" => {
            // block 2 carries a transaction spending the output of amount 1 into outputs [2^64-1, 2]
            let avail = sim.spendable(0, 2);
            let u = avail.iter().find(|u| u.slip.amount == 1).cloned();
            if let Some(u) = u {
                let owner = u.owner;
                let tx = sim.make_value_tx(vec![u], vec![(owner, u64::MAX), (owner, 2)], 77);
                sim.produce(0, Some(false), Some(vec![tx]), false, 0, 260, emit, &ctx).await;
                sim.sync(1, 0, emit, &ctx).await;
                // a further honest block on top (does the node keep running with the minted supply?)
                sim.produce(0, Some(true), None, false, 0, 260, emit, &ctx).await;
            } else {
                emit("H", "mint:no-unit-output");
            }
        }
        "atr-cap" => {
            atr_cap_script(&mut sim, emit, &ctx).await;
        }
        "zero-miner" => {
            // block 2: fees, no ticket needed; block 3: ticket whose public key is all-zero
            sim.produce(0, Some(false), None, false, 1, 260, emit, &ctx).await;
            sim.produce(0, Some(false), None, false, 1, 260, emit, &ctx).await;
            sim.produce(0, Some(true), None, true, 1, 260, emit, &ctx).await;
            sim.sync(1, 0, emit, &ctx).await;
        }
        _ => {
            let fee_profile = match spec.kind { "small-amounts" => 1, "small-lowfee" => 2, _ => 0 };
            let mut produced = 0usize;
            while produced < spec.len {
                if sim.dead[0] || sim.dead[1] {
                    emit("H", "history-ended:node-panicked");
                    break;
                }
                if sim.last_own == "invalid" {
                    // restriction: a producer whose own block is rejected (rebroadcast multiplier above one with a
                    // non-zero rebroadcast fee: producer and validator disagree) — the history stops here
                    emit("H", "history-ended:own-block-rejected");
                    break;
                }
                if r.coin(3, 4) {
                    // linear growth: one node produces, the other follows
                    let n = r.below(2) as usize;
                    let dt = *r.pick(&dts);
                    if sim.produce(n, None, None, false, fee_profile, dt, emit, &ctx).await.is_none() {
                        produced += 1;
                        continue;
                    }
                    produced += 1;
                    sim.sync(1 - n, n, emit, &ctx).await;
                } else {
                    // fork: A extends by a blocks, B (not having seen them) by a+1..a+2 blocks; then they exchange
                    let a = r.range(1, 2) as usize;
                    let bb = a + r.range(1, 2) as usize;
                    let (x, y) = if r.coin(1, 2) { (0, 1) } else { (1, 0) };
                    let dt = *r.pick(&dts);
                    for _ in 0..a {
                        sim.produce(x, None, None, false, fee_profile, dt, emit, &ctx).await;
                        produced += 1;
                    }
                    for _ in 0..bb {
                        sim.produce(y, None, None, false, fee_profile, dt, emit, &ctx).await;
                        produced += 1;
                    }
                    emit("H", "fork-episode");
                    sim.sync(x, y, emit, &ctx).await;
                    sim.sync(y, x, emit, &ctx).await;
                }
            }
            // last step: one falsified block (field chosen by the history index), offered to the other node
            if !sim.dead[0] && !sim.dead[1] && sim.last_own != "invalid" {
                let same_tip = sim.nodes[0].tip().map(|t| t.1) == sim.nodes[1].tip().map(|t| t.1);
                if same_tip {
                    let nh = HOSTILE.len() + HOSTILE_FORK.len();
                    let k = if spec.kind == "hostile" { TAMPER_FIELDS.len() + index % nh } else { index % (TAMPER_FIELDS.len() + 2 * nh) };
                    if k >= TAMPER_FIELDS.len() && (k - TAMPER_FIELDS.len()) % nh >= HOSTILE.len() {
                        sim.hostile_fork((k - TAMPER_FIELDS.len()) % nh - HOSTILE.len(), emit, &ctx).await;
                    } else if k < TAMPER_FIELDS.len() {
                        sim.tamper_next = Some(k);
                        sim.produce(0, Some(true), None, false, fee_profile, 260, emit, &ctx).await;
                    } else {
                        sim.hostile((k - TAMPER_FIELDS.len()) % nh, emit, &ctx).await;
                    }
                }
            }
        }
    }
}

/// scripted witness (gp = 5) of the rebroadcast-cap defect: treasury 50 at block 7, avg rebroadcast 2 → multiplier 6 at
/// block 8, which rebroadcasts an output of 20 (from block 2) with fee 0. Returns block 8 as created.
async fn atr_cap_script(sim: &mut Sim, emit: &mut dyn FnMut(&str, &str), ctx: &serde_json::Value) -> Option<Block> {
    let pick = |sim: &Sim, id: u64, amt: u64| sim.spendable(0, id).into_iter().find(|u| u.slip.amount == amt);
    let u = pick(sim, 2, 100_000)?;
    let tx = sim.make_value_tx(vec![u], vec![(1, 20), (1, 99_880)], 1);
    sim.produce(0, Some(false), Some(vec![tx]), false, 0, 260, emit, ctx).await?;
    let u = pick(sim, 3, 99_880)?;
    let tx = sim.make_value_tx(vec![u], vec![(1, 99_780)], 2);
    sim.produce(0, Some(false), Some(vec![tx]), false, 0, 260, emit, ctx).await?;
    for _ in 4..=7 {
        sim.produce(0, Some(true), Some(vec![]), false, 0, 260, emit, ctx).await?;
    }
    let h = sim.produce(0, Some(true), Some(vec![]), false, 0, 260, emit, ctx).await?;
    sim.sync(1, 0, emit, ctx).await;
    sim.blocks.get(&h).cloned()
}

/// flag `atrcap`: 0 = the pinned 5% branch (output = full payout, nothing charged to the treasury)
async fn measure_atr_cap() -> u8 {
    let mut sink = |_: &str, _: &str| {};
    let ctx = serde_json::Value::Null;
    let mut sim = Sim::new(5, 13, &[(1, 100_000), (1, 10)], &mut sink).await;
    match atr_cap_script(&mut sim, &mut sink, &ctx).await {
        Some(b) => {
            let outs: Vec<u64> = b.transactions.iter().filter(|t| t.transaction_type == TransactionType::ATR).flat_map(|t| t.to.iter().map(|s| s.amount)).collect();
            let pinned = b.id == 8 && outs == vec![120] && b.total_payout_atr == 0;
            (!pinned) as u8
        }
        None => 0,
    }
}

pub fn histories(seed: u64, tier: &str) -> Vec<HistSpec> {
    let thorough = tier == "thorough";
    let mut r = Rng::new(seed ^ 0xC02);
    let mut v = vec![];
    // witnesses of the listed defects first
    v.push(HistSpec { kind: "mint", gp: 5, len: 2, seed: 11, stake: 0 });
    v.push(HistSpec { kind: "zero-miner", gp: 5, len: 3, seed: 12, stake: 0 });
    v.push(HistSpec { kind: "atr-cap", gp: 5, len: 7, seed: 13, stake: 0 });
    let n = if thorough { 500 } else { 45 };
    for i in 0..n {
        let gp = [5u64, 8, 12][i % 3];
        let len = if thorough { r.range(30, 60) } else { r.range(24, 40) } as usize;
        // every third honest history runs with a social stake requirement (a BlockStake transaction in every block)
        let stake = if i % 3 == 1 { [500u64, 5000, 40_000][(i / 3) % 3] } else { 0 };
        v.push(HistSpec { kind: "honest", gp: [5u64, 8, 12][(i + i / 3) % 3], len, seed: r.next(), stake });
    }
    // short histories that end with a hostile producer's block (see `Sim::hostile`); the window has just wrapped, so
    // outputs of the first blocks are still unspent and due for rebroadcast
    let nh = if thorough { 240 } else { 36 };
    for i in 0..nh {
        let gp = [5u64, 8][i % 2];
        let stake = if i % 5 == 4 { 500 } else { 0 };
        v.push(HistSpec { kind: "hostile", gp, len: (gp + r.range(0, 5)) as usize, seed: r.next(), stake });
    }
    let n2 = if thorough { 60 } else { 6 };
    for i in 0..n2 {
        let gp = [5u64, 8, 12][i % 3];
        v.push(HistSpec { kind: "small-amounts", gp, len: if thorough { 40 } else { 24 }, seed: r.next(), stake: 0 });
    }
    for i in 0..n2 {
        let gp = [5u64, 8, 12][i % 3];
        v.push(HistSpec { kind: "small-lowfee", gp, len: if thorough { 40 } else { 24 }, seed: r.next(), stake: 0 });
    }
    v
}

/// flag `mz`: does a ticket with the all-zero key send the miner half to the graveyard (1) or drop it (0)?
async fn measure_miner_zero() -> u8 {
    let mut sink = |_: &str, _: &str| {};
    let mut r = Rng::new(5);
    let issue = issuance_for("honest", &mut r);
    let ctx = serde_json::Value::Null;
    let mut sim = Sim::new(5, 5, &issue, &mut sink).await;
    sim.produce(0, Some(false), None, false, 1, 260, &mut sink, &ctx).await;
    sim.produce(0, Some(false), None, false, 1, 260, &mut sink, &ctx).await;
    let p = match sim.nodes[0].blockchain.get_latest_block() {
        Some(b) => b.clone(),
        None => return 0,
    };
    let gt = gt_tx(&mut sim.rng, &p, [0u8; 33], 1);
    match create_on(&sim.nodes[0], p.hash, p.timestamp + 260, 1, vec![], Some(gt)).await {
        Ok(b) => {
            let paid: u128 = b.transactions.iter().filter(|t| t.transaction_type == TransactionType::Fee).flat_map(|t| t.to.iter()).map(|s| s.amount as u128).sum();
            let pp = sim.blocks.get(&p.previous_block_hash).map(|x| x.total_fees).unwrap_or(0);
            let dist = p.total_fees as u128 + if !p.has_golden_ticket { pp as u128 } else { 0 };
            let acc = paid + b.total_payout_treasury as u128 + b.total_payout_graveyard as u128;
            (b.total_payout_mining > 0 && acc == dist) as u8
        }
        Err(_) => 0,
    }
}

// ------------------------------------------------------------------------------------------------ worker / parent

pub fn worker(seed: u64, tier: &str, start: usize) {
    let rt = rt();
    let all = histories(seed, tier);
    let stdout = std::io::stdout();
    for (i, spec) in all.iter().enumerate() {
        if i < start {
            continue;
        }
        {
            let mut o = stdout.lock();
            writeln!(o, "C\t{}", i).unwrap();
            o.flush().unwrap();
        }
        let mut emit = |tag: &str, s: &str| {
            let mut o = stdout.lock();
            writeln!(o, "{}\t{}", tag, s).unwrap();
            o.flush().unwrap();
        };
        rt.block_on(run_history(spec, i, &mut emit));
    }
    let mut o = stdout.lock();
    writeln!(o, "E\t{}", all.len()).unwrap();
}

fn tx_cases(seed: u64, tier: &str) -> Vec<(Vec<u64>, Vec<u64>, &'static str)> {
    let thorough = tier == "thorough";
    let mut r = Rng::new(seed ^ 0x7C02);
    let mut v: Vec<(Vec<u64>, Vec<u64>, &'static str)> = vec![];
    // corpus
    if let Ok(dir) = std::fs::read_dir(format!("{}/corpus/C02", verif_root())) {
        let mut files: Vec<_> = dir.filter_map(|e| e.ok()).map(|e| e.path()).filter(|p| p.extension().map(|x| x == "ops").unwrap_or(false)).collect();
        files.sort();
        for f in files {
            for l in std::fs::read_to_string(&f).unwrap_or_default().lines() {
                let p: Vec<&str> = l.split_whitespace().collect();
                if p.len() == 3 && p[0] == "tx" {
                    let parse = |s: &str| -> Vec<u64> { if s == "-" { vec![] } else { s.split(',').filter_map(|x| x.parse().ok()).collect() } };
                    v.push((parse(p[1]), parse(p[2]), "corpus"));
                }
            }
        }
    }
    // exhaustive over an edge set: 1-2 inputs x 1-3 outputs
    let edge: Vec<u64> = if thorough {
        vec![0, 1, 2, u32::MAX as u64, (1 << 63) - 1, 1 << 63, (1 << 63) + 1, u64::MAX - 1, u64::MAX]
    } else {
        vec![0, 1, 2, 1 << 63, u64::MAX - 1, u64::MAX]
    };
    let mut vecs_in: Vec<Vec<u64>> = vec![];
    for a in &edge {
        vecs_in.push(vec![*a]);
        for b in &edge {
            vecs_in.push(vec![*a, *b]);
        }
    }
    let mut vecs_out = vecs_in.clone();
    if !thorough {
        for a in &edge {
            for b in &edge {
                for c in &edge {
                    vecs_out.push(vec![*a, *b, *c]);
                }
            }
        }
    } else {
        for a in &edge {
            for b in &edge {
                for c in [0u64, 1, 1 << 63, u64::MAX] {
                    vecs_out.push(vec![*a, *b, c]);
                }
            }
        }
    }
    for i in &vecs_in {
        for o in &vecs_out {
            v.push((i.clone(), o.clone(), "exhaustive"));
        }
    }
    // no inputs / no outputs
    v.push((vec![], vec![1], "empty"));
    v.push((vec![1], vec![], "empty"));
    v.push((vec![], vec![], "empty"));
    v.push((vec![u64::MAX, 1], vec![], "empty"));
    // random longer vectors with boundary values
    let nrand = if thorough { 6000 } else { 1500 };
    for _ in 0..nrand {
        let ni = r.range(1, 6) as usize;
        let no = r.range(1, 6) as usize;
        let i: Vec<u64> = (0..ni).map(|_| r.edge_u64()).collect();
        let o: Vec<u64> = (0..no).map(|_| r.edge_u64()).collect();
        v.push((i, o, "random-edge"));
    }
    // balanced: outputs = inputs - fee, no overflow (the accepted, conserving class)
    for _ in 0..nrand {
        let ni = r.range(1, 5) as usize;
        let i: Vec<u64> = (0..ni).map(|_| r.next() >> r.range(3, 50)).collect();
        let tin: u128 = sum128(&i);
        if tin > u64::MAX as u128 {
            continue;
        }
        let fee = if r.coin(1, 3) { 0 } else { r.below((tin as u64).saturating_add(1).max(1)) };
        let mut left = tin as u64 - fee.min(tin as u64);
        let no = r.range(1, 5);
        let mut o = vec![];
        for k in 0..no {
            let a = if k == no - 1 { left } else { r.below(left.saturating_add(1).max(1)) };
            left -= a;
            o.push(a);
        }
        v.push((i, o, "balanced"));
    }
    // wrapped but balanced modulo 2^64: outputs sum to inputs + 2^64 (the minting class)
    for _ in 0..(nrand / 4) {
        let a = r.range(1, 1_000_000);
        let x = r.range(1, u64::MAX - 1);
        // x + y = 2^64 + a - fee
        let fee = r.below(a);
        let y = ((M64 + a as u128 - fee as u128) - x as u128) as u128;
        if y <= u64::MAX as u128 {
            v.push((vec![a], vec![x, y as u64], "wrapped-balanced"));
        }
    }
    v
}

pub fn run(seed: u64, tier: &str, outdir: &str) {
    let mut out = Out::new(outdir);
    let flags = calibrate();
    out.setup(&format!("flags {}", flags));
    out.count(&format!("flags:{}", flags.replace(' ', ",")));
    // ---- (a) transactions
    let node = Node::new(9, Cfg::new(5, HEARTBEAT, 50));
    let mut per_key: HashMap<String, u32> = HashMap::new();
    for (ins, outs, class) in tx_cases(seed, tier) {
        let obs = eval_tx(&ins, &outs, &node);
        let op = format!("tx {} {}", list64(&ins), list64(&outs));
        let (si, so) = (sum128(&ins), sum128(&outs));
        // canonical answer of a tree that checks the sums: a transaction refused while a true (u128) sum does not fit u64
        // is the model's `reject-overflow` (the u64 totals such a tree leaves behind are not part of the contract)
        let sums_checked = flags.contains("sums=1");
        let answer = if sums_checked && !obs.panicked && !obs.accepted && (si >= M64 || so >= M64) { "reject-overflow".to_string() } else { obs.answer.clone() };
        out.case(&op, &answer);
        out.count(&format!("tx:{}", class));
        let feature = if so >= M64 { "output-sum-exceeds-u64" } else if si >= M64 { "input-sum-exceeds-u64" } else { "no-overflow" };
        if obs.panicked {
            out.count(&format!("tx-result:panic/{}", feature));
        } else if obs.accepted {
            out.count(&format!("tx-result:accepted/{}", feature));
            // the property's own predicate, in u128: nothing is created, and the fee is exactly what is consumed
            if so > si || (obs.fees as u128) != si - so {
                let k = format!("C02/tx-accepted-with-wrapped-sum/{}", feature);
                let n = per_key.entry(k.clone()).or_insert(0);
                *n += 1;
                if *n <= 3 {
                    out.monitor_fail(
                        &k,
                        &format!("Transaction::validate accepted inputs {:?} outputs {:?}: true sums in={} out={} fee reported {}", ins, outs, si, so, obs.fees),
                        serde_json::json!({"suite": "supply", "op": op}),
                    );
                } else {
                    // the list of recorded failures is capped; keep the count
                    out.count(&format!("monitor_fail:{}", k));
                }
            }
        } else {
            out.count(&format!("tx-result:rejected/{}", feature));
        }
    }
    // ---- (b) histories in a child process
    let exe = std::env::current_exe().unwrap();
    let mut start = 0usize;
    let mut stalls = 0;
    'outer: loop {
        let mut child = Command::new(&exe)
            .args(["supply-worker", &seed.to_string(), tier, &start.to_string()])
            .stdout(Stdio::piped())
            .stderr(Stdio::null())
            .spawn()
            .unwrap();
        let stdout = child.stdout.take().unwrap();
        let (tx, rx) = mpsc::channel::<String>();
        std::thread::spawn(move || {
            for l in BufReader::new(stdout).lines() {
                if let Ok(l) = l {
                    if tx.send(l).is_err() {
                        break;
                    }
                }
            }
        });
        let mut cur = start;
        let mut pending_op: Option<String> = None;
        loop {
            match rx.recv_timeout(Duration::from_millis(30000)) {
                Ok(l) => {
                    let (tag, rest) = l.split_once('\t').unwrap_or((&l, ""));
                    match tag {
                        "C" => cur = rest.parse().unwrap_or(cur),
                        "S" => out.setup(rest),
                        "O" => pending_op = Some(rest.to_string()),
                        "I" => {
                            if let Some(op) = pending_op.take() {
                                out.case(&op, rest);
                            }
                        }
                        "H" => out.count(rest),
                        "M" => {
                            let p: Vec<&str> = rest.splitn(3, '\t').collect();
                            if p.len() == 3 {
                                out.monitor_fail(p[0], p[1], serde_json::from_str(p[2]).unwrap_or(serde_json::Value::Null));
                            }
                        }
                        "E" => {
                            let _ = child.wait();
                            break 'outer;
                        }
                        _ => {}
                    }
                }
                Err(_) => {
                    let _ = child.kill();
                    let _ = child.wait();
                    out.count("history-stalled-or-worker-died");
                    out.monitor_fail(
                        "C04/add_block-does-not-return/supply-history",
                        "a call into the node did not return within 30 s (or the worker died)",
                        serde_json::json!({"history_index": cur, "seed": seed, "tier": tier}),
                    );
                    stalls += 1;
                    start = cur + 1;
                    if stalls > 10 {
                        break 'outer;
                    }
                    continue 'outer;
                }
            }
        }
    }
    out.finish(serde_json::json!({"flags": flags, "stalls": stalls, "profile": if flags.contains("ovf=panic") { "dev" } else { "prodlike" }}));
}
