//! C17 correspondence: the REAL `Network` / `PeerCollection` / `Peer` handshake handlers of two honest nodes, with real
//! secp256k1 keys, driven by attacker scripts; every step is also sent to the Lean model (`driver hs`).
//!
//! Symbolic view: every 32-byte challenge observed is mapped to a nonce id (0 = the all-zero challenge, fresh ones 1,2,3…
//! in order of first appearance), every key to an id (0,1 = the honest nodes, 2,3 = attacker keys), every signature to the
//! term `(signer, nonce)`. Request/answer format: see lean/Driver/Hs.lean.
//!
//! Direct monitor (does not use the model): whenever a peer becomes Connected under key K the harness checks against its
//! own records that the message just delivered on that very connection was a response carrying a signature by K over a
//! challenge that node issued on that connection and that had not been accepted before; and that a response which is bad by
//! the harness's own judgement leaves its connection not Connected and every other peer entry and both
//! `address_to_peers` maps untouched.
use crate::common::*;
use async_trait::async_trait;
use saito_core::core::consensus::blockchain::Blockchain;
use saito_core::core::consensus::peers::peer::{Peer, PeerStatus};
use saito_core::core::consensus::peers::peer_collection::PeerCollection;
use saito_core::core::consensus::peers::peer_service::PeerService;
use saito_core::core::consensus::wallet::Wallet;
use saito_core::core::defs::{BlockId, PeerIndex, SaitoHash, SaitoPrivateKey, SaitoPublicKey, SaitoSignature, Timestamp};
use saito_core::core::io::interface_io::{InterfaceEvent, InterfaceIO};
use saito_core::core::io::network::{Network, PeerDisconnectType};
use saito_core::core::msg::handshake::{HandshakeChallenge, HandshakeResponse};
use saito_core::core::msg::message::Message;
use saito_core::core::process::keep_time::{KeepTime, Timer};
use saito_core::core::process::version::Version;
use saito_core::core::util::configuration::{BlockchainConfig, Configuration, ConsensusConfig, PeerConfig, Server};
use saito_core::core::util::crypto::{generate_keypair_from_private_key, sign, verify};
use std::collections::{BTreeMap, BTreeSet, HashMap};
use std::io::Error;
use std::sync::{Arc, Mutex};
use tokio::runtime::Runtime;
use tokio::sync::RwLock;

// ------------------------------------------------------------------------------------------------ stand-ins

#[derive(Clone, Debug)]
enum IoAct {
    Send(u64, Vec<u8>),
    Disconnect(u64),
}

/// in-memory `InterfaceIO`: records sent messages and disconnect calls, everything else is inert
#[derive(Debug, Clone)]
struct RecIo {
    log: Arc<Mutex<Vec<IoAct>>>,
}

#[async_trait]
impl InterfaceIO for RecIo {
    async fn send_message(&self, peer_index: u64, buffer: &[u8]) -> Result<(), Error> {
        self.log.lock().unwrap().push(IoAct::Send(peer_index, buffer.to_vec()));
        Ok(())
    }
    async fn send_message_to_all(&self, _buffer: &[u8], _excluded_peers: Vec<u64>) -> Result<(), Error> {
        Ok(())
    }
    async fn connect_to_peer(&mut self, _url: String, _peer_index: PeerIndex) -> Result<(), Error> {
        Ok(())
    }
    async fn disconnect_from_peer(&self, peer_index: u64) -> Result<(), Error> {
        self.log.lock().unwrap().push(IoAct::Disconnect(peer_index));
        Ok(())
    }
    async fn fetch_block_from_peer(&self, _h: SaitoHash, _p: u64, _url: &str, _id: BlockId) -> Result<(), Error> {
        Ok(())
    }
    async fn write_value(&self, _key: &str, _value: &[u8]) -> Result<(), Error> {
        Ok(())
    }
    async fn append_value(&mut self, _key: &str, _value: &[u8]) -> Result<(), Error> {
        Ok(())
    }
    async fn flush_data(&mut self, _key: &str) -> Result<(), Error> {
        Ok(())
    }
    async fn read_value(&self, _key: &str) -> Result<Vec<u8>, Error> {
        Ok(vec![])
    }
    async fn load_block_file_list(&self) -> Result<Vec<String>, Error> {
        Ok(vec![])
    }
    async fn is_existing_file(&self, _key: &str) -> bool {
        false
    }
    async fn remove_value(&self, _key: &str) -> Result<(), Error> {
        Ok(())
    }
    fn get_block_dir(&self) -> String {
        "/nonexistent/".to_string()
    }
    fn get_checkpoint_dir(&self) -> String {
        "/nonexistent/".to_string()
    }
    fn ensure_block_directory_exists(&self, _block_dir: &str) -> Result<(), Error> {
        Ok(())
    }
    async fn process_api_call(&self, _b: Vec<u8>, _m: u32, _p: PeerIndex) {}
    async fn process_api_success(&self, _b: Vec<u8>, _m: u32, _p: PeerIndex) {}
    async fn process_api_error(&self, _b: Vec<u8>, _m: u32, _p: PeerIndex) {}
    fn send_interface_event(&self, _event: InterfaceEvent) {}
    async fn save_wallet(&self, _wallet: &mut Wallet) -> Result<(), Error> {
        Ok(())
    }
    async fn load_wallet(&self, _wallet: &mut Wallet) -> Result<(), Error> {
        Ok(())
    }
    fn get_my_services(&self) -> Vec<PeerService> {
        vec![]
    }
}

#[derive(Debug)]
struct Conf {
    peers: Vec<PeerConfig>,
    chain: BlockchainConfig,
}
impl Configuration for Conf {
    fn get_server_configs(&self) -> Option<&Server> {
        None
    }
    fn get_peer_configs(&self) -> &Vec<PeerConfig> {
        &self.peers
    }
    fn get_blockchain_configs(&self) -> &BlockchainConfig {
        &self.chain
    }
    fn get_block_fetch_url(&self) -> String {
        "".to_string()
    }
    fn is_spv_mode(&self) -> bool {
        false
    }
    fn is_browser(&self) -> bool {
        false
    }
    fn replace(&mut self, _config: &dyn Configuration) {}
    fn get_consensus_config(&self) -> Option<&ConsensusConfig> {
        None
    }
}

struct FixedClock;
impl KeepTime for FixedClock {
    fn get_timestamp_in_ms(&self) -> Timestamp {
        1_000
    }
}

// ------------------------------------------------------------------------------------------------ symbolic layer

#[derive(Clone, Copy, PartialEq, Eq, Hash, Debug, PartialOrd, Ord)]
enum Ver {
    Unset,
    Ok,
    Bad,
}
impl Ver {
    fn s(self) -> &'static str {
        match self {
            Ver::Unset => "unset",
            Ver::Ok => "ok",
            Ver::Bad => "bad",
        }
    }
}

#[derive(Clone, PartialEq, Eq, Hash, Debug, PartialOrd, Ord)]
struct SResp {
    key: usize,
    sig: Option<(usize, usize)>,
    ch: usize,
    ver: Ver,
}
impl SResp {
    fn s(&self) -> String {
        let sg = match self.sig {
            None => "- -".to_string(),
            Some((k, n)) => format!("{} {}", k, n),
        };
        format!("{} {} {} {}", self.key, sg, self.ch, self.ver.s())
    }
}

#[derive(Clone, PartialEq, Eq, Hash, Debug, PartialOrd, Ord)]
enum SMsg {
    Ch(usize),
    Rs(SResp),
}

#[derive(Clone, PartialEq, Eq, Hash, Debug, PartialOrd, Ord)]
enum SOp {
    AddStatic(usize, u64),
    Connect(usize, u64),
    Disconnect(usize, u64),
    Deliver(usize, u64, SMsg),
    ASign(usize, usize),
}
impl SOp {
    fn line(&self, hint: Option<u64>) -> String {
        match self {
            SOp::AddStatic(n, c) => format!("addstatic {} {}", n, c),
            SOp::Connect(n, c) => format!("connect {} {}", n, c),
            SOp::Disconnect(n, c) => format!("disconnect {} {}", n, c),
            SOp::Deliver(n, c, SMsg::Ch(x)) => format!("deliver {} {} challenge {}", n, c, x),
            SOp::Deliver(n, c, SMsg::Rs(r)) => format!(
                "deliver {} {} response {} {}",
                n,
                c,
                r.s(),
                hint.map(|h| h.to_string()).unwrap_or("-".to_string())
            ),
            SOp::ASign(k, n) => format!("asign {} {}", k, n),
        }
    }
    fn parse(line: &str) -> Option<SOp> {
        let t: Vec<&str> = line.split_whitespace().collect();
        let u = |s: &str| s.parse::<usize>().ok();
        match t.as_slice() {
            ["addstatic", a, b] => Some(SOp::AddStatic(u(a)?, u(b)? as u64)),
            ["connect", a, b] => Some(SOp::Connect(u(a)?, u(b)? as u64)),
            ["disconnect", a, b] => Some(SOp::Disconnect(u(a)?, u(b)? as u64)),
            ["asign", a, b] => Some(SOp::ASign(u(a)?, u(b)?)),
            ["deliver", a, b, "challenge", n] => Some(SOp::Deliver(u(a)?, u(b)? as u64, SMsg::Ch(u(n)?))),
            ["deliver", a, b, "response", k, s1, s2, c, v, ..] => {
                let sig = if *s1 == "-" { None } else { Some((u(s1)?, u(s2)?)) };
                let ver = match *v {
                    "unset" => Ver::Unset,
                    "ok" => Ver::Ok,
                    "bad" => Ver::Bad,
                    _ => return None,
                };
                Some(SOp::Deliver(u(a)?, u(b)? as u64, SMsg::Rs(SResp { key: u(k)?, sig, ch: u(c)?, ver })))
            }
            _ => None,
        }
    }
}

/// the harness's own books (cloned for back-tracking)
#[derive(Clone)]
struct Sym {
    nonces: Vec<[u8; 32]>,
    sigs: Vec<(SaitoSignature, (usize, usize))>,
    /// distinct messages observed on the wire, in order
    msgs: Vec<SMsg>,
    // monitor records
    issued_on: BTreeMap<(usize, u64), Vec<usize>>,
    accepted: BTreeSet<(usize, u64, usize)>,
}

struct Node {
    network: Network,
    wallet: Arc<RwLock<Wallet>>,
    config: Arc<RwLock<dyn Configuration + Send + Sync>>,
    chain: Arc<RwLock<Blockchain>>,
    io: Arc<Mutex<Vec<IoAct>>>,
}

struct Snap {
    peers: Vec<PeerCollection>,
    sym: Sym,
}

#[derive(Clone, PartialEq, Eq, Debug)]
struct PeerView {
    status: char,
    ch: Option<SaitoHash>,
    key: Option<SaitoPublicKey>,
    is_static: bool,
}

struct World {
    rt: Runtime,
    nodes: Vec<Node>,
    keys: Vec<(SaitoPublicKey, SaitoPrivateKey)>,
    core_version: Version,
    sym: Sym,
    sabotage: bool,
}

const HONEST: usize = 2;
const NKEYS: usize = 4;

struct StepResult {
    line: String,
    answer: String,
    new_nonces: Vec<usize>,
    class: &'static str,
}

impl World {
    fn new(rng: &mut Rng) -> World {
        let rt = tokio::runtime::Builder::new_current_thread().enable_all().build().unwrap();
        let mut keys = vec![];
        for _ in 0..NKEYS {
            let mut sk = rng.bytes(32);
            sk[0] = 0x01; // well inside the group order
            keys.push(generate_keypair_from_private_key(&sk));
        }
        let mut nodes = vec![];
        let mut core_version = Version::new(0, 0, 0);
        for i in 0..HONEST {
            let wallet = Wallet::new(keys[i].1, keys[i].0);
            core_version = wallet.core_version;
            let wallet = Arc::new(RwLock::new(wallet));
            let config: Arc<RwLock<dyn Configuration + Send + Sync>> =
                Arc::new(RwLock::new(Conf { peers: vec![], chain: BlockchainConfig::default() }));
            let chain = Arc::new(RwLock::new(Blockchain::new(wallet.clone(), 10, 0, 60)));
            let io = Arc::new(Mutex::new(vec![]));
            let peers = Arc::new(RwLock::new(PeerCollection::default()));
            let timer = Timer { time_reader: Arc::new(FixedClock), hasten_multiplier: 1, start_time: 0 };
            let network = Network::new(Box::new(RecIo { log: io.clone() }), peers, wallet.clone(), config.clone(), timer);
            nodes.push(Node { network, wallet, config, chain, io });
        }
        assert!(core_version.is_set(), "the wallet's core version (crate version) must be set");
        let mut w = World {
            rt,
            nodes,
            keys,
            core_version,
            sabotage: std::env::var("HS_SELFTEST").is_ok(),
            sym: Sym { nonces: vec![], sigs: vec![], msgs: vec![], issued_on: BTreeMap::new(), accepted: BTreeSet::new() },
        };
        w.reset();
        w
    }

    fn reset(&mut self) {
        for n in &self.nodes {
            *n.network.peer_lock.try_write().unwrap() = PeerCollection::default();
            n.io.lock().unwrap().clear();
        }
        self.sym = Sym {
            nonces: vec![[0u8; 32]],
            sigs: vec![],
            msgs: vec![],
            issued_on: BTreeMap::new(),
            accepted: BTreeSet::new(),
        };
    }

    fn snapshot(&self) -> Snap {
        Snap {
            peers: self.nodes.iter().map(|n| n.network.peer_lock.try_read().unwrap().clone()).collect(),
            sym: self.sym.clone(),
        }
    }
    fn restore(&mut self, s: &Snap) {
        for (n, p) in self.nodes.iter().zip(s.peers.iter()) {
            *n.network.peer_lock.try_write().unwrap() = p.clone();
        }
        self.sym = s.sym.clone();
    }

    // ---- symbolisation
    fn nonce_id(&self, b: &[u8; 32]) -> Option<usize> {
        self.sym.nonces.iter().position(|x| x == b)
    }
    fn nonce_id_or_new(&mut self, b: &[u8; 32], new: &mut Vec<usize>) -> usize {
        match self.nonce_id(b) {
            Some(i) => i,
            None => {
                self.sym.nonces.push(*b);
                new.push(self.sym.nonces.len() - 1);
                self.sym.nonces.len() - 1
            }
        }
    }
    fn key_id(&self, k: &SaitoPublicKey) -> usize {
        self.keys.iter().position(|x| &x.0 == k).unwrap_or(99)
    }
    fn sig_term(&mut self, s: &SaitoSignature) -> Option<(usize, usize)> {
        if let Some(x) = self.sym.sigs.iter().find(|x| &x.0 == s) {
            return Some(x.1);
        }
        for k in 0..self.keys.len() {
            for n in 0..self.sym.nonces.len() {
                if verify(&self.sym.nonces[n], s, &self.keys[k].0) {
                    self.sym.sigs.push((*s, (k, n)));
                    return Some((k, n));
                }
            }
        }
        None
    }
    fn ver_class(&self, v: &Version) -> Ver {
        if !v.is_set() {
            Ver::Unset
        } else if v.major == self.core_version.major && v.minor == self.core_version.minor {
            Ver::Ok
        } else {
            Ver::Bad
        }
    }

    fn view(&self) -> Vec<BTreeMap<u64, PeerView>> {
        self.nodes
            .iter()
            .map(|n| {
                let pc = n.network.peer_lock.try_read().unwrap();
                pc.index_to_peers
                    .iter()
                    .map(|(i, p)| {
                        (
                            *i,
                            PeerView {
                                status: match p.peer_status {
                                    PeerStatus::Disconnected(_, _) => 'D',
                                    PeerStatus::Connecting => 'G',
                                    PeerStatus::Connected => 'C',
                                },
                                ch: p.challenge_for_peer,
                                key: p.public_key,
                                is_static: p.static_peer_config.is_some(),
                            },
                        )
                    })
                    .collect()
            })
            .collect()
    }
    fn addr_view(&self) -> Vec<BTreeMap<usize, u64>> {
        self.nodes
            .iter()
            .map(|n| {
                let pc = n.network.peer_lock.try_read().unwrap();
                pc.address_to_peers.iter().map(|(k, i)| (self.key_id(k), *i)).collect()
            })
            .collect()
    }

    fn dump(&self) -> String {
        let v = self.view();
        let a = self.addr_view();
        let mut parts = vec![];
        for i in 0..self.nodes.len() {
            let ps: Vec<String> = v[i]
                .iter()
                .map(|(c, p)| {
                    format!(
                        "{}:{}:{}:{}:{}",
                        c,
                        p.status,
                        match &p.ch {
                            None => "-".to_string(),
                            Some(b) => self.nonce_id(b).map(|x| x.to_string()).unwrap_or("?".to_string()),
                        },
                        match &p.key {
                            None => "-".to_string(),
                            Some(k) => self.key_id(k).to_string(),
                        },
                        if p.is_static { "s" } else { "d" }
                    )
                })
                .collect();
            let ad: Vec<String> = a[i].iter().map(|(k, c)| format!("{}>{}", k, c)).collect();
            parts.push(format!("n{}=[{}] a{}=[{}]", i, ps.join(","), i, ad.join(",")));
        }
        format!("{} next={}", parts.join(" "), self.sym.nonces.len())
    }

    /// canonical key of the whole situation (implementation state + attacker knowledge + monitor books)
    fn canon(&self) -> String {
        let mut sigs: Vec<(usize, usize)> = self.sym.sigs.iter().map(|x| x.1).collect();
        sigs.sort();
        let mut msgs = self.sym.msgs.clone();
        msgs.sort();
        format!("{} {:?} {:?} {:?} {:?}", self.dump(), sigs, msgs, self.sym.issued_on, self.sym.accepted)
    }

    /// run one operation on the real code, answer in the model's format, update books, run the monitor
    fn apply(&mut self, op: &SOp, out: &mut Out, script: &[String]) -> StepResult {
        let before = self.view();
        let addr_before = self.addr_view();
        let mut new_nonces = vec![];
        // --- what the attacker cannot do / nodes that do not exist (mirrors the guards of `Hs.step`)
        let feasible = match op {
            SOp::AddStatic(n, _) | SOp::Connect(n, _) | SOp::Disconnect(n, _) => *n < HONEST,
            SOp::Deliver(n, _, SMsg::Ch(x)) => *n < HONEST && *x < self.sym.nonces.len(),
            SOp::Deliver(n, _, SMsg::Rs(r)) => {
                *n < HONEST
                    && r.ch < self.sym.nonces.len()
                    && r.key < self.keys.len()
                    && r.sig.map(|t| self.sym.sigs.iter().any(|x| x.1 == t)).unwrap_or(true)
            }
            SOp::ASign(k, n) => *k >= HONEST && *k < self.keys.len() && *n < self.sym.nonces.len(),
        };
        if !feasible {
            return StepResult { line: op.line(None), answer: format!("rejected | {}", self.dump()), new_nonces, class: "rejected" };
        }
        if let SOp::ASign(k, n) = op {
            let s = sign(&self.sym.nonces[*n], &self.keys[*k].1);
            if !self.sym.sigs.iter().any(|x| x.1 == (*k, *n)) {
                self.sym.sigs.push((s, (*k, *n)));
            }
            return StepResult { line: op.line(None), answer: format!("ok [] | {}", self.dump()), new_nonces, class: "asign" };
        }
        let node_id = match op {
            SOp::AddStatic(n, _) | SOp::Connect(n, _) | SOp::Disconnect(n, _) | SOp::Deliver(n, _, _) => *n,
            SOp::ASign(..) => unreachable!(),
        };
        self.nodes[node_id].io.lock().unwrap().clear();
        if self.sabotage {
            // self-test of the monitor only (HS_SELFTEST=1, never set by ./check): emulate an implementation that does not bind the
            // response to the challenge of this connection, by storing whatever nonce the response's signature is over
            if let SOp::Deliver(n, c, SMsg::Rs(SResp { sig: Some((_, x)), .. })) = op {
                if let Some(p) = self.nodes[*n].network.peer_lock.try_write().unwrap().index_to_peers.get_mut(c) {
                    p.challenge_for_peer = Some(self.sym.nonces[*x]);
                }
            }
        }
        let result = {
            let rt = &self.rt;
            let node = &mut self.nodes[node_id];
            let msg = match op {
                SOp::Deliver(_, _, SMsg::Rs(r)) => Some(self_build(&self.keys, &self.sym, self.core_version, r)),
                _ => None,
            };
            let nonces = &self.sym.nonces;
            guarded(|| {
                rt.block_on(async {
                    match op {
                        SOp::AddStatic(_, c) => {
                            // what `initialize_static_peers` does for one configured peer (index chosen by the script)
                            let mut peers = node.network.peer_lock.write().await;
                            if !peers.index_to_peers.contains_key(c) {
                                let mut peer = Peer::new(*c);
                                peer.static_peer_config = Some(PeerConfig {
                                    host: "127.0.0.1".to_string(),
                                    port: 12101,
                                    protocol: "http".to_string(),
                                    synctype: "full".to_string(),
                                });
                                peers.index_to_peers.insert(*c, peer);
                            }
                        }
                        SOp::Connect(_, c) => node.network.handle_new_peer(*c, None).await,
                        SOp::Disconnect(_, c) => {
                            node.network.handle_peer_disconnect(*c, PeerDisconnectType::ExternalDisconnect).await
                        }
                        SOp::Deliver(_, c, SMsg::Ch(x)) => {
                            node.network
                                .handle_handshake_challenge(
                                    *c,
                                    HandshakeChallenge { challenge: nonces[*x] },
                                    node.wallet.clone(),
                                    node.config.clone(),
                                )
                                .await
                        }
                        SOp::Deliver(_, c, SMsg::Rs(_)) => {
                            node.network
                                .handle_handshake_response(
                                    *c,
                                    msg.unwrap(),
                                    node.wallet.clone(),
                                    node.chain.clone(),
                                    node.config.clone(),
                                )
                                .await
                        }
                        SOp::ASign(..) => {}
                    }
                })
            })
        };
        // --- actions on the wire
        let acts: Vec<IoAct> = self.nodes[node_id].io.lock().unwrap().drain(..).collect();
        let mut act_strs = vec![];
        let mut bcreq_on: Vec<u64> = vec![];
        for a in &acts {
            match a {
                IoAct::Disconnect(c) => act_strs.push(format!("disc {}", c)),
                IoAct::Send(c, buf) => match Message::deserialize(buf.clone()) {
                    Ok(Message::HandshakeChallenge(ch)) => {
                        let n = self.nonce_id_or_new(&ch.challenge, &mut new_nonces);
                        self.sym.issued_on.entry((node_id, *c)).or_default().push(n);
                        let m = SMsg::Ch(n);
                        if !self.sym.msgs.contains(&m) {
                            self.sym.msgs.push(m);
                        }
                        act_strs.push(format!("send {} ch {}", c, n));
                    }
                    Ok(Message::HandshakeResponse(r)) => {
                        let n = self.nonce_id_or_new(&r.challenge, &mut new_nonces);
                        if n != 0 {
                            self.sym.issued_on.entry((node_id, *c)).or_default().push(n);
                        }
                        let sr = SResp {
                            key: self.key_id(&r.public_key),
                            sig: self.sig_term(&r.signature),
                            ch: n,
                            ver: self.ver_class(&r.core_version),
                        };
                        act_strs.push(format!("send {} rs {}", c, sr.s()));
                        let m = SMsg::Rs(sr);
                        if !self.sym.msgs.contains(&m) {
                            self.sym.msgs.push(m);
                        }
                    }
                    Ok(Message::BlockchainRequest(_)) | Ok(Message::GhostChainRequest(..)) => {
                        bcreq_on.push(*c);
                        act_strs.push(format!("bcreq {}", c))
                    }
                    Ok(m) => act_strs.push(format!("send {} other{}", c, m.get_type_value())),
                    Err(_) => act_strs.push(format!("send {} undecodable", c)),
                },
            }
        }
        let after = self.view();
        let addr_after = self.addr_view();
        // which old peer did remove_reconnected_peer take out (HashMap iteration order)?
        let hint = before[node_id].keys().find(|c| !after[node_id].contains_key(c)).copied();
        let (answer, class) = match &result {
            Ok(()) => (
                format!("ok [{}] | {}", act_strs.join(";"), self.dump()),
                if act_strs.is_empty() {
                    "noop"
                } else if !bcreq_on.is_empty() {
                    "accept"
                } else if act_strs[0].starts_with("disc") {
                    "disconnect"
                } else {
                    "sent"
                },
            ),
            Err(_) => (format!("panic | {}", self.dump()), "panic"),
        };

        // ------------------------------------------------------------------ direct monitor (own books only)
        let replay = serde_json::json!({"suite": "hs", "script": script, "last": op.line(hint)});
        for nd in 0..self.nodes.len() {
            for (c, pv) in after[nd].iter() {
                if pv.status != 'C' {
                    continue;
                }
                let was = before[nd].get(c);
                let newly = match was {
                    None => true,
                    Some(b) => b.status != 'C' || b.key != pv.key || (nd == node_id && bcreq_on.contains(c)),
                };
                if !newly {
                    continue;
                }
                let k = pv.key.map(|k| self.key_id(&k));
                let justified = match op {
                    SOp::Deliver(n, cc, SMsg::Rs(r)) if *n == nd && cc == c => match (r.sig, k) {
                        (Some((signer, nonce)), Some(k)) => {
                            signer == k
                                && r.key == k
                                && r.ver == Ver::Ok
                                && self.sym.issued_on.get(&(nd, *c)).map(|v| v.contains(&nonce)).unwrap_or(false)
                                && !self.sym.accepted.contains(&(nd, *c, nonce))
                        }
                        _ => false,
                    },
                    _ => false,
                };
                if justified {
                    if let SOp::Deliver(_, _, SMsg::Rs(r)) = op {
                        self.sym.accepted.insert((nd, *c, r.sig.unwrap().1));
                    }
                } else {
                    out.monitor_fail(
                        "C17/connected-without-fresh-signature-over-own-challenge",
                        &format!("node {} conn {} became Connected under key {:?} by `{}`", nd, c, k, op.line(hint)),
                        replay.clone(),
                    );
                }
            }
        }
        if let SOp::Deliver(n, c, SMsg::Rs(r)) = op {
            if before[*n].contains_key(c) {
                let accepted_before = |nonce: usize| {
                    // `accepted` may just have been extended by this very step; a justified acceptance is not a bad response
                    self.sym.accepted.contains(&(*n, *c, nonce))
                };
                let surely_bad = r.ver != Ver::Ok
                    || match r.sig {
                        None => true,
                        Some((signer, nonce)) => {
                            signer != r.key
                                || !self.sym.issued_on.get(&(*n, *c)).map(|v| v.contains(&nonce)).unwrap_or(false)
                                || (accepted_before(nonce) && class != "accept")
                        }
                    };
                if surely_bad && class != "panic" {
                    let mut disturbed = vec![];
                    if after[*n].get(c).map(|p| p.status == 'C').unwrap_or(false) {
                        disturbed.push("the connection is Connected after a bad response".to_string());
                    }
                    for nd in 0..self.nodes.len() {
                        for (cc, b) in before[nd].iter() {
                            if nd == *n && cc == c {
                                continue;
                            }
                            if after[nd].get(cc) != Some(b) {
                                disturbed.push(format!("peer entry {}/{} changed", nd, cc));
                            }
                        }
                        if after[nd].len() != before[nd].len() {
                            disturbed.push(format!("peer set of node {} changed", nd));
                        }
                        if addr_after[nd] != addr_before[nd] {
                            disturbed.push(format!("address_to_peers of node {} changed", nd));
                        }
                    }
                    if !disturbed.is_empty() {
                        out.monitor_fail(
                            "C17/bad-response-disturbs-state",
                            &format!("`{}`: {}", op.line(hint), disturbed.join("; ")),
                            replay.clone(),
                        );
                    }
                }
            }
        }
        // a connection that was closed — by the environment (`disconnect`) or by the node itself (it answered a bad
        // response with a disconnect) — is over: challenges issued on it are void for whatever connection reuses the
        // peer index later ("the fresh challenge this node issued on that very connection")
        if let SOp::Disconnect(n, c) = op {
            self.sym.issued_on.remove(&(*n, *c));
        }
        for a in &acts {
            if let IoAct::Disconnect(c) = a {
                self.sym.issued_on.remove(&(node_id, *c));
            }
        }
        StepResult { line: op.line(hint), answer, new_nonces, class }
    }
}

fn self_build(
    keys: &[(SaitoPublicKey, SaitoPrivateKey)],
    sym: &Sym,
    core_version: Version,
    r: &SResp,
) -> HandshakeResponse {
    let signature = match r.sig {
        None => [0x11u8; 64],
        Some(t) => sym.sigs.iter().find(|x| x.1 == t).unwrap().0,
    };
    let cv = match r.ver {
        Ver::Unset => Version::new(0, 0, 0),
        Ver::Ok => core_version,
        Ver::Bad => Version::new(core_version.major, core_version.minor.wrapping_add(1), 0),
    };
    HandshakeResponse {
        public_key: keys[r.key].0,
        signature,
        is_lite: false,
        block_fetch_url: "".to_string(),
        challenge: sym.nonces[r.ch],
        services: vec![],
        wallet_version: core_version,
        core_version: cv,
    }
}

// ------------------------------------------------------------------------------------------------ drivers

struct Run {
    w: World,
    out: Out,
    script: Vec<String>,
    edges: u64,
    pruned: u64,
    cap_hit: bool,
}

const ATTACKER: usize = 2;

impl Run {
    fn emit_reset(&mut self) {
        self.w.reset();
        self.script.clear();
        self.out.setup("reset 2");
        // the attacker can always sign the constant nonce
        self.step(&SOp::ASign(ATTACKER, 0), false);
        self.step(&SOp::ASign(ATTACKER + 1, 0), false);
    }

    /// one compared step; afterwards the attacker signs every nonce it has just learnt with its own keys
    fn step(&mut self, op: &SOp, probe: bool) -> StepResult {
        let r = self.w.apply(op, &mut self.out, &self.script);
        let line = if probe { format!("try {}", r.line) } else { r.line.clone() };
        self.out.case(&line, &r.answer);
        self.out.count(&format!("outcome:{}", r.class));
        if let SOp::Deliver(_, _, SMsg::Rs(_)) = op {
            self.out.count(&format!("response:{}", r.class));
        }
        if !probe {
            self.script.push(r.line.clone());
            for n in r.new_nonces.clone() {
                for k in [ATTACKER, ATTACKER + 1] {
                    let rr = self.w.apply(&SOp::ASign(k, n), &mut self.out, &self.script);
                    self.out.case(&rr.line, &rr.answer);
                    self.script.push(rr.line);
                }
            }
        }
        r
    }

    /// the attacker's alphabet in the current situation (exhaustive search)
    fn options(&self, conns: &[(usize, u64)]) -> Vec<SOp> {
        let sym = &self.w.sym;
        let known: Vec<usize> = (0..sym.nonces.len()).collect();
        let responses: Vec<SResp> = sym
            .msgs
            .iter()
            .filter_map(|m| if let SMsg::Rs(r) = m { Some(r.clone()) } else { None })
            .collect();
        let mut msgs: Vec<SMsg> = vec![];
        for n in &known {
            msgs.push(SMsg::Ch(*n));
        }
        for r in &responses {
            msgs.push(SMsg::Rs(r.clone())); // replay / redirect / reflect verbatim
        }
        if let Some(r) = responses.last() {
            // the unsigned fields of an observed response are free
            msgs.push(SMsg::Rs(SResp { ver: Ver::Unset, ..r.clone() }));
            msgs.push(SMsg::Rs(SResp { ver: Ver::Bad, ..r.clone() }));
            msgs.push(SMsg::Rs(SResp { key: ATTACKER, ..r.clone() }));
        }
        for n in &known {
            // composed by the attacker with its own key
            msgs.push(SMsg::Rs(SResp { key: ATTACKER, sig: Some((ATTACKER, *n)), ch: 0, ver: Ver::Ok }));
            // … and the same signature under a claimed honest key
            msgs.push(SMsg::Rs(SResp { key: 1, sig: Some((ATTACKER, *n)), ch: 0, ver: Ver::Ok }));
        }
        msgs.push(SMsg::Rs(SResp { key: ATTACKER, sig: None, ch: 0, ver: Ver::Ok }));
        let mut ops = vec![];
        for (n, c) in conns {
            ops.push(SOp::Connect(*n, *c));
            ops.push(SOp::Disconnect(*n, *c));
            for m in &msgs {
                ops.push(SOp::Deliver(*n, *c, m.clone()));
            }
        }
        let mut seen = std::collections::HashSet::new();
        ops.retain(|o| seen.insert(o.clone()));
        ops
    }

    fn dfs(&mut self, conns: &[(usize, u64)], depth: u32, seen: &mut HashMap<String, u32>, cap: u64) {
        if depth == 0 {
            return;
        }
        let ops = self.options(conns);
        for op in ops {
            if self.edges >= cap {
                self.cap_hit = true;
                return;
            }
            self.edges += 1;
            if depth == 1 {
                let snap = self.w.snapshot();
                self.step(&op, true);
                self.w.restore(&snap);
                continue;
            }
            let snap = self.w.snapshot();
            let slen = self.script.len();
            self.out.setup("push");
            self.step(&op, false);
            let key = self.w.canon();
            let explore = match seen.get(&key) {
                Some(d) if *d >= depth - 1 => false,
                _ => true,
            };
            if explore {
                seen.insert(key, depth - 1);
                self.dfs(conns, depth - 1, seen, cap);
            } else {
                self.pruned += 1;
            }
            self.out.setup("pop");
            self.w.restore(&snap);
            self.script.truncate(slen);
        }
    }

    fn random_script(&mut self, rng: &mut Rng, conns: &[(usize, u64)], statics: &[(usize, u64)], len: usize) {
        self.emit_reset();
        for (n, c) in statics {
            self.step(&SOp::AddStatic(*n, *c), false);
        }
        // honest wiring: what node a's connection x sends arrives at its partner
        let partner = |x: (usize, u64)| -> (usize, u64) {
            match x {
                (0, 1) => (1, 1),
                (1, 1) => (0, 1),
                (0, 2) => (1, 2),
                (1, 2) => (0, 2),
                o => o,
            }
        };
        let mut last_sent: Option<((usize, u64), SMsg)> = None;
        for _ in 0..len {
            let sym = &self.w.sym;
            let roll = rng.below(100);
            let op = if roll < 35 && last_sent.is_some() {
                // honest relay of the latest message to the other end
                let (from, m) = last_sent.clone().unwrap();
                let to = partner(from);
                SOp::Deliver(to.0, to.1, m)
            } else if roll < 45 {
                let x = *rng.pick(conns);
                SOp::Connect(x.0, x.1)
            } else if roll < 50 {
                let x = *rng.pick(conns);
                SOp::Disconnect(x.0, x.1)
            } else if roll < 60 {
                let x = *rng.pick(conns);
                SOp::Deliver(x.0, x.1, SMsg::Ch(rng.below(sym.nonces.len() as u64) as usize))
            } else if roll < 75 && !sym.msgs.is_empty() {
                // replay / redirect an observed message, possibly with a free field changed
                let x = *rng.pick(conns);
                let mut m = rng.pick(&sym.msgs).clone();
                if let SMsg::Rs(r) = &mut m {
                    match rng.below(8) {
                        0 => r.ver = Ver::Unset,
                        1 => r.ver = Ver::Bad,
                        2 => r.key = rng.below(NKEYS as u64) as usize,
                        3 => r.ch = rng.below(sym.nonces.len() as u64) as usize,
                        _ => {}
                    }
                }
                SOp::Deliver(x.0, x.1, m)
            } else {
                // free composition out of everything known
                let x = *rng.pick(conns);
                let sig = if sym.sigs.is_empty() || rng.coin(1, 8) { None } else { Some(rng.pick(&sym.sigs).1) };
                // aim at the challenge stored on that connection half of the time
                let stored = self.w.view()[x.0].get(&x.1).and_then(|p| p.ch).and_then(|b| self.w.nonce_id(&b));
                let sig = match (stored, rng.coin(1, 2)) {
                    (Some(n), true) => {
                        let k = rng.below(NKEYS as u64) as usize;
                        if self.w.sym.sigs.iter().any(|s| s.1 == (k, n)) {
                            Some((k, n))
                        } else {
                            sig
                        }
                    }
                    _ => sig,
                };
                let key = match sig {
                    Some((k, _)) if rng.coin(3, 4) => k,
                    _ => rng.below(NKEYS as u64) as usize,
                };
                let ver = match rng.below(10) {
                    0 => Ver::Unset,
                    1 => Ver::Bad,
                    _ => Ver::Ok,
                };
                SOp::Deliver(x.0, x.1, SMsg::Rs(SResp { key, sig, ch: rng.below(self.w.sym.nonces.len() as u64) as usize, ver }))
            };
            let before_msgs = self.w.sym.msgs.len();
            let r = self.step(&op, false);
            // remember the latest message put on the wire and where
            if let (Some(node), true) = (
                match &op {
                    SOp::Connect(n, _) | SOp::Deliver(n, _, _) => Some(*n),
                    _ => None,
                },
                r.answer.starts_with("ok [send"),
            ) {
                // parse "ok [send <conn> …"
                let conn: u64 = r.answer[9..].split_whitespace().next().and_then(|s| s.parse().ok()).unwrap_or(0);
                let m = if self.w.sym.msgs.len() > before_msgs {
                    self.w.sym.msgs[before_msgs].clone()
                } else {
                    // a message seen before: find it again from the answer text
                    let txt: String = r.answer[5..].split(|ch| ch == ';' || ch == ']').next().unwrap_or("").to_string();
                    let t: Vec<&str> = txt.split_whitespace().collect();
                    match t.as_slice() {
                        [_, _, "ch", n] => SMsg::Ch(n.parse().unwrap_or(0)),
                        [_, _, "rs", k, s1, s2, c, v] => SMsg::Rs(SResp {
                            key: k.parse().unwrap_or(0),
                            sig: if *s1 == "-" { None } else { Some((s1.parse().unwrap_or(0), s2.parse().unwrap_or(0))) },
                            ch: c.parse().unwrap_or(0),
                            ver: match *v {
                                "unset" => Ver::Unset,
                                "bad" => Ver::Bad,
                                _ => Ver::Ok,
                            },
                        }),
                        _ => SMsg::Ch(0),
                    }
                };
                last_sent = Some(((node, conn), m));
            }
        }
    }

    fn corpus(&mut self) {
        let dir = format!("{}/corpus/C17", verif_root());
        let mut files: Vec<_> = match std::fs::read_dir(&dir) {
            Ok(rd) => rd.filter_map(|e| e.ok()).map(|e| e.path()).filter(|p| p.extension().map(|x| x == "ops").unwrap_or(false)).collect(),
            Err(_) => vec![],
        };
        files.sort();
        for f in files {
            let txt = std::fs::read_to_string(&f).unwrap_or_default();
            self.emit_reset_bare();
            for line in txt.lines() {
                let line = line.trim();
                if line.is_empty() || line.starts_with('#') {
                    continue;
                }
                if line.starts_with("reset") {
                    self.emit_reset_bare();
                    continue;
                }
                match SOp::parse(line) {
                    Some(op) => {
                        let r = self.w.apply(&op, &mut self.out, &self.script);
                        self.out.case(&r.line, &r.answer);
                        self.out.count("corpus");
                        self.out.count(&format!("outcome:{}", r.class));
                        self.script.push(r.line);
                    }
                    None => self.out.count("corpus:unparsed"),
                }
            }
        }
    }
    /// corpus scripts spell out their own `asign` lines
    fn emit_reset_bare(&mut self) {
        self.w.reset();
        self.script.clear();
        self.out.setup("reset 2");
    }
}

/// flag `keymismatch`: 1 iff the witness of the key-mismatch assert (corpus/C17/key-mismatch-panic.ops) no longer panics
/// on the tree under test (the valid response under another key is refused instead)
fn measure_key_mismatch(seed: u64, outdir: &str) -> u8 {
    let mut rng = Rng::new(seed ^ 0xF1A6);
    let mut w = World::new(&mut rng);
    let mut sink = Out::new(&format!("{}/flagprobe", outdir));
    let script = ["connect 0 2", "asign 2 1", "deliver 0 2 response 2 2 1 0 ok -", "deliver 0 2 challenge 0", "asign 3 2", "deliver 0 2 response 3 3 2 0 ok -"];
    let mut last = String::new();
    let mut hist: Vec<String> = vec![];
    for line in script {
        if let Some(op) = SOp::parse(line) {
            let r = w.apply(&op, &mut sink, &hist);
            last = r.answer.clone();
            hist.push(r.line);
        }
    }
    if last.starts_with("panic") {
        0
    } else {
        1
    }
}

/// replay of one script file in the request-line language on the real code: `harness hs-script <seed> <file> <outdir>`
/// prints every request with the implementation's answer and the monitor's verdicts
pub fn run_script(seed: u64, file: &str, outdir: &str) {
    let mut rng = Rng::new(seed);
    let w = World::new(&mut rng);
    let mut run = Run { w, out: Out::new(outdir), script: vec![], edges: 0, pruned: 0, cap_hit: false };
    let km = measure_key_mismatch(seed, outdir);
    run.out.setup(&format!("flags keymismatch={}", km));
    let txt = std::fs::read_to_string(file).unwrap_or_default();
    // a replay file written by ./check (JSON with input.script) or a plain .ops file
    let lines: Vec<String> = match serde_json::from_str::<serde_json::Value>(&txt) {
        Ok(v) => {
            let inp = if v.get("input").is_some() { v["input"].clone() } else { v.clone() };
            let mut l: Vec<String> =
                inp["script"].as_array().map(|a| a.iter().filter_map(|x| x.as_str().map(|s| s.to_string())).collect()).unwrap_or_default();
            if let Some(last) = inp["last"].as_str() {
                l.push(last.to_string());
            }
            l
        }
        Err(_) => txt.lines().map(|s| s.to_string()).collect(),
    };
    run.emit_reset_bare();
    for line in lines {
        let line = line.trim();
        if line.is_empty() || line.starts_with('#') {
            continue;
        }
        if line.starts_with("reset") {
            run.emit_reset_bare();
            println!("reset");
            continue;
        }
        match SOp::parse(line) {
            Some(op) => {
                let before = run.out.monitor_failures.len();
                let r = run.w.apply(&op, &mut run.out, &run.script);
                println!("{}  =>  {}", r.line, r.answer);
                for mf in &run.out.monitor_failures[before..] {
                    println!("    MONITOR {}: {}", mf["key"].as_str().unwrap_or(""), mf["what"].as_str().unwrap_or(""));
                }
                run.out.case(&r.line, &r.answer);
                run.script.push(r.line);
            }
            None => println!("{}  =>  (unparsed)", line),
        }
    }
    run.out.finish(serde_json::json!({}));
}

pub fn run(seed: u64, tier: &str, outdir: &str) {
    let mut rng = Rng::new(seed);
    let w = World::new(&mut rng);
    let mut run = Run { w, out: Out::new(outdir), script: vec![], edges: 0, pruned: 0, cap_hit: false };
    let thorough = tier == "thorough";
    let km = measure_key_mismatch(seed, outdir);
    run.out.setup(&format!("flags keymismatch={}", km));
    run.out.count(&format!("flags_measured keymismatch={}", km));

    // 1. corpus: witnesses and past disagreements
    run.corpus();

    // 2. exhaustive attacker search: 2 honest nodes, 3 connections:
    //    (0,1) incoming at node 0 — its other end is node 1's static (outgoing) peer (1,1); (0,2) a second incoming connection at node 0
    let conns = [(0usize, 1u64), (1, 1), (0, 2)];
    let depth = std::env::var("HS_DEPTH").ok().and_then(|s| s.parse().ok()).unwrap_or(if thorough { 6 } else { 5 });
    let cap: u64 = std::env::var("HS_CAP").ok().and_then(|s| s.parse().ok()).unwrap_or(if thorough { 6_000_000 } else { 1_200_000 });
    run.emit_reset();
    run.step(&SOp::AddStatic(1, 1), false);
    let mut seen = HashMap::new();
    let t0 = std::time::Instant::now();
    run.dfs(&conns, depth, &mut seen, cap);
    let dfs_s = t0.elapsed().as_secs_f64();
    let (edges, pruned, cap_hit, states) = (run.edges, run.pruned, run.cap_hit, seen.len());
    drop(seen);

    // 3. random scripts over 4 connections (both nodes accept an attacker connection, node 1 dials node 0)
    let conns4 = [(0usize, 1u64), (1, 1), (0, 2), (1, 2)];
    let scripts = if thorough { 20_000 } else { 2_500 };
    for i in 0..scripts {
        let statics: &[(usize, u64)] = if i % 4 == 3 { &[] } else { &[(1, 1)] };
        run.random_script(&mut rng, &conns4, statics, 30);
    }
    let extra = serde_json::json!({
        "exhaustive_depth": depth, "exhaustive_edges": edges, "subtrees_merged_by_state": pruned,
        "distinct_states_expanded": states, "edge_cap_hit": cap_hit, "exhaustive_seconds": dfs_s,
        "random_scripts": scripts, "random_script_length": 30,
    });
    run.out.finish(extra);
}
