//! C07 correspondence: every block the node's own producer assembles must pass full validation on that node
//! and on a second node holding the same chain.
//!
//! Two independent real nodes (A = key 1, B = key 2) are fed the same blocks. In every round one of them is the
//! producer: the generated pool goes through the REAL producer path exactly as `ConsensusThread::bundle_block`
//! drives it — `Mempool::add_transaction_if_validates` for every transaction, `Mempool::add_golden_ticket` +
//! look-up by the tip hash for the ticket, then `Mempool::bundle_block` (all gates: ticket density, 5 s jitter,
//! routing work, the staking transaction) — and the produced block is delivered to the producer and to the other
//! node through `Blockchain::add_block`. Every consensus value of the producer (`block.cv`, header) and of both
//! validators (`generate_consensus_values` on the finished block) and the verdicts are compared with the Lean
//! model (`driver cv`). Direct monitor: a self-produced block that either node does not put on its chain.
//! The suite runs in a child process (`produce-worker`); silence of the worker becomes the answer `stall`.
use crate::common::*;
use crate::node::*;
use saito_core::core::consensus::block::{Block, ConsensusValues};
use saito_core::core::consensus::burnfee::BurnFee;
use saito_core::core::consensus::golden_ticket::GoldenTicket;
use saito_core::core::consensus::slip::{Slip, SlipType};
use saito_core::core::consensus::transaction::{Transaction, TransactionType};
use saito_core::core::defs::{Currency, SaitoHash, SaitoPublicKey, SaitoUTXOSetKey};
use saito_core::core::util::crypto::hash;
use std::collections::HashMap;
use std::io::{BufRead, BufReader, Write};
use std::process::{Command, Stdio};
use std::sync::mpsc;
use std::time::Duration;

pub const HB: u64 = 10_000; // heartbeat: 2·HB = 20 s, the jitter gate is < 5 s, so all three timing regimes are reachable
pub const NKEYS: u64 = 12;
const KEY_A: u64 = 1;
const KEY_B: u64 = 2;
const PAYERS: [u64; 4] = [3, 4, 5, 6];
const ROUTERS: [u64; 3] = [7, 8, 9];
const IDLE: u64 = 10;
const MINER: u64 = 11;

fn loud() -> bool {
    std::env::var("VERIF_LOUD").is_ok()
}

// ------------------------------------------------------------------------------------------------ projections

pub struct Ids {
    pub keys: HashMap<SaitoUTXOSetKey, u32>,
    pub pks: Vec<SaitoPublicKey>,
}
impl Ids {
    pub fn new() -> Ids {
        Ids { keys: HashMap::new(), pks: (0..NKEYS).map(|i| key(i).0).collect() }
    }
    /// public key → small id (0 = the all-zero key, i+1 = deterministic key i, 99 = unknown)
    pub fn pk(&self, k: &SaitoPublicKey) -> u64 {
        if *k == [0; 33] {
            return 0;
        }
        self.pks.iter().position(|x| x == k).map(|i| i as u64 + 1).unwrap_or(99)
    }
    pub fn k(&mut self, x: &SaitoUTXOSetKey) -> u32 {
        let n = self.keys.len() as u32 + 1;
        *self.keys.entry(*x).or_insert(n)
    }
}

fn typ_code(t: TransactionType) -> &'static str {
    match t {
        TransactionType::Normal => "n",
        TransactionType::Fee => "f",
        TransactionType::GoldenTicket => "g",
        TransactionType::ATR => "a",
        TransactionType::SPV => "v",
        TransactionType::Issuance => "i",
        TransactionType::BlockStake => "s",
        TransactionType::Bound => "b",
        _ => "o",
    }
}

fn join<T: ToString>(v: &[T], sep: &str) -> String {
    if v.is_empty() {
        "-".into()
    } else {
        v.iter().map(|x| x.to_string()).collect::<Vec<_>>().join(sep)
    }
}

/// value-carrying, non-Bound input keys of a transaction (what the double-spend sweeps look at)
fn in_keys(tx: &Transaction, ids: &mut Ids) -> Vec<u32> {
    tx.from.iter().filter(|s| s.amount > 0).map(|s| ids.k(&s.get_utxoset_key())).collect()
}

/// `typ:fees:size:work:valid:atrslips:k,k:body` — body (only for Fee / ATR typed transactions, else `-`) is what
/// the signature serialisation commits to: `nFrom.pk.amount.type.….pk.amount.type.…`
fn tx_view(tx: &Transaction, valid: bool, ids: &mut Ids) -> String {
    let atr_slips = tx.to.iter().filter(|s| s.slip_type == SlipType::ATR).count();
    let body = if matches!(tx.transaction_type, TransactionType::Fee | TransactionType::ATR) {
        let mut v: Vec<u64> = vec![tx.from.len() as u64];
        for s in tx.from.iter().chain(tx.to.iter()) {
            v.extend([ids.pk(&s.public_key), s.amount, s.slip_type as u64]);
        }
        join(&v, ".")
    } else {
        "-".to_string()
    };
    format!(
        "{}:{}:{}:{}:{}:{}:{}:{}",
        typ_code(tx.transaction_type),
        tx.total_fees,
        tx.get_serialized_size(),
        tx.total_work_for_me,
        valid as u8,
        atr_slips,
        join(&in_keys(tx, ids), ","),
        body
    )
}

/// what the fee-transaction / rebroadcast hash commit to (the slips of the signature serialisation), as numbers
fn body_list(tx: &Transaction, ids: &Ids) -> String {
    // from-slips then to-slips; each slip `pk.amount.type`, lists separated by '/'
    let f: Vec<String> = tx.from.iter().map(|s| format!("{}.{}.{}", ids.pk(&s.public_key), s.amount, s.slip_type as u8)).collect();
    let t: Vec<String> = tx.to.iter().map(|s| format!("{}.{}.{}", ids.pk(&s.public_key), s.amount, s.slip_type as u8)).collect();
    format!("{}/{}", f.join("+"), t.join("+"))
}

/// every ConsensusValues field validate() compares or create() copies, fixed order
fn cv_dump(cv: &ConsensusValues, block: &Block, ids: &Ids) -> String {
    let block_reb_hash = &block.rebroadcast_hash;
    // index of the fee transaction: L = the block's last transaction and that is the one create() appended, P = another one
    let fti = match cv.ft_index {
        None => "-",
        Some(i) if i + 1 == block.transactions.len() && block.cv.fee_transaction.is_some() => "L",
        Some(_) => "P",
    };
    let fee = match &cv.fee_transaction {
        Some(t) => body_list(t, ids),
        None => "-".into(),
    };
    let rebs: Vec<String> = cv.rebroadcasts.iter().map(|t| body_list(t, ids)).collect();
    format!(
        "ft={} gt={} st={} it={} gti={} fti={} tf={} tfn={} tfa={} tfc={} atf={} atfn={} atfa={} tbn={} tpr={} tpm={} tpt={} tpg={} tpa={} apr={} apm={} apt={} apg={} apa={} afpb={} fpb={} bf={} diff={} rs={} rn={} anr={} dust={} rh={} fee={} rebs={}",
        cv.ft_num,
        cv.gt_num,
        cv.st_num,
        cv.it_num,
        cv.gt_index.map(|x| x.to_string()).unwrap_or("-".into()),
        fti,
        cv.total_fees,
        cv.total_fees_new,
        cv.total_fees_atr,
        cv.total_fees_cumulative,
        cv.avg_total_fees,
        cv.avg_total_fees_new,
        cv.avg_total_fees_atr,
        cv.total_bytes_new,
        cv.total_payout_routing,
        cv.total_payout_mining,
        cv.total_payout_treasury,
        cv.total_payout_graveyard,
        cv.total_payout_atr,
        cv.avg_payout_routing,
        cv.avg_payout_mining,
        cv.avg_payout_treasury,
        cv.avg_payout_graveyard,
        cv.avg_payout_atr,
        cv.avg_fee_per_byte,
        cv.fee_per_byte,
        cv.burnfee,
        cv.difficulty,
        cv.total_rebroadcast_slips,
        cv.total_rebroadcast_nolan,
        cv.avg_nolan_rebroadcast_per_block,
        cv.total_fees_paid_by_nonrebroadcast_atr_transactions,
        (cv.rebroadcast_hash == *block_reb_hash) as u8,
        fee,
        join(&rebs, ";"),
    )
}

/// header of a produced block + canonical (order-independent) transaction summary
fn block_dump(b: &Block, npool: usize, ids: &Ids) -> String {
    let ngt = b.transactions.first().map(|t| t.transaction_type == TransactionType::GoldenTicket).unwrap_or(false) as usize;
    let head = ngt + npool;
    let mut pool_types: Vec<&str> = b.transactions[ngt.min(b.transactions.len())..head.min(b.transactions.len())].iter().map(|t| typ_code(t.transaction_type)).collect();
    pool_types.sort();
    let tail: Vec<&str> = b.transactions[head.min(b.transactions.len())..].iter().map(|t| typ_code(t.transaction_type)).collect();
    let rebs: Vec<String> = b.transactions.iter().filter(|t| t.transaction_type == TransactionType::ATR).map(|t| body_list(t, ids)).collect();
    let fee = b.transactions.last().filter(|t| t.transaction_type == TransactionType::Fee && b.cv.fee_transaction.is_some()).map(|t| body_list(t, ids)).unwrap_or("-".into());
    format!(
        "id={} tr={} gy={} tf={} tfn={} tfa={} tfc={} atf={} atfn={} atfa={} tpr={} tpm={} tpt={} tpg={} tpa={} apr={} apm={} apt={} apg={} apa={} afpb={} fpb={} anr={} bf={} diff={} unpaid={} hasgt={} work={} rs={} txs={}|{}|{} fee={} rebs={}",
        b.id,
        b.treasury,
        b.graveyard,
        b.total_fees,
        b.total_fees_new,
        b.total_fees_atr,
        b.total_fees_cumulative,
        b.avg_total_fees,
        b.avg_total_fees_new,
        b.avg_total_fees_atr,
        b.total_payout_routing,
        b.total_payout_mining,
        b.total_payout_treasury,
        b.total_payout_graveyard,
        b.total_payout_atr,
        b.avg_payout_routing,
        b.avg_payout_mining,
        b.avg_payout_treasury,
        b.avg_payout_graveyard,
        b.avg_payout_atr,
        b.avg_fee_per_byte,
        b.fee_per_byte,
        b.avg_nolan_rebroadcast_per_block,
        b.burnfee,
        b.difficulty,
        b.previous_block_unpaid,
        b.has_golden_ticket as u8,
        b.total_work,
        b.total_rebroadcast_slips,
        if ngt == 1 { "g" } else { "" },
        pool_types.join(""),
        tail.join(""),
        fee,
        join(&rebs, ";"),
    )
}

// ------------------------------------------------------------------------------------------------ context

/// the ticket as the consensus code sees it on this node's chain: miner key, the two winning routers, validity
fn ticket_oracle(n: &Node, gt_tx: Option<&Transaction>, prev_hash: SaitoHash, creator: &SaitoPublicKey, ids: &Ids) -> String {
    let gt_tx = match gt_tx {
        Some(t) => t,
        None => return "-".into(),
    };
    if gt_tx.data.len() != 97 {
        return "bad".into();
    }
    let random: SaitoHash = gt_tx.data[32..64].try_into().unwrap();
    let miner: SaitoPublicKey = gt_tx.data[64..97].try_into().unwrap();
    let mut r = hash(random.as_ref());
    let (mut r1, mut r2, mut ok) = (0u64, 0u64, 0u8);
    if let Some(prev) = n.blockchain.blocks.get(&prev_hash) {
        r1 = ids.pk(&prev.find_winning_router(r));
        r = hash(r.as_ref());
        r = hash(r.as_ref());
        if let Some(pp) = n.blockchain.blocks.get(&prev.previous_block_hash) {
            r2 = ids.pk(&pp.find_winning_router(r));
        }
        let g = GoldenTicket::create(prev.hash, random, miner);
        ok = g.validate(prev.difficulty) as u8;
    }
    let mut probe = gt_tx.clone();
    probe.generate(creator, 0, 0);
    let valid = probe.validate(&n.blockchain.utxoset, &n.blockchain, true) as u8;
    format!("{}:{}:{}:{}:{}:{}", ids.pk(&miner), r1, r2, ok, gt_tx.get_serialized_size(), valid)
}

pub struct CtxInfo {
    pub line: String,
    /// payout multiplier above 1 and at least one eligible output whose payout exceeds the rebroadcast fee
    pub atr_payout_present: bool,
    /// sum of the eligible output amounts of the rebroadcast block
    pub atr_nolan: Currency,
    /// utxo keys of the eligible outputs of the rebroadcast block
    pub atr_keys: Vec<SaitoUTXOSetKey>,
    pub work_needed: Currency,
}

/// everything `generate_consensus_values` / `validate` / `can_bundle_block` read from THIS node's chain for a
/// block at timestamp `ts` on the node's tip, re-derived through the node's public API
async fn ctx_of(n: &Node, ts: u64, gt_tx: Option<&Transaction>, creator: &SaitoPublicKey, ids: &mut Ids) -> CtxInfo {
    let bc = &n.blockchain;
    let gp = n.cfg.consensus.genesis_period;
    let hb = n.cfg.consensus.heartbeat_interval;
    let prev_hash = bc.get_latest_block_hash();
    let mut atr_payout_present = false;
    let mut atr_nolan: Currency = 0;
    let mut atr_keys: Vec<SaitoUTXOSetKey> = vec![];
    let mut work_needed = 0;
    let (prev_s, pp_s, ts_s, atr_s);
    match bc.blocks.get(&prev_hash) {
        None => {
            prev_s = "-".to_string();
            pp_s = "-".to_string();
            ts_s = "dt=0 bf=0 work=0 jitter=0".to_string();
            atr_s = "-".to_string();
        }
        Some(p) => {
            prev_s = format!(
                "{},{},{},{},{},{},{},{},{},{},{},{},{},{},{}",
                p.id,
                p.burnfee,
                p.difficulty,
                p.has_golden_ticket as u8,
                p.treasury,
                p.graveyard,
                p.total_fees,
                p.avg_total_fees,
                p.avg_total_fees_new,
                p.avg_total_fees_atr,
                p.avg_payout_routing,
                p.avg_payout_mining,
                p.avg_fee_per_byte,
                p.avg_nolan_rebroadcast_per_block,
                p.previous_block_unpaid
            );
            pp_s = match bc.blocks.get(&p.previous_block_hash) {
                Some(pp) => format!("{}", pp.total_fees),
                None => "-".into(),
            };
            let bf = BurnFee::calculate_burnfee_for_block(p.burnfee, ts, p.timestamp, hb);
            work_needed = BurnFee::return_routing_work_needed_to_produce_block_in_nolan(p.burnfee, ts, p.timestamp, hb);
            // the producer's 5 s jitter: H(pk ‖ prev hash) mod 5000
            let mut h: Vec<u8> = vec![];
            h.extend(creator.iter());
            h.extend(p.hash.iter());
            let hv = hash(&h);
            let mut low = [0u8; 16];
            low.copy_from_slice(&hv[16..32]);
            let jitter = (u128::from_be_bytes(low) % 5000) as u64;
            ts_s = format!("dt={} bf={} work={} jitter={}", ts.saturating_sub(p.timestamp), bf, work_needed, jitter);
            // ATR source block
            let id = p.id + 1;
            let mut s = "-".to_string();
            if id > gp + 1 {
                if let Some(h) = bc.blockring.get_longest_chain_block_hash_at_block_id(id - (gp + 1)) {
                    if let Some(pb) = bc.blocks.get(&h) {
                        if let Ok(mut ab) = n.storage.load_block_from_disk(n.storage.generate_block_filepath(pb).as_str()).await {
                            let _ = ab.generate();
                            let mult = {
                                let staked = gp * p.avg_nolan_rebroadcast_per_block;
                                1 + if staked > 0 { p.treasury / staked } else { 0 }
                            };
                            let mut txs = vec![];
                            for tx in &ab.transactions {
                                let mut el = vec![];
                                for sl in &tx.to {
                                    if sl.slip_type == SlipType::Bound {
                                        el.push("B".to_string());
                                        continue;
                                    }
                                    if sl.validate(&bc.utxoset) {
                                        el.push(format!("{}.{}.{}.{}", sl.amount, ids.k(&sl.utxoset_key), ids.pk(&sl.public_key), sl.slip_type as u8));
                                        atr_nolan += sl.amount;
                                        if sl.amount > 0 {
                                            atr_keys.push(sl.utxoset_key);
                                        }
                                        if mult > 1 && sl.amount > 0 && sl.amount * mult > tx.get_serialized_size() as u64 * p.avg_fee_per_byte {
                                            atr_payout_present = true;
                                        }
                                    }
                                }
                                txs.push(format!("{}:{}", tx.get_serialized_size(), join(&el, ",")));
                            }
                            s = if txs.is_empty() { "empty".into() } else { txs.join(";") };
                        }
                    }
                }
            }
            atr_s = s;
        }
    }
    let gtcount = bc.is_golden_ticket_count_valid(prev_hash, gt_tx.is_some(), false, false) as u8;
    // has_total_supply_loaded (private): block 1 on the longest chain, or a full window of blocks
    let latest = bc.get_latest_block_id();
    let vau = bc.blockring.get_longest_chain_block_hash_at_block_id(1).is_some()
        || (latest > gp && bc.blockring.get_longest_chain_block_hash_at_block_id(latest - gp).is_some());
    let line = format!(
        "ctx gp={} hb={} stake={} vau={} prev={} pp={} {} gtcount={} gt={} atr={}",
        gp,
        hb,
        bc.social_stake_requirement,
        vau as u8,
        prev_s,
        pp_s,
        ts_s,
        gtcount,
        ticket_oracle(n, gt_tx, prev_hash, creator, ids),
        atr_s
    );
    CtxInfo { line, atr_payout_present, atr_nolan, atr_keys, work_needed }
}

// ------------------------------------------------------------------------------------------------ scenario

#[derive(Clone, Debug)]
pub struct TxPlan {
    pub payer: usize, // index into PAYERS
    pub fee: u64,     // requested fee (clamped to what the input allows)
    pub hops: usize,  // 0..4 routing hops, the last one ends at the producer
    pub big_input: bool,
    pub pad: usize, // extra payload bytes (keeps fee-per-byte low for whale fees)
    /// spend an output of the block that is being rebroadcast right now (id − gp − 1): still spendable for
    /// Transaction::validate although it left the window
    pub old: bool,
    /// pend the transaction in the OTHER node's pool (routed to that node) instead of the producer's
    pub park: bool,
    /// spend an input that a transaction pending in the other node's pool spends too (the one carrying the most
    /// routing work): once the producer's block is delivered, that pending transaction is no longer spendable
    pub conflict: bool,
    /// spend the value input of the transaction submitted just before it to the SAME pool in this round (routed to the
    /// producer as well): the pool must refuse it, and nothing of it may count
    pub conflict_own: bool,
}
#[derive(Clone, Debug, PartialEq)]
pub enum Priv {
    None,
    Issuance,
    Atr,
    Fee,
}
#[derive(Clone, Debug)]
pub struct Round {
    pub producer: usize, // 0 = A, 1 = B
    pub gt: bool,
    pub dt: u64,
    pub txs: Vec<TxPlan>,
    pub privileged: Priv,
    /// before the round: a block T arrives `a` ms after the tip P (with the work that needs), then a hostile fork
    /// P ← F1 ← F2 ← F3 (`b1`, `b2` ms apart, F1 and F2 honest and together lighter than T, F3 with a falsified burn fee
    /// in its header) is offered to both nodes: the fork is tried, wound up to F2, fails at F3 and T is wound back
    pub episode: Option<(u64, u64, u64)>,
}
/// fee marker: the amount of routing work half-way between what the tip requires at the round's offset and what the
/// highest block of the failed fork would require (set by the episode; the plan is skipped when there is no such gap)
pub const AUTO_FEE: u64 = u64::MAX;
/// `episode.0 >= REORG_EPISODE`: the variant in which the fork is honest and heavier and both nodes reorganise onto it
/// (T comes `episode.0 - REORG_EPISODE` ms after its parent)
pub const REORG_EPISODE: u64 = 1_000_000;
#[derive(Clone, Debug)]
pub struct Scenario {
    pub name: String,
    pub gp: u64,
    pub issue: Vec<(u64, Currency)>,
    pub rounds: Vec<Round>,
    pub prune_after: u64,
    /// stop once this many blocks were accepted by both nodes (0 = run every round)
    pub target: usize,
    /// social stake requirement (0 = staking off); the producers' keys are funded at genesis when > 0
    pub stake: u64,
}


pub fn default_issue(whale: Option<usize>) -> Vec<(u64, Currency)> {
    let mut v = vec![];
    for (i, p) in PAYERS.iter().enumerate() {
        for j in 0..6u64 {
            v.push((*p, 100_000 + 10_000 * i as u64 + 1_000 * j));
        }
        if whale == Some(i) {
            v.push((*p, 200_000_000));
        }
    }
    v.push((IDLE, 50));
    v.push((IDLE, 70));
    v
}

pub fn random_scenario(r: &mut Rng, idx: usize, thorough: bool) -> Scenario {
    let gp = *r.pick(&[5u64, 8, 12]);
    // whale mode: an unpaid whale fee feeds the treasury early, and the chain is grown past the window wrap so
    // that rebroadcasts with a payout multiplier above 1 can occur
    let whale = r.coin(2, 5);
    let deep = whale || r.coin(1, 2);
    let target = if deep { gp + 2 + r.below(if thorough { gp + 2 } else { 5 }) } else { 2 + r.below(gp) } as usize;
    let whale_at = 1 + r.below(3) as usize;
    let whale_payer = r.below(4) as usize;
    let nrounds = target * 3 + 4;
    let stake: u64 = if r.coin(1, 6) { 1000 } else { 0 };
    let mut rounds = vec![];
    let mut no_gt_run = 0;
    for i in 0..nrounds {
        let producer = r.below(2) as usize;
        let mut gt = r.coin(3, 5);
        // deep chains mostly use long gaps (every attempt produces a block); the timing regimes are explored on all
        let dt = match r.below(if deep { 16 } else { 9 }) {
            0 => 1,
            1 => r.range(2, 200),
            2 => r.range(200, 5_000),
            3 => r.range(5_000, HB),
            4 => r.range(HB, 2 * HB - 1),
            5 => 2 * HB - 1,
            6 => 2 * HB,
            7 => 2 * HB + 1,
            _ => r.range(2 * HB + 1, 5 * HB),
        };
        let ntx = match r.below(6) {
            0 => 0,
            1 | 2 => 1,
            3 => 2,
            4 => 3,
            _ => r.range(4, 6),
        } as usize;
        let mut txs = vec![];
        for _ in 0..ntx {
            let fee = match r.below(8) {
                0 => 0,
                1 => 1,
                2 => r.range(2, 100),
                3 => r.range(100, 10_000),
                4 => r.range(10_000, 90_000),
                5 => 50_000_000 / dt.max(1), // right at the work threshold for the first burn fee
                6 => 50_000_000 / dt.max(1) + 1,
                _ => r.range(90_000, 105_000),
            };
            txs.push(TxPlan { payer: r.below(4) as usize, fee, hops: r.below(5) as usize, big_input: false, pad: if r.coin(1, 10) { r.range(1, 5000) as usize } else { 0 }, old: false, park: false, conflict: false, conflict_own: false });
        }
        if whale && i == whale_at {
            gt = false;
            txs.push(TxPlan { payer: whale_payer, fee: r.range(20_000_000, 199_990_000), hops: r.below(3) as usize, big_input: true, pad: *r.pick(&[0usize, 100_000, 200_000, 400_000]), old: false, park: false, conflict: false, conflict_own: false });
        }
        if whale && i == whale_at + 1 {
            gt = false;
        }
        if whale && i == whale_at + 2 {
            gt = true;
        }
        if gt {
            no_gt_run = 0;
        } else {
            no_gt_run += 1;
            if no_gt_run >= 3 {
                gt = true;
                no_gt_run = 0;
            }
        }
        let privileged = if r.coin(1, 40) { r.pick(&[Priv::Issuance, Priv::Atr, Priv::Fee]).clone() } else { Priv::None };
        rounds.push(Round { producer, gt, dt, txs, privileged, episode: None });
    }
    if r.coin(1, 4) {
        add_conflicts(r, &mut rounds);
    }
    Scenario {
        name: format!("random-{}", idx),
        gp,
        issue: {
            let mut v = default_issue(if whale { Some(whale_payer) } else { None });
            if stake > 0 {
                for k in [KEY_A, KEY_B] {
                    v.extend([(k, 5_100), (k, 6_300), (k, 7_700), (k, 9_100), (k, 11_900)]);
                }
            }
            v
        },
        rounds,
        prune_after: *r.pick(&[50u64, 50, 3]),
        target,
        stake,
    }
}

/// corpus first (the witnesses of the listed defects `w*.ops` lead, they also calibrate the flags), then random
/// Scripted family "a delivered block makes pending work unspendable": node X pools a work-bearing routed
/// transaction A and a small one B; the other node produces and delivers a block with a conflicting spend A' of A's
/// input (A leaves X's pool, B stays); then X's producer fires inside the 2-heartbeat window at an offset where the
/// work requirement lies between B's work and the former A+B total. A correct node declines (or produces a valid
/// block when B alone suffices); a node whose work counter still includes A produces a block its own validator
/// refuses. Swept over the offset, A's fee, B's fee, the hop counts, which node waits, and with/without a ticket.
pub fn conflict_family() -> Vec<Scenario> {
    let far = 2 * HB + 1;
    let plain = |payer: usize, fee: u64, hops: usize| TxPlan { payer, fee, hops, big_input: false, pad: 0, old: false, park: false, conflict: false, conflict_own: false };
    let mut v = vec![];
    let mut k = 0;
    for (fee_a, hops_a) in [(90_000u64, 1usize), (40_000, 2), (12_000, 1)] {
        for (fee_b, hops_b) in [(0u64, 1usize), (150, 1), (900, 2)] {
            for dt in [5_200u64, 9_000, 14_000, 2 * HB - 1] {
                // keep the sweep small: a Latin-square style selection of the 36 combinations
                if (k / 4 + k) % 3 != 0 {
                    k += 1;
                    continue;
                }
                let waits = k % 2; // the node whose pool holds A and B
                let other = 1 - waits;
                let mut rounds = vec![];
                // two ordinary blocks first (burn fee settles at a known level, both nodes have produced once)
                rounds.push(Round { producer: waits, gt: true, dt: far, txs: vec![plain(0, 10, 0)], privileged: Priv::None, episode: None });
                rounds.push(Round { producer: other, gt: true, dt: far, txs: vec![plain(1, 10, 0)], privileged: Priv::None, episode: None });
                // the other node produces: A and B are parked with the waiting node, A' conflicts with A
                rounds.push(Round {
                    producer: other,
                    gt: true,
                    dt: far,
                    txs: vec![
                        TxPlan { park: true, ..plain(2, fee_a, hops_a) },
                        TxPlan { park: true, ..plain(3, fee_b, hops_b) },
                        TxPlan { conflict: true, ..plain(2, 7, 0) },
                    ],
                    privileged: Priv::None,
                    episode: None,
                });
                // the waiting node's producer fires inside the window, twice (the second attempt a little later)
                rounds.push(Round { producer: waits, gt: k % 3 != 1, dt, txs: vec![], privileged: Priv::None, episode: None });
                rounds.push(Round { producer: waits, gt: true, dt: (dt + 3_000).min(2 * HB - 1), txs: vec![], privileged: Priv::None, episode: None });
                // and the chain goes on
                rounds.push(Round { producer: other, gt: true, dt: far, txs: vec![plain(0, 10, 1)], privileged: Priv::None, episode: None });
                v.push(Scenario { name: format!("conflict-{}", v.len()), gp: 8, issue: default_issue(None), rounds, prune_after: 50, target: 0, stake: 0 });
                k += 1;
            }
        }
    }
    v
}

/// Scripted family "production after a fork that failed part-way": two ordinary blocks, then the episode of
/// `Round::episode` (the tip T is a block that came shortly after its parent; a longer fork with honest, lighter blocks F1,
/// F2 and a falsified F3 is tried and rolled back), then the producer fires inside the 2-heartbeat window with exactly
/// the routing work that lies between what T requires and what F2 would require. A correct node derives the requirement
/// from its tip T and declines; a node that derives it from anything the failed fork left behind produces a block its
/// own validator refuses. Swept over the three gaps, the offset and the producing node.
pub fn failed_fork_family() -> Vec<Scenario> {
    let far = 2 * HB + 1;
    let plain = |payer: usize, fee: u64, hops: usize| TxPlan { payer, fee, hops, big_input: false, pad: 0, old: false, park: false, conflict: false, conflict_own: false };
    let mut v = vec![];
    let mut k = 0usize;
    for a in [300u64, 500, 1_000] {
        for b in [4_000u64, 5_000, 6_000] {
            for dt in [2 * HB - 100, 2 * HB - 2_000] {
                if (k / 2 + k) % 3 == 2 {
                    k += 1;
                    continue;
                }
                let p = k % 2;
                let mut rounds = vec![];
                rounds.push(Round { producer: p, gt: true, dt: far, txs: vec![plain(0, 10, 0)], privileged: Priv::None, episode: None });
                rounds.push(Round { producer: 1 - p, gt: true, dt: far, txs: vec![plain(1, 10, 0)], privileged: Priv::None, episode: None });
                rounds.push(Round { producer: p, gt: k % 3 != 1, dt, txs: vec![plain(3, AUTO_FEE, 1)], privileged: Priv::None, episode: Some((a, b, b + (k as u64 % 3) * 400)) });
                rounds.push(Round { producer: 1 - p, gt: true, dt: far, txs: vec![plain(0, 10, 1)], privileged: Priv::None, episode: None });
                v.push(Scenario { name: format!("failed-fork-{}", v.len()), gp: 8, issue: default_issue(None), rounds, prune_after: 50, target: 0, stake: 0 });
                k += 1;
            }
        }
    }
    // a conflicting spend offered to the SAME pool: A (work a) is pooled, A' (work c, same input) is refused; the producer fires
    // where the requirement lies between a and a + c — nothing of a refused transaction may count as work
    for (j, (fee_a, fee_c, dt)) in [(1_500u64, 4_000u64, 9_000u64), (1_500, 4_000, 14_000), (800, 9_000, 5_200), (2_000, 2_000, 9_000), (600, 1_500, 14_000), (1_000, 30_000, 19_999)].iter().enumerate() {
        let p = j % 2;
        let mut rounds = vec![];
        rounds.push(Round { producer: p, gt: true, dt: far, txs: vec![plain(0, 10, 0)], privileged: Priv::None, episode: None });
        rounds.push(Round { producer: 1 - p, gt: true, dt: far, txs: vec![plain(1, 10, 0)], privileged: Priv::None, episode: None });
        rounds.push(Round {
            producer: p,
            gt: j % 3 != 1,
            dt: *dt,
            txs: vec![plain(2, *fee_a, 1), TxPlan { conflict_own: true, ..plain(2, *fee_c, 1 + j % 2) }],
            privileged: Priv::None,
            episode: None,
        });
        rounds.push(Round { producer: p, gt: true, dt: (*dt + 3_000).min(2 * HB - 1), txs: vec![], privileged: Priv::None, episode: None });
        rounds.push(Round { producer: 1 - p, gt: true, dt: far, txs: vec![plain(0, 10, 1)], privileged: Priv::None, episode: None });
        v.push(Scenario { name: format!("refused-conflict-{}", j), gp: 8, issue: default_issue(None), rounds, prune_after: 50, target: 0, stake: 0 });
    }
    // the reorganisation that succeeds: production goes on on the fork, T's transaction is back in the pools
    for (j, (at, b, dt)) in [(2 * HB + 1, 5_000u64, 2 * HB + 1), (2 * HB + 1, 5_000, 9_000), (3 * HB, 6_000, 2 * HB - 1), (2 * HB + 1, 4_000, 6_000), (5 * HB, 5_000, 2 * HB + 1), (2 * HB + 1, 7_000, 12_000)].iter().enumerate() {
        let p = j % 2;
        let mut rounds = vec![];
        rounds.push(Round { producer: p, gt: true, dt: far, txs: vec![plain(0, 10, 0)], privileged: Priv::None, episode: None });
        rounds.push(Round { producer: 1 - p, gt: true, dt: far, txs: vec![plain(1, 10, 0)], privileged: Priv::None, episode: None });
        rounds.push(Round { producer: p, gt: j % 3 != 1, dt: *dt, txs: vec![plain(3, 60_000, 1)], privileged: Priv::None, episode: Some((REORG_EPISODE + at, *b, *b)) });
        rounds.push(Round { producer: 1 - p, gt: true, dt: far, txs: vec![plain(0, 10, 1)], privileged: Priv::None, episode: None });
        rounds.push(Round { producer: p, gt: true, dt: far, txs: vec![], privileged: Priv::None, episode: None });
        v.push(Scenario { name: format!("reorg-then-produce-{}", j), gp: 8, issue: default_issue(None), rounds, prune_after: 50, target: 0, stake: 0 });
    }
    v
}

/// the same history inside a random scenario: at a few rounds the other node gets A and B parked and the producer a
/// conflicting spend; the next round belongs to the waiting node and falls inside the 2-heartbeat window
fn add_conflicts(r: &mut Rng, rounds: &mut Vec<Round>) {
    let n = rounds.len();
    let mut i = 1;
    while i + 1 < n {
        if r.coin(1, 3) {
            let fee_a = *r.pick(&[3_000u64, 9_000, 20_000, 45_000, 95_000]);
            let fee_b = *r.pick(&[0u64, 1, 40, 300, 2_000]);
            let (pa, pb) = (r.below(4) as usize, r.below(4) as usize);
            let (ha, hb_) = (r.range(1, 3) as usize, r.range(1, 2) as usize);
            let producer = rounds[i].producer;
            rounds[i].dt = r.range(2 * HB + 1, 4 * HB);
            rounds[i].txs.push(TxPlan { payer: pa, fee: fee_a, hops: ha, big_input: false, pad: 0, old: false, park: true, conflict: false, conflict_own: false });
            rounds[i].txs.push(TxPlan { payer: pb, fee: fee_b, hops: hb_, big_input: false, pad: 0, old: false, park: true, conflict: false, conflict_own: false });
            rounds[i].txs.push(TxPlan { payer: pa, fee: r.range(0, 50), hops: r.below(2) as usize, big_input: false, pad: 0, old: false, park: false, conflict: true, conflict_own: false });
            rounds[i + 1].producer = 1 - producer;
            rounds[i + 1].dt = r.range(5_000, 2 * HB - 1);
            rounds[i + 1].txs.clear();
            rounds[i + 1].privileged = Priv::None;
            i += 3;
        } else {
            i += 1;
        }
    }
}

pub fn scenarios(seed: u64, tier: &str) -> Vec<Scenario> {
    let thorough = tier == "thorough";
    let mut v = corpus();
    v.extend(conflict_family());
    v.extend(failed_fork_family());
    let mut r = Rng::new(seed ^ 0xC07);
    let n = if thorough { 3000 } else { 500 };
    for i in 0..n {
        v.push(random_scenario(&mut r, i, thorough));
    }
    v
}

/// scenario text format (corpus/C07/*.ops and the replay files):
/// `gp=<n>`, `issue=key:amount,…`, then one round per line
/// `p=<0|1> gt=<0|1> dt=<ms> priv=<n|i|a|f> txs=payer:fee:hops:big:pad:old:park:conflict:conflict_own,… [ep=a:b1:b2]`
pub fn parse_scenario(text: &str, name: &str) -> Scenario {
    let mut gp = 5;
    let mut target = 0;
    let mut prune_after = 50;
    let mut stake = 0;
    let mut issue: Option<Vec<(u64, Currency)>> = None;
    let mut rounds = vec![];
    for l in text.lines() {
        let l = l.trim();
        if l.is_empty() || l.starts_with('#') {
            continue;
        }
        if let Some(g) = l.strip_prefix("gp=") {
            gp = g.parse().unwrap_or(5);
            continue;
        }
        if let Some(g) = l.strip_prefix("target=") {
            target = g.parse().unwrap_or(0);
            continue;
        }
        if let Some(g) = l.strip_prefix("prune=") {
            prune_after = g.parse().unwrap_or(50);
            continue;
        }
        if let Some(g) = l.strip_prefix("stake=") {
            stake = g.parse().unwrap_or(0);
            continue;
        }
        if let Some(g) = l.strip_prefix("issue=") {
            let mut v = vec![];
            for t in g.split(',') {
                if let Some((k, a)) = t.split_once(':') {
                    if let (Ok(k), Ok(a)) = (k.parse::<u64>(), a.parse::<u64>()) {
                        v.push((k % NKEYS, a));
                    }
                }
            }
            issue = Some(v);
            continue;
        }
        let mut rd = Round { producer: 0, gt: true, dt: 2 * HB + 1, txs: vec![], privileged: Priv::None, episode: None };
        for kv in l.split(' ') {
            match kv.split_once('=') {
                Some(("p", x)) => rd.producer = x.parse::<usize>().unwrap_or(0) % 2,
                Some(("gt", x)) => rd.gt = x == "1",
                Some(("dt", x)) => rd.dt = x.parse().unwrap_or(1).max(1),
                Some(("ep", x)) => {
                    let f: Vec<u64> = x.split(':').filter_map(|y| y.parse().ok()).collect();
                    if f.len() == 3 {
                        rd.episode = Some((f[0], f[1], f[2]));
                    }
                }
                Some(("priv", x)) => {
                    rd.privileged = match x {
                        "i" => Priv::Issuance,
                        "a" => Priv::Atr,
                        "f" => Priv::Fee,
                        _ => Priv::None,
                    }
                }
                Some(("txs", x)) if x != "-" => {
                    for t in x.split(',') {
                        let f: Vec<u64> = t.split(':').filter_map(|y| y.parse().ok()).collect();
                        if f.len() >= 5 {
                            rd.txs.push(TxPlan { payer: (f[0] % 4) as usize, fee: f[1], hops: (f[2] % 5) as usize, big_input: f[3] == 1, pad: f[4] as usize, old: f.get(5) == Some(&1), park: f.get(6) == Some(&1), conflict: f.get(7) == Some(&1), conflict_own: f.get(8) == Some(&1) });
                        }
                    }
                }
                _ => {}
            }
        }
        rounds.push(rd);
    }
    Scenario { name: name.to_string(), gp, issue: issue.unwrap_or_else(|| default_issue(None)), rounds, prune_after, target, stake }
}

pub fn corpus() -> Vec<Scenario> {
    let dir = format!("{}/corpus/C07", verif_root());
    let mut names: Vec<_> = match std::fs::read_dir(&dir) {
        Ok(d) => d.filter_map(|e| e.ok()).map(|e| e.path()).filter(|p| p.extension().map(|x| x == "ops").unwrap_or(false)).collect(),
        Err(_) => vec![],
    };
    names.sort();
    names
        .iter()
        .map(|p| parse_scenario(&std::fs::read_to_string(p).unwrap_or_default(), &format!("corpus-{}", p.file_name().unwrap().to_string_lossy())))
        .collect()
}

pub fn scenario_text(s: &Scenario) -> String {
    let mut o = format!("gp={}\ntarget={}\nprune={}\nstake={}\n", s.gp, s.target, s.prune_after, s.stake);
    let iss: Vec<String> = s.issue.iter().map(|(k, a)| format!("{}:{}", k, a)).collect();
    o.push_str(&format!("issue={}\n", iss.join(",")));
    for r in &s.rounds {
        let txs: Vec<String> = r.txs.iter().map(|t| format!("{}:{}:{}:{}:{}:{}:{}:{}:{}", t.payer, t.fee, t.hops, t.big_input as u8, t.pad, t.old as u8, t.park as u8, t.conflict as u8, t.conflict_own as u8)).collect();
        let p = match r.privileged {
            Priv::None => "n",
            Priv::Issuance => "i",
            Priv::Atr => "a",
            Priv::Fee => "f",
        };
        let ep = match r.episode {
            Some((a, b1, b2)) => format!(" ep={}:{}:{}", a, b1, b2),
            None => String::new(),
        };
        o.push_str(&format!("p={} gt={} dt={} priv={} txs={}{}\n", r.producer, r.gt as u8, r.dt, p, join(&txs, ","), ep));
    }
    o
}

// ------------------------------------------------------------------------------------------------ running

struct World {
    nodes: [Node; 2],
    f: Factory,
    /// every value output the harness has seen created for a payer key (candidates for spending)
    seen: Vec<Utxo>,
    ids: Ids,
    /// what `AUTO_FEE` stands for in the current round (None: no gap, the plan is skipped)
    auto_fee: Option<u64>,
}

fn owner_of(pk: &SaitoPublicKey) -> Option<u64> {
    (0..NKEYS).find(|i| key(*i).0 == *pk)
}

impl World {
    /// spendable outputs of `payer`: tracked, still spendable on node A, created inside the current window
    fn avail(&self, payer: u64, next_id: u64, gp: u64) -> Vec<Utxo> {
        let mut v: Vec<Utxo> = self
            .seen
            .iter()
            .filter(|u| u.owner == payer && u.slip.amount > 0 && u.slip.block_id + gp >= next_id + 1 && u.slip.validate(&self.nodes[0].blockchain.utxoset))
            .cloned()
            .collect();
        v.sort_by_key(|u| (u.slip.amount, u.slip.block_id, u.slip.tx_ordinal, u.slip.slip_index));
        v
    }
    fn learn(&mut self, b: &Block) {
        for tx in &b.transactions {
            for s in &tx.to {
                if s.amount > 0 {
                    if let Some(o) = owner_of(&s.public_key) {
                        self.seen.push(Utxo { slip: s.clone(), owner: o });
                    }
                }
            }
        }
    }
}

fn build_tx(w: &World, plan: &TxPlan, used: &mut Vec<SaitoUTXOSetKey>, producer_key: u64, other_node: usize, next_id: u64, gp: u64, salt: u8) -> Option<Transaction> {
    let mut payer = PAYERS[plan.payer];
    let cands: Vec<Utxo> = if plan.conflict {
        // the value input of the pending transaction with the most routing work in the other node's pool
        let mut pend: Vec<&Transaction> = w.nodes[other_node].mempool.transactions.values().filter(|t| t.transaction_type == TransactionType::Normal && t.from.iter().any(|s| s.amount > 0)).collect();
        pend.sort_by_key(|t| (t.total_work_for_me, t.total_fees, t.signature.to_vec()));
        let mut v = vec![];
        if let Some(t) = pend.last() {
            if let Some(sl) = t.from.iter().find(|s| s.amount > 0) {
                if let Some(u) = w.seen.iter().find(|u| u.slip.utxoset_key == sl.utxoset_key) {
                    payer = u.owner;
                    v.push(u.clone());
                }
            }
        }
        v
    } else if plan.old {
        let mut v: Vec<Utxo> = w
            .seen
            .iter()
            .filter(|u| u.owner == payer && u.slip.amount > 0 && u.slip.block_id + gp + 1 == next_id && u.slip.validate(&w.nodes[0].blockchain.utxoset) && !used.contains(&u.slip.utxoset_key))
            .cloned()
            .collect();
        v.sort_by_key(|u| (u.slip.amount, u.slip.tx_ordinal, u.slip.slip_index));
        v
    } else {
        w.avail(payer, next_id, gp).into_iter().filter(|u| !used.contains(&u.slip.utxoset_key)).collect()
    };
    if cands.is_empty() {
        return None;
    }
    let want = if plan.fee == AUTO_FEE { w.auto_fee? } else { plan.fee };
    // (an automatic fee needs an input that can pay it in full)
    let u = if plan.big_input || plan.fee == AUTO_FEE { cands.last().unwrap().clone() } else { cands.first().unwrap().clone() };
    if plan.fee == AUTO_FEE && u.slip.amount <= want {
        return None;
    }
    used.push(u.slip.utxoset_key);
    let fee = want.min(u.slip.amount - 1);
    let out = u.slip.amount - fee;
    // change goes back to the payer in two slips when large enough (keeps the payers liquid)
    let outputs = if out > 400_000 { vec![(payer, out / 2), (payer, out - out / 2)] } else { vec![(payer, out)] };
    let mut tx = w.f.make_tx(&TxSpec { inputs: vec![u], outputs, data: { let mut d = vec![salt, next_id as u8, plan.conflict as u8]; d.resize(3 + plan.pad, 0x5a); d } });
    // routing path payer → r1 → … → producer, `hops` hops in total
    if plan.hops > 0 {
        let mut chain: Vec<u64> = vec![payer];
        for i in 0..plan.hops - 1 {
            chain.push(ROUTERS[i % ROUTERS.len()]);
        }
        chain.push(producer_key);
        for wnd in chain.windows(2) {
            let (pk, sk) = key(wnd[0]);
            tx.add_hop(&sk, &pk, &key(wnd[1]).0);
        }
    }
    Some(tx)
}

fn privileged_tx(kind: &Priv, f: &Factory, next_id: u64) -> Option<Transaction> {
    match kind {
        Priv::None => None,
        Priv::Issuance => {
            // what a peer can send: type Issuance, one output, no inputs, any signature
            let mut tx = Transaction::create_issuance_transaction(key(PAYERS[0]).0, 1_000 + next_id);
            tx.sign(&key(PAYERS[0]).1);
            Some(tx)
        }
        Priv::Atr => {
            let mut tx = Transaction::default();
            tx.transaction_type = TransactionType::ATR;
            tx.timestamp = f.base_ts;
            let mut s = Slip::default();
            s.public_key = key(PAYERS[1]).0;
            s.amount = 500 + next_id;
            s.slip_type = SlipType::ATR;
            tx.add_to_slip(s);
            tx.sign(&key(PAYERS[1]).1);
            Some(tx)
        }
        Priv::Fee => {
            let mut tx = Transaction::default();
            tx.transaction_type = TransactionType::Fee;
            tx.timestamp = f.base_ts;
            let mut s = Slip::default();
            s.public_key = key(PAYERS[2]).0;
            s.amount = 700 + next_id;
            s.slip_type = SlipType::MinerOutput;
            tx.add_to_slip(s);
            tx.sign(&key(PAYERS[2]).1);
            Some(tx)
        }
    }
}

fn is_privileged(t: TransactionType) -> bool {
    matches!(t, TransactionType::Issuance | TransactionType::ATR | TransactionType::Fee | TransactionType::GoldenTicket)
}

pub struct Emit<'a> {
    pub setup: &'a mut dyn FnMut(&str),
    pub case: &'a mut dyn FnMut(&str, &str),
    pub count: &'a mut dyn FnMut(&str),
    pub fail: &'a mut dyn FnMut(&str, &str, serde_json::Value),
}

/// what the harness observed on the real code in one scenario (feeds the flag calibration)
#[derive(Default, Debug)]
pub struct Report {
    pub accepted: usize,
    /// first produced block with an ATR payout present: (producer total_payout_atr == validator's,
    /// validator's rebroadcast hash == the block's, every ATR tx with a surplus passes Transaction::validate)
    pub atr_first: Option<(bool, bool, bool)>,
    /// a peer-style Issuance/ATR/Fee-typed transaction was admitted to the pool
    pub priv_admitted: Option<bool>,
    /// verdict of Block::validate (producer node) on the first produced block whose drained pool held a Fee-typed
    /// transaction next to the fee transaction create() appends (so the block carries a surplus fee transaction)
    pub surplus_fee_verdict: Option<bool>,
}

/// cause class of a failure, computed by the harness alone from features of the input and of the produced block
fn cause(pool_priv: bool, pool_spends_old: bool, stale_work: (bool, bool), atr_payout: bool, validator_cap_multiplier_zero: bool) -> &'static str {
    // (counter exceeds the pooled work, an earlier bundle of this node lost its pool in a failed Block::create)
    let (stale_work, after_failed_create) = stale_work;
    if pool_priv {
        "privileged-tx-in-pool"
    } else if atr_payout && validator_cap_multiplier_zero {
        "atr-payout-capped-to-nothing-on-both-sides"
    } else if atr_payout {
        "atr-payout-present"
    } else if pool_spends_old {
        "pool-spends-output-outside-window"
    } else if stale_work && after_failed_create {
        "pool-work-counter-exceeds-pool-work"
    } else if stale_work {
        // the listed finding needs a failed Block::create earlier in the history (the pool is drained, the counter stays);
        // a counter that is stale WITHOUT that is a different failure
        "pool-work-counter-exceeds-pool-work/no-failed-create-before"
    } else {
        "none"
    }
}

/// runs one scenario on two fresh nodes
pub async fn run_scenario(sc: &Scenario, seed: u64, e: &mut Emit<'_>) -> Report {
    let mut rep = Report::default();
    let cfg = Cfg::new(sc.gp, HB, sc.prune_after);
    let mut f = Factory::new(seed, cfg.clone());
    let genesis = f.make_genesis(&sc.issue).await;
    f.remember(&genesis);
    let mut w = World { nodes: [Node::new(KEY_A, cfg.clone()), Node::new(KEY_B, cfg.clone())], f, seen: vec![], ids: Ids::new(), auto_fee: None };
    // history feature per node: an earlier bundle lost its pool in a failed Block::create (root of the listed stale counter)
    let mut create_failed = [false, false];
    for n in w.nodes.iter_mut() {
        n.blockchain.social_stake_requirement = sc.stake;
        n.blockchain.social_stake_period = 2;
        let r = guarded_async(n.add_block(genesis.clone())).await;
        if !matches!(r.as_ref().map(add_result_class), Ok("added_lc")) {
            (e.count)("scenario:genesis-not-added");
            return rep;
        }
    }
    w.learn(&genesis);
    (e.setup)(&format!("reset {}", sc.name));
    let mut rejected_in_a_row = 0;
    for (ri, rd) in sc.rounds.iter().enumerate() {
        if sc.target > 0 && rep.accepted >= sc.target {
            break;
        }
        w.auto_fee = None;
        if let Some((a, b1, b2)) = rd.episode {
            match failed_fork_episode(&mut w, sc, rd, a, b1, b2).await {
                Ok(_) if a >= REORG_EPISODE => (e.count)("episode:reorg-onto-heavier-fork:done"),
                Ok(gap) => {
                    (e.count)("episode:failed-fork:done");
                    (e.count)(if gap { "episode:failed-fork:work-gap" } else { "episode:failed-fork:no-work-gap" });
                }
                Err(why) => {
                    (e.count)(&format!("episode:failed-fork:stop:{}", why));
                    break;
                }
            }
        }
        let (tip_a, tip_b) = (w.nodes[0].tip(), w.nodes[1].tip());
        if tip_a != tip_b || tip_a.is_none() {
            (e.count)("scenario:nodes-diverged-stop");
            break;
        }
        let p = rd.producer;
        let o = 1 - p;
        let pkey = if p == 0 { KEY_A } else { KEY_B };
        let ppk = key(pkey).0;
        let tip_hash = tip_a.unwrap().1;
        let parent = w.nodes[p].blockchain.blocks.get(&tip_hash).unwrap().clone();
        let next_id = parent.id + 1;
        let ts = parent.timestamp + rd.dt.max(1);
        let replay = |what: &str| serde_json::json!({"suite": "produce", "scenario": scenario_text(sc), "name": sc.name, "round": ri, "seed": seed, "what": what,
            "rerun": "write the scenario text to a file and run: harness produce-one <file> <seed> x"});

        // ---- the pool, through the real admission path
        let mut used: Vec<SaitoUTXOSetKey> = vec![];
        for n in w.nodes.iter() {
            for t in n.mempool.transactions.values() {
                used.extend(t.from.iter().map(|s| s.utxoset_key));
            }
        }
        // transactions parked in the OTHER node's pool (they stay pending there while this round's producer works)
        let okey = if o == 0 { KEY_A } else { KEY_B };
        for (ti, plan) in rd.txs.iter().enumerate().filter(|(_, t)| t.park) {
            if let Some(tx) = build_tx(&w, plan, &mut used, okey, p, next_id, sc.gp, 100 + ti as u8) {
                let mut probe = tx.clone();
                probe.generate(&key(okey).0, 0, 0);
                let valid = probe.validate(&w.nodes[o].blockchain.utxoset, &w.nodes[o].blockchain, true);
                let n = &mut w.nodes[o];
                let r = guarded_async(n.mempool.add_transaction_if_validates(tx.clone(), &n.blockchain)).await;
                let admitted = n.mempool.transactions.contains_key(&tx.signature);
                // (a refusal only because the input is still reserved in that pool's utxo_map is C14's subject)
                if valid && !admitted && r.is_ok() {
                    (e.count)("pool:refused-input-reserved");
                } else {
                    (e.case)(&format!("admit {} {}", typ_code(tx.transaction_type), valid as u8), &match r { Ok(_) => format!("{}", admitted as u8), Err(_) => "panic".into() });
                }
                (e.count)("tx:parked-in-other-pool");
            }
        }
        let mut submitted: Vec<Transaction> = vec![];
        for (ti, plan) in rd.txs.iter().enumerate().filter(|(_, t)| !t.park) {
            if plan.conflict {
                (e.count)("tx:conflicting-spend-of-pending-input");
            }
            if plan.conflict_own {
                // a different transaction over the value input of the transaction submitted just before it, routed to the producer
                let prev_in = submitted.iter().rev().find_map(|t: &Transaction| t.from.iter().find(|sl| sl.amount > 0).cloned());
                if let Some(sl) = prev_in {
                    if let Some(u) = w.seen.iter().find(|u| u.slip.utxoset_key == sl.utxoset_key).cloned() {
                        let fee = plan.fee.min(u.slip.amount - 1);
                        let payer = u.owner;
                        let out = u.slip.amount - fee;
                        let mut tx = w.f.make_tx(&TxSpec { inputs: vec![u], outputs: vec![(payer, out)], data: vec![0xC0, ti as u8, next_id as u8] });
                        let mut chain: Vec<u64> = vec![payer];
                        for i in 0..plan.hops.max(1) - 1 {
                            chain.push(ROUTERS[i % ROUTERS.len()]);
                        }
                        chain.push(pkey);
                        for wnd in chain.windows(2) {
                            let (pk, sk) = key(wnd[0]);
                            tx.add_hop(&sk, &pk, &key(wnd[1]).0);
                        }
                        (e.count)("tx:conflicting-spend-offered-to-the-same-pool");
                        submitted.push(tx);
                    }
                }
                continue;
            }
            if let Some(tx) = build_tx(&w, plan, &mut used, pkey, o, next_id, sc.gp, ti as u8) {
                (e.count)(&format!("tx:hops={}", plan.hops));
                (e.count)(&format!("tx:fee-class={}", match tx_fee(&tx) { 0 => "0", 1..=99 => "1-99", 100..=99_999 => "100-99999", _ => ">=100000" }));
                submitted.push(tx);
            } else {
                (e.count)("tx:payer-has-no-spendable-output");
            }
        }
        if let Some(tx) = privileged_tx(&rd.privileged, &w.f, next_id) {
            submitted.push(tx);
        }
        for tx in &submitted {
            let mut probe = tx.clone();
            probe.generate(&ppk, 0, 0);
            let valid = probe.validate(&w.nodes[p].blockchain.utxoset, &w.nodes[p].blockchain, true);
            let n = &mut w.nodes[p];
            let r = guarded_async(n.mempool.add_transaction_if_validates(tx.clone(), &n.blockchain)).await;
            let admitted = n.mempool.transactions.contains_key(&tx.signature);
            let ans = match r {
                Ok(_) => format!("{}", admitted as u8),
                Err(_) => "panic".into(),
            };
            // a transaction refused only because an input is already reserved by the pool is C14's subject
            let reserved = valid && !admitted && tx.transaction_type == TransactionType::Normal;
            if reserved {
                (e.count)("pool:refused-input-reserved");
            } else {
                (e.case)(&format!("admit {} {}", typ_code(tx.transaction_type), valid as u8), &ans);
            }
            if is_privileged(tx.transaction_type) {
                (e.count)(&format!("pool:privileged-{}-admitted={}", typ_code(tx.transaction_type), admitted as u8));
                rep.priv_admitted = Some(rep.priv_admitted.unwrap_or(false) || admitted);
            }
        }

        // ---- the ticket, as the consensus thread finds it
        if rd.gt {
            let gt = w.f.golden_ticket_tx(&parent, MINER);
            let n = &mut w.nodes[p];
            n.mempool.add_golden_ticket(gt).await;
        }
        let gt_tx: Option<Transaction> = {
            let n = &w.nodes[p];
            n.mempool.golden_tickets.get(&n.blockchain.get_latest_block_hash()).map(|(t, _)| t.clone())
        };

        // ---- the producer's context and pool as they are when bundle_block is called
        let ci = ctx_of(&w.nodes[p], ts, gt_tx.as_ref(), &ppk, &mut w.ids).await;
        (e.setup)(&ci.line);
        let pool_now: Vec<Transaction> = w.nodes[p].mempool.transactions.values().cloned().collect();
        let mut pool_views: Vec<String> = vec![];
        let mut pool_priv = false;
        // a pooled transaction spends an output of the block being rebroadcast now or of an older block
        let pool_spends_old = pool_now.iter().any(|t| t.from.iter().any(|s| s.amount > 0 && (ci.atr_keys.contains(&s.utxoset_key) || s.block_id + sc.gp + 1 <= next_id)));
        if pool_spends_old {
            (e.count)("round:pool-spends-output-outside-window");
        }
        // the mempool's routing-work counter claims more work than the pooled transactions carry
        let pool_work: Currency = pool_now.iter().map(|t| t.total_work_for_me).sum();
        let stale_work = (w.nodes[p].mempool.get_routing_work_available() > pool_work, create_failed[p]);
        if stale_work.0 {
            (e.count)("round:pool-work-counter-exceeds-pool-work");
        }
        for t in &pool_now {
            let valid = t.validate(&w.nodes[p].blockchain.utxoset, &w.nodes[p].blockchain, true);
            pool_views.push(tx_view(t, valid, &mut w.ids));
            pool_priv |= is_privileged(t.transaction_type);
        }
        pool_views.sort();
        let new_tx_added = w.nodes[p].mempool.new_tx_added;
        let work_avail = w.nodes[p].mempool.get_routing_work_available();
        (e.count)(&format!("round:dt-class={}", if rd.dt < 5000 { "<5s" } else if rd.dt < 2 * HB { "5s..2hb" } else if rd.dt == 2 * HB { "=2hb" } else { ">2hb" }));
        (e.count)(&format!("round:gt={}", gt_tx.is_some() as u8));
        (e.count)(&format!("round:depth={}", if next_id > sc.gp + 1 { "window-wrapped" } else { "before-wrap" }));
        (e.count)(&format!("round:gp={}", sc.gp));
        (e.count)(&format!("round:staking={}", if sc.stake > 0 { "on" } else { "off" }));
        (e.count)(&format!("round:pool-size={}", pool_now.len().min(6)));
        (e.count)(&format!("round:work-vs-needed={}", if ci.work_needed == 0 { "none-needed" } else if work_avail >= ci.work_needed { "enough" } else { "short" }));
        if ci.atr_payout_present {
            (e.count)("round:atr-payout-present");
        }

        // ---- the real producer
        let pool_sigs: Vec<_> = pool_now.iter().map(|t| t.signature).collect();
        // the wallet's slips before the call: bundle_block takes slips out of the wallet only when it builds its staking
        // transaction, i.e. after every gate has passed
        let wallet_before = {
            let wl = w.nodes[p].wallet_lock.read().await;
            (wl.staking_slips.len(), wl.unspent_slips.len(), wl.get_available_balance())
        };
        let produced = {
            let n = &mut w.nodes[p];
            guarded_async(n.mempool.bundle_block(&n.blockchain, ts, gt_tx.clone(), &n.cfg, &n.storage)).await
        };
        // what the producer's wallet would hand out as staking transaction (probed on a copy of the wallet)
        let default_stx = {
            let n = &w.nodes[p];
            let mut wc = n.wallet_lock.read().await.clone();
            match wc.create_staking_transaction(
                n.blockchain.social_stake_requirement,
                n.blockchain.get_latest_unlocked_stake_block_id(),
                (n.blockchain.get_latest_block_id() + 1).saturating_sub(sc.gp),
            ) {
                Ok(mut t) => {
                    t.generate(&ppk, 0, 0);
                    let v = t.validate(&n.blockchain.utxoset, &n.blockchain, true);
                    tx_view(&t, v, &mut w.ids)
                }
                Err(_) => "-".to_string(),
            }
        };
        let mk_op = |stx: &str| format!("bundle new={} workavail={} stx={} pool={}", new_tx_added as u8, work_avail, stx, join(&pool_views, ";"));
        let block = match produced {
            Err(msg) => {
                (e.case)(&mk_op(&default_stx), "panic");
                (e.fail)(&format!("C07/producer-panics/{}", cause(pool_priv, pool_spends_old, stale_work, ci.atr_payout_present, false)), &format!("bundle_block panicked: {}", msg), replay("bundle_block panic"));
                break;
            }
            Ok(None) => {
                if loud() {
                    let n = &w.nodes[p];
                    eprintln!("[{} r{}] none: pool before {} after {} ; stx probe {}", sc.name, ri, pool_now.len(), n.mempool.transactions.len(), default_stx);
                    for t in n.mempool.transactions.values() {
                        eprintln!("      left: {}", tx_view(t, true, &mut Ids::new()));
                    }
                }
                let drained = !pool_now.is_empty() && w.nodes[p].mempool.transactions.is_empty();
                let wallet_after = {
                    let wl = w.nodes[p].wallet_lock.read().await;
                    (wl.staking_slips.len(), wl.unspent_slips.len(), wl.get_available_balance())
                };
                // the wallet handed out slips, so Block::create was reached and failed (a tree that keeps the pool in that
                // case does not show `drained`)
                let create_failed_after_staking = sc.stake > 0 && wallet_after != wallet_before;
                if sc.stake > 0 && (drained || create_failed_after_staking) {
                    // Block::create failed; the staking transaction the real wallet built is gone with the pool and the
                    // probe (a copy of the wallet, hash-set order may differ) cannot be trusted to be the same one
                    (e.count)("bundle:none-create-failed-with-staking-on-not-compared");
                } else {
                    (e.case)(&mk_op(&default_stx), "none");
                }
                (e.count)(if drained { "bundle:none-create-failed-pool-lost" } else { "bundle:none" });
                if drained {
                    create_failed[p] = true;
                }
                continue;
            }
            Ok(Some(b)) => b,
        };
        (e.count)("bundle:block");
        // the staking transaction bundle_block itself adds to the pool (not in the pool before the call)
        let stx = block
            .transactions
            .iter()
            .find(|t| t.transaction_type == TransactionType::BlockStake && !pool_sigs.contains(&t.signature))
            .map(|t| {
                let v = t.validate(&w.nodes[p].blockchain.utxoset, &w.nodes[p].blockchain, true);
                tx_view(t, v, &mut w.ids)
            })
            .unwrap_or("-".into());
        let ngt = gt_tx.is_some() as usize;
        let n_appended = block.cv.rebroadcasts.len() + block.cv.fee_transaction.is_some() as usize;
        let npool = block.transactions.len() - ngt - n_appended;
        (e.case)(&mk_op(&stx), &format!("block {} cv: {}", block_dump(&block, npool, &w.ids), cv_dump(&block.cv, &block, &w.ids)));
        // the drained pool includes the producer's own staking transaction: it may spend an out-of-window output too
        let pool_spends_old = pool_spends_old
            || block.transactions[..(ngt + npool).min(block.transactions.len())]
                .iter()
                .any(|t| t.from.iter().any(|s| s.amount > 0 && (ci.atr_keys.contains(&s.get_utxoset_key()) || s.block_id + sc.gp + 1 <= next_id)));
        // feature of the produced block: would the validator's cap multiplier be zero as well?
        let cap_zero = ci.atr_nolan > 0 && ((block.treasury as f64 * 0.05) as u64) / ci.atr_nolan == 0;
        if loud() {
            eprintln!("[{} r{}] produced id={} txs={} treasury={} tpa={} anr={} nreb={} atrpresent={} capzero={}", sc.name, ri, block.id, block.transactions.len(), block.treasury, block.total_payout_atr, block.avg_nolan_rebroadcast_per_block, block.cv.rebroadcasts.len(), ci.atr_payout_present, cap_zero);
        }

        // ---- validation on the producer, then on the other node
        let mut verdicts = vec![];
        let mut ctx_lines = vec![];
        for (which, ni) in [("producer", p), ("other", o)] {
            let gt_in_block = block.transactions.iter().find(|t| t.transaction_type == TransactionType::GoldenTicket).cloned();
            let cj = ctx_of(&w.nodes[ni], block.timestamp, gt_in_block.as_ref(), &block.creator, &mut w.ids).await;
            (e.setup)(&cj.line);
            ctx_lines.push(cj.line.clone());
            let n = &mut w.nodes[ni];
            let cv = guarded_async(block.generate_consensus_values(&n.blockchain, &n.storage, &n.cfg)).await;
            // verdict of Transaction::validate on the rebroadcast transactions, before the block is wound
            let atrv: Vec<u8> = block.transactions.iter().filter(|t| t.transaction_type == TransactionType::ATR).map(|t| t.validate(&n.blockchain.utxoset, &n.blockchain, true) as u8).collect();
            let atrv_s = if atrv.is_empty() { "-".to_string() } else { atrv.iter().map(|x| x.to_string()).collect::<Vec<_>>().join("") };
            if ci.atr_payout_present && rep.atr_first.is_none() {
                if let Ok(c) = &cv {
                    let surplus_valid = block.transactions.iter().filter(|t| t.transaction_type == TransactionType::ATR).all(|t| t.validate(&n.blockchain.utxoset, &n.blockchain, true));
                    rep.atr_first = Some((c.total_payout_atr == block.cv.total_payout_atr, c.rebroadcast_hash == block.rebroadcast_hash, surplus_valid));
                }
            }
            // the verdict of Block::validate itself (what add_block's wind step calls), then the delivery
            let vau = cj.line.contains(" vau=1 ");
            let verdict = match guarded_async(block.validate(&n.blockchain, &n.blockchain.utxoset, &n.cfg, &n.storage, vau)).await {
                Ok(true) => "1",
                Ok(false) => "0",
                Err(_) => "panic",
            };
            if which == "producer" && rep.surplus_fee_verdict.is_none() && pool_now.iter().any(|t| t.transaction_type == TransactionType::Fee) && !ci.atr_payout_present {
                rep.surplus_fee_verdict = match verdict {
                    "1" => Some(true),
                    "0" => Some(false),
                    _ => None,
                };
            }
            let res = guarded_async(n.add_block(block.clone())).await;
            let cls = match &res {
                Ok(r) => add_result_class(r),
                Err(_) => "panic",
            };
            (e.count)(&format!("validate-vs-delivery:{}:{}", verdict, cls));
            let cvs = match &cv {
                Ok(c) => cv_dump(c, &block, &w.ids),
                Err(_) => "panic".into(),
            };
            (e.case)("validate", &format!("ok={} atrv={} cv: {}", verdict, atrv_s, cvs));
            (e.count)(&format!("validate:{}:{}", which, cls));
            if loud() {
                eprintln!("    {} -> {}", which, cls);
            }
            verdicts.push(cls);
            if cls != "added_lc" {
                let c = cause(pool_priv, pool_spends_old, stale_work, ci.atr_payout_present, cap_zero);
                let key = if cls == "panic" { format!("C07/self-produced-block-crashes-node/{}", c) } else { format!("C07/self-produced-block-rejected/{}", c) };
                let mut rj = replay(which);
                rj["ctx"] = serde_json::json!(cj.line);
                rj["bundle_op"] = serde_json::json!(mk_op(&stx));
                rj["block"] = serde_json::json!(block_dump(&block, npool, &w.ids));
                rj["validator_cv"] = serde_json::json!(cvs);
                (e.fail)(&key, &format!("block {} produced by node {} through Mempool::bundle_block: the {} node answered {}", block.id, ["A", "B"][p], which, cls), rj);
            }
        }
        if ctx_lines[0] != ctx_lines[1] {
            (e.fail)("C07/context-differs-on-same-chain", "the two nodes hold the same chain but derive different consensus inputs", replay("ctx"));
        }
        if verdicts.iter().all(|c| *c == "added_lc") {
            rep.accepted += 1;
            rejected_in_a_row = 0;
            w.learn(&block);
        } else {
            rejected_in_a_row += 1;
            if rejected_in_a_row >= 2 {
                // the chain cannot advance any more (every further attempt repeats the same rejection)
                (e.count)("scenario:chain-stuck-stop");
                break;
            }
        }
        if verdicts.iter().any(|c| *c == "panic") {
            (e.count)("scenario:node-panicked-stop");
            break;
        }
    }
    rep
}

/// `Block::create` on a node's own block store (any known parent), outside the node's pool
async fn create_with(node: &Node, parent_hash: SaitoHash, ts: u64, creator: u64, txs: Vec<Transaction>) -> Result<Block, String> {
    let (pk, sk) = key(creator);
    let mut map: ahash::AHashMap<saito_core::core::defs::SaitoSignature, Transaction> = Default::default();
    for mut t in txs {
        t.generate(&pk, 0, 0);
        map.insert(t.signature, t);
    }
    match guarded_async(Block::create(&mut map, parent_hash, &node.blockchain, ts, &pk, &sk, None, &node.cfg, &node.storage)).await {
        Ok(Ok(mut b)) => {
            b.generate().map_err(|e| e.to_string())?;
            Ok(b)
        }
        Ok(Err(e)) => Err(e.to_string()),
        Err(p) => Err(format!("panic:{}", p)),
    }
}

async fn deliver_both(w: &mut World, b: &Block) -> [&'static str; 2] {
    let mut r = ["-", "-"];
    for i in 0..2 {
        r[i] = match guarded_async(w.nodes[i].add_block(b.clone())).await {
            Ok(x) => add_result_class(&x),
            Err(_) => "panic",
        };
    }
    r
}

/// see `Round::episode`. Ok(true): the round's automatic fee is set (the requirement derived from the tip is above the one
/// derived from the highest block of the failed fork); Ok(false): no such gap; Err: the history did not unfold as scripted
async fn failed_fork_episode(w: &mut World, sc: &Scenario, rd: &Round, a: u64, b1: u64, b2: u64) -> Result<bool, &'static str> {
    let tip = w.nodes[0].tip().ok_or("no-tip")?;
    if w.nodes[1].tip() != Some(tip) {
        return Err("nodes-diverged");
    }
    let pb = w.nodes[0].blockchain.blocks.get(&tip.1).ok_or("no-tip-block")?.clone();
    let needed = |bf: Currency, now: u64, prev: u64| BurnFee::return_routing_work_needed_to_produce_block_in_nolan(bf, now, prev, HB);
    let routed = |payer: usize, fee: u64| TxPlan { payer, fee, hops: 1, big_input: true, pad: 0, old: false, park: false, conflict: false, conflict_own: false };
    let pooled: Vec<SaitoUTXOSetKey> = w.nodes.iter().flat_map(|n| n.mempool.transactions.values().flat_map(|t| t.from.iter().map(|s| s.utxoset_key)).collect::<Vec<_>>()).collect();
    let next_id = pb.id + 1;
    let other_key = if rd.producer == 0 { KEY_B } else { KEY_A };
    // T: the other node's block, `a` ms after P, carrying the work that needs
    let mut used = pooled.clone();
    let at = a % REORG_EPISODE;
    let nt = needed(pb.burnfee, pb.timestamp + at, pb.timestamp);
    let tt = build_tx(w, &routed(2, nt + nt / 10 + 10), &mut used, other_key, 0, next_id, sc.gp, 231).ok_or("payer-cannot-pay-for-T")?;
    let t = create_with(&w.nodes[0], pb.hash, pb.timestamp + at, other_key, vec![tt]).await.map_err(|_| "create-T-failed")?;
    if deliver_both(w, &t).await != ["added_lc", "added_lc"] {
        return Err("T-not-adopted");
    }
    w.learn(&t);
    // the fork, built on each node's own store as the blocks arrive; its transactions spend outputs that exist at P
    let mut used_f = pooled.clone();
    let n1 = needed(pb.burnfee, pb.timestamp + b1, pb.timestamp);
    let t1 = build_fork_tx(w, &pb, 0, n1 + n1 / 10 + 10, &mut used_f, 232).ok_or("payer-cannot-pay-for-F1")?;
    let f1 = create_with(&w.nodes[0], pb.hash, pb.timestamp + b1, IDLE, vec![t1]).await.map_err(|_| "create-F1-failed")?;
    if deliver_both(w, &f1).await != ["added_side", "added_side"] {
        return Err("F1-not-a-side-block");
    }
    let n2 = needed(f1.burnfee, f1.timestamp + b2, f1.timestamp);
    let t2 = build_fork_tx(w, &pb, 1, n2 + n2 / 10 + 10, &mut used_f, 233).ok_or("payer-cannot-pay-for-F2")?;
    let f2 = create_with(&w.nodes[0], f1.hash, f1.timestamp + b2, IDLE, vec![t2]).await.map_err(|_| "create-F2-failed")?;
    if a < REORG_EPISODE && (f1.burnfee as u128) + (f2.burnfee as u128) >= t.burnfee as u128 {
        return Err("fork-not-lighter-than-T");
    }
    if a >= REORG_EPISODE && (f1.burnfee as u128) + (f2.burnfee as u128) < t.burnfee as u128 {
        return Err("fork-not-heavier-than-T");
    }
    if a < REORG_EPISODE && deliver_both(w, &f2).await != ["added_side", "added_side"] {
        return Err("F2-not-a-side-block");
    }
    if a >= REORG_EPISODE {
        // variant: T came late (light), the honest fork is the heavier chain: both nodes reorganise onto F2 and T's
        // transaction goes back to the pools
        if deliver_both(w, &f2).await != ["added_lc", "added_lc"] {
            return Err("F2-not-adopted");
        }
        w.learn(&f1);
        w.learn(&f2);
        return Ok(false);
    }
    let t3 = build_fork_tx(w, &pb, 2, 10, &mut used_f, 234).ok_or("payer-cannot-pay-for-F3")?;
    let mut f3 = create_with(&w.nodes[0], f2.hash, f2.timestamp + 2 * HB + 1, IDLE, vec![t3]).await.map_err(|_| "create-F3-failed")?;
    // the hostile part: the header states a burn fee that makes the fork the heavier chain
    f3.burnfee = t.burnfee.saturating_mul(2);
    w.f.resign(&mut f3, IDLE);
    let r3 = deliver_both(w, &f3).await;
    if r3 != ["invalid", "invalid"] {
        return Err("F3-not-rejected");
    }
    if w.nodes[0].tip().map(|x| x.1) != Some(t.hash) || w.nodes[1].tip().map(|x| x.1) != Some(t.hash) {
        return Err("tip-not-restored");
    }
    let now = t.timestamp + rd.dt.max(1);
    let from_tip = needed(t.burnfee, now, t.timestamp);
    let from_fork = needed(f2.burnfee, now, f2.timestamp);
    if from_fork < from_tip && from_tip - from_fork >= 4 {
        w.auto_fee = Some(from_fork + (from_tip - from_fork) / 2);
        Ok(true)
    } else {
        Ok(false)
    }
}

/// a transaction for a fork block: the largest output of the payer that existed when block `at` was the tip (it may have been
/// spent on the main chain since), routed in one hop to the fork's creator
fn build_fork_tx(w: &World, at: &Block, payer: usize, fee: u64, used: &mut Vec<SaitoUTXOSetKey>, salt: u8) -> Option<Transaction> {
    let payer = PAYERS[payer];
    let mut c: Vec<Utxo> = w.seen.iter().filter(|u| u.owner == payer && u.slip.amount > fee && u.slip.block_id <= at.id && !used.contains(&u.slip.utxoset_key)).cloned().collect();
    c.sort_by_key(|u| (u.slip.amount, u.slip.block_id, u.slip.tx_ordinal, u.slip.slip_index));
    // spendable at `at`: not consumed by a block up to `at` on node A's chain — the nodes hold T on top of `at`, so an output T
    // consumed is still listed as spent there; T's transaction spends payer index 2 only and the fork uses it last
    let u = c.into_iter().rev().find(|u| u.slip.validate(&w.nodes[0].blockchain.utxoset))?;
    used.push(u.slip.utxoset_key);
    let out = u.slip.amount - fee;
    let mut tx = w.f.make_tx(&TxSpec { inputs: vec![u], outputs: vec![(payer, out)], data: vec![salt, at.id as u8] });
    let (pk, sk) = key(payer);
    tx.add_hop(&sk, &pk, &key(IDLE).0);
    Some(tx)
}

fn tx_fee(tx: &Transaction) -> u64 {
    let i: u64 = tx.from.iter().map(|s| s.amount).sum();
    let o: u64 = tx.to.iter().map(|s| s.amount).sum();
    i.saturating_sub(o)
}

/// defect flags of the tree under test, measured on the witness scenarios (DESIGN §3.2)
fn flags_line(reps: &[(String, Report)], txv: u8, fee_direct: u8) -> String {
    let find = |n: &str| reps.iter().find(|(name, _)| name.starts_with(n)).map(|(_, r)| r);
    let atr = find("corpus-w1-").and_then(|r| r.atr_first);
    let hsh = find("corpus-w2-").and_then(|r| r.atr_first);
    // fixed = producer and validator compute the same ATR payout on the witness block
    let atrcap = atr.map(|x| x.0).unwrap_or(false) as u8;
    // fixed = the validator's rebroadcast hash equals the hash of the block's own rebroadcast transactions
    let rebhash = hsh.map(|x| x.1).unwrap_or(false) as u8;
    // fixed = rebroadcast transactions carrying a payout pass Transaction::validate
    let atrkey = atr.map(|x| x.2).unwrap_or(false) as u8;
    // fixed = none of the privileged-typed transactions entered the pool
    let privs: Vec<bool> = reps.iter().filter(|(n, _)| n.starts_with("corpus-w3-") || n.starts_with("corpus-w4")).filter_map(|(_, r)| r.priv_admitted).collect();
    let poolpriv = (!privs.is_empty() && privs.iter().all(|a| !*a)) as u8;
    // fixed (F7) = a block carrying a surplus fee transaction (w4b: a Fee-typed pool tx + the appended one) does not validate
    // when the pool no longer admits Fee-typed transactions the witness cannot build such a block: the flag is then taken
    // from the transaction suite's direct measurement (a hand-built block with a surplus Fee-typed transaction)
    let feecount = match find("corpus-w4b-").and_then(|r| r.surplus_fee_verdict) {
        Some(ok) => (!ok) as u8,
        None => fee_direct,
    };
    format!("flags atrcap={} rebhash={} poolpriv={} txv={} atrkey={} feecount={}", atrcap, rebhash, poolpriv, txv, atrkey, feecount)
}


/// child process: runs scenarios from `start` and streams tagged lines on stdout
pub fn worker(seed: u64, tier: &str, start: usize) {
    let rt = rt();
    let all = scenarios(seed, tier);
    let stdout = std::io::stdout();
    let put = |tag: &str, s: &str| {
        let mut o = stdout.lock();
        writeln!(o, "{}\t{}", tag, s.replace('\n', " ")).unwrap();
        o.flush().unwrap();
    };
    let mut reps: Vec<(String, Report)> = vec![];
    let mut total = 0;
    let n_witness = all.iter().take_while(|s| s.name.starts_with("corpus-w")).count();
    for (i, sc) in all.iter().enumerate() {
        if i < start {
            continue;
        }
        put("C", &i.to_string());
        let mut setup = |s: &str| put("S", s);
        let mut case = |a: &str, b: &str| {
            put("O", a);
            put("I", b);
        };
        let mut count = |s: &str| put("H", s);
        let mut fail = |k: &str, w: &str, r: serde_json::Value| put("M", &format!("{}\t{}\t{}", k, w, r));
        let mut e = Emit { setup: &mut setup, case: &mut case, count: &mut count, fail: &mut fail };
        let rep = rt.block_on(run_scenario(sc, seed.wrapping_add(i as u64), &mut e));
        total += rep.accepted;
        if i < n_witness {
            reps.push((sc.name.clone(), rep));
            if i == n_witness - 1 && start == 0 {
                let txv = crate::chain::calibrate().split(' ').find_map(|t| t.strip_prefix("txv=").map(|v| (v == "1") as u8)).unwrap_or(0);
                let fee_direct = rt.block_on(crate::txv::calibrate()).fee;
                put("F", &flags_line(&reps, txv, fee_direct));
            }
        }
    }
    put("E", &format!("{}\t{}", all.len(), total));
}

/// parent: spawns the worker, turns silence into `stall`, writes ops/impl/stats (the flags line first)
pub fn run(seed: u64, tier: &str, outdir: &str) {
    enum L {
        Setup(String),
        Case(String, String),
    }
    let mut lines: Vec<L> = vec![];
    let mut out = Out::new(outdir);
    let exe = std::env::current_exe().unwrap();
    let mut flags = "flags atrcap=0 rebhash=0 poolpriv=0 txv=0 atrkey=0 feecount=0".to_string();
    let mut start = 0usize;
    let mut stalls = 0;
    let mut summary = (0usize, 0usize);
    let mut per_key: HashMap<String, usize> = HashMap::new();
    'outer: loop {
        let mut child = Command::new(&exe)
            .args(["produce-worker", &seed.to_string(), tier, &start.to_string()])
            .stdout(Stdio::piped())
            .stderr(Stdio::null())
            .spawn()
            .unwrap();
        let stdout = child.stdout.take().unwrap();
        let (tx, rx) = mpsc::channel::<String>();
        std::thread::spawn(move || {
            for l in BufReader::new(stdout).lines().map_while(Result::ok) {
                if tx.send(l).is_err() {
                    break;
                }
            }
        });
        let mut cur = start;
        let mut pending: Option<String> = None;
        loop {
            match rx.recv_timeout(Duration::from_millis(90_000)) {
                Ok(l) => {
                    let (tag, rest) = l.split_once('\t').unwrap_or((&l, ""));
                    match tag {
                        "C" => cur = rest.parse().unwrap_or(cur),
                        "S" => lines.push(L::Setup(rest.to_string())),
                        "O" => pending = Some(rest.to_string()),
                        "I" => {
                            if let Some(op) = pending.take() {
                                lines.push(L::Case(op, rest.to_string()));
                            }
                        }
                        "H" => out.count(rest),
                        "F" => flags = rest.to_string(),
                        "M" => {
                            let q: Vec<&str> = rest.splitn(3, '\t').collect();
                            if q.len() == 3 {
                                // keep three replays per key (the stats file caps the list), count every occurrence
                                let n = per_key.entry(q[0].to_string()).or_insert(0usize);
                                *n += 1;
                                if *n <= 3 {
                                    out.monitor_fail(q[0], q[1], serde_json::from_str(q[2]).unwrap_or(serde_json::Value::Null));
                                } else {
                                    out.count(&format!("monitor_fail:{}", q[0]));
                                }
                            }
                        }
                        "E" => {
                            let q: Vec<usize> = rest.split('\t').filter_map(|x| x.parse().ok()).collect();
                            if q.len() == 2 {
                                summary = (q[0], q[1]);
                            }
                            let _ = child.wait();
                            break 'outer;
                        }
                        _ => {}
                    }
                }
                Err(_) => {
                    // silence: the worker is stuck inside the node (or died)
                    let _ = child.kill();
                    let _ = child.wait();
                    out.monitor_fail(
                        "C07/producer-or-validator-does-not-return",
                        "no progress for 90 s inside a scenario (bundle_block / add_block did not return, or the worker died)",
                        serde_json::json!({"scenario_index": cur, "seed": seed, "tier": tier}),
                    );
                    stalls += 1;
                    start = cur + 1;
                    if stalls > 5 {
                        out.count("too-many-stalls-stopped-early");
                        break 'outer;
                    }
                    continue 'outer;
                }
            }
        }
    }
    out.setup(&flags);
    for l in lines {
        match l {
            L::Setup(s) => out.setup(&s),
            L::Case(a, b) => out.case(&a, &b),
        }
    }
    out.finish(serde_json::json!({"scenarios": summary.0, "blocks_accepted_by_both_nodes": summary.1, "stalls": stalls, "flags_measured": flags,
        "producer_path": "Mempool::add_transaction_if_validates + add_golden_ticket + Mempool::bundle_block, then Blockchain::add_block on both nodes"}));
}

/// `harness produce-one <file> <seed> x` : run one scenario file and print every line (replay)
pub fn one(path: &str, seed: u64) {
    let text = std::fs::read_to_string(path).unwrap_or_default();
    let sc = parse_scenario(&text, "replay");
    let rt = rt();
    let mut setup = |s: &str| println!("S {}", s);
    let mut case = |a: &str, b: &str| println!("O {}\nI {}", a, b);
    let mut count = |_: &str| {};
    let mut fail = |k: &str, w: &str, _: serde_json::Value| println!("MONITOR {} : {}", k, w);
    let mut e = Emit { setup: &mut setup, case: &mut case, count: &mut count, fail: &mut fail };
    let rep = rt.block_on(run_scenario(&sc, seed, &mut e));
    println!("{:?}", rep);
}
