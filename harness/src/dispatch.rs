//! C11 correspondence: the REAL `RoutingThread` (`process_network_event` / `process_event`), `VerificationThread`
//! (`process_event` = `verify_tx` / `verify_block`) and `ConsensusThread` (`process_event`, `process_timer_event`)
//! wired with in-memory tokio channels and `MemIO` (port of the `#[cfg(test)]` NodeTester wiring), a small honest
//! chain, four peer slots (static-config, honest handshaken, attacker, attacker's second connection) plus an index
//! that never existed. Sequences of peer inputs (all 15 message tags x semantic classes, connection events,
//! fetched-block classes) interleaved with honest traffic and explicit handler-schedule steps (run verification /
//! consensus / timer tick / advance the clock) are fed to the real handlers, EACH handler call under
//! `guarded_async`; every case runs in a child process (`disp-worker`) so a spin becomes `stall`.
//! Request line: `step <node summary> | <event>`; answer: `<outcome> d=<sender disconnected by io> s=<sent to sender>
//! q=<dvq>,<dcq>,<dpool> p=<sender status,key,challenge>`.
use crate::common::*;
use crate::node::*;
use saito_core::core::consensus::block::Block;
use saito_core::core::consensus::blockchain::Blockchain;
use saito_core::core::consensus::blockchain_sync_state::BlockchainSyncState;
use saito_core::core::consensus::golden_ticket::GoldenTicket;
use saito_core::core::consensus::mempool::Mempool;
use saito_core::core::consensus::peers::peer::{Peer, PeerStatus};
use saito_core::core::consensus::peers::peer_collection::PeerCollection;
use saito_core::core::consensus::peers::peer_service::PeerService;
use saito_core::core::consensus::peers::rate_limiter::RateLimiter;
use saito_core::core::consensus::slip::{Slip, SlipType};
use saito_core::core::consensus::transaction::{Transaction, TransactionType};
use saito_core::core::consensus::wallet::Wallet;
use saito_core::core::consensus_thread::{ConsensusEvent, ConsensusStats, ConsensusThread};
use saito_core::core::defs::{SaitoHash, StatVariable, Timestamp, STAT_BIN_COUNT};
use saito_core::core::io::network::{Network, PeerDisconnectType};
use saito_core::core::io::network_event::NetworkEvent;
use saito_core::core::io::storage::Storage;
use saito_core::core::mining_thread::MiningEvent;
use saito_core::core::msg::api_message::ApiMessage;
use saito_core::core::msg::ghost_chain_sync::GhostChainSync;
use saito_core::core::msg::handshake::{HandshakeChallenge, HandshakeResponse};
use saito_core::core::msg::message::Message;
use saito_core::core::process::keep_time::{KeepTime, Timer};
use saito_core::core::process::process_event::ProcessEvent;
use saito_core::core::process::version::Version;
use saito_core::core::routing_thread::{RoutingEvent, RoutingStats, RoutingThread};
use saito_core::core::util::configuration::{Configuration, PeerConfig};
use saito_core::core::util::crypto::sign;
use saito_core::core::verification_thread::{VerificationThread, VerifyRequest};
use std::collections::VecDeque;
use std::io::{BufRead, BufReader, Write};
use std::process::{Command, Stdio};
use std::sync::atomic::{AtomicU64, Ordering};
use std::sync::{mpsc, Arc, Mutex};
use std::time::Duration;
use tokio::sync::mpsc::Receiver;
use tokio::sync::RwLock;

pub const GP: u64 = 100;
pub const HEARTBEAT: u64 = 100;
pub const NKEYS: u64 = 8;
/// node's own wallet key
pub const K_NODE: u64 = 7;
/// peer slots
pub const P_STATIC: u64 = 1;
pub const P_HONEST: u64 = 2;
pub const P_ATT: u64 = 3;
pub const P_ATT2: u64 = 4;
pub const P_NONE: u64 = 9;
/// keys of the peers (also the owners of genesis outputs 1..3)
pub const K_HONEST: u64 = 1;
pub const K_STATIC: u64 = 2;
pub const K_ATT: u64 = 3;
pub const K_ATT_OTHER: u64 = 5;

#[derive(Clone)]
pub struct Clock(pub Arc<AtomicU64>);
impl KeepTime for Clock {
    fn get_timestamp_in_ms(&self) -> Timestamp {
        self.0.load(Ordering::SeqCst)
    }
}

// ------------------------------------------------------------------------------------------------ event language
/// a hostile transaction SHAPE: type x slip counts x slip-type pattern per side x signed or not (zero amounts, the
/// attacker's own key everywhere, so the cheap early checks of `Transaction::validate` pass)
#[derive(Clone, Copy, Debug, PartialEq, Eq)]
pub struct Shape {
    pub ty: u8,
    pub nin: u8,
    pub nout: u8,
    pub pin: u8,
    pub pout: u8,
    pub signed: bool,
    /// slip_index pattern of the inputs: 0 = 0,1,2..; 1 = 253,254,255,..; 2 = 254,255,0,..; 3 = 255,0,1,..; 4 = all 255; 5 = 255,254,253,..
    pub sidx: u8,
    /// one integer field set to a boundary value BEFORE signing (0 = none; see `TWEAK_NAMES`)
    pub tw: u8,
    /// which boundary: 0 -> 0, 1 -> 1, 2 -> MAX-1, 3 -> MAX of the field's type
    pub tv: u8,
}
pub const TWEAK_NAMES: [&str; 11] = ["none", "timestamp", "txs-replacements", "input0-amount", "input0-block-id", "input0-tx-ordinal", "last-input-slip-index", "output0-amount", "output0-block-id", "output0-tx-ordinal", "all-amounts"];
pub const BOUNDARY_NAMES: [&str; 4] = ["0", "1", "max-minus-1", "max"];
pub fn boundary(tv: u8, max: u64) -> u64 {
    match tv {
        0 => 0,
        1 => 1,
        2 => max - 1,
        _ => max,
    }
}
pub fn u64_class(v: u64) -> String {
    match v {
        0 => "0".into(),
        1 => "1".into(),
        u64::MAX => "u64-max".into(),
        x if x == u64::MAX - 1 => "u64-max-minus-1".into(),
        x if x == u32::MAX as u64 => "u32-max".into(),
        _ => "other".into(),
    }
}
pub const TX_TYPE_NAMES: [&str; 9] = ["normal", "fee", "goldenticket", "atr", "vip", "spv", "issuance", "blockstake", "bound"];
impl Shape {
    /// coarse class used in finding keys: transaction type + relation of the slip counts
    pub fn class(&self) -> String {
        let cnt = if self.nin == 0 {
            "no-inputs"
        } else if self.nout == 0 {
            "no-outputs"
        } else if (self.nin >= 3) != (self.nout >= 3) {
            "lopsided-slip-counts"
        } else if self.nin >= 3 {
            "three-or-more-slips-each-side"
        } else {
            "fewer-than-three-slips-each-side"
        };
        // boundary shapes: one key per FIELD (the transaction type and the exact value are in the replay)
        if self.tw != 0 {
            let v = if self.tv >= 2 { "near-max" } else { "near-zero" };
            return format!("tx-{}-{}", TWEAK_NAMES[(self.tw as usize).min(10)], v);
        }
        if self.sidx != 0 {
            return format!("{}-tx-input-slip-index-near-255", TX_TYPE_NAMES[(self.ty as usize).min(8)]);
        }
        format!("{}-tx-{}", TX_TYPE_NAMES[(self.ty as usize).min(8)], cnt)
    }
    pub fn spec(&self) -> String {
        if self.sidx == 0 && self.tw == 0 {
            format!("shape {} {} {} {} {} {}", self.ty, self.nin, self.nout, self.pin, self.pout, self.signed as u8)
        } else {
            format!("shape {} {} {} {} {} {} {} {} {}", self.ty, self.nin, self.nout, self.pin, self.pout, self.signed as u8, self.sidx, self.tw, self.tv)
        }
    }
    pub fn plain(ty: u8, nin: u8, nout: u8, pin: u8, pout: u8, signed: bool) -> Shape {
        Shape { ty, nin, nout, pin, pout, signed, sidx: 0, tw: 0, tv: 0 }
    }
}
fn slip_pattern(p: u8, n: usize) -> Vec<SlipType> {
    (0..n)
        .map(|i| match p {
            1 if i == 0 => SlipType::Bound,
            2 if i % 2 == 0 => SlipType::Bound,
            3 if i == 0 => SlipType::BlockStake,
            4 if i == 0 => SlipType::ATR,
            _ => SlipType::Normal,
        })
        .collect()
}

/// a message / fetched block whose INTEGER fields sit on boundary values (boundary sweep, monitor-only)
#[derive(Clone, Copy, Debug, PartialEq, Eq)]
pub enum Probe {
    /// tag 11; fork: 0 zero, 1 all 0xFF, 2 the node's own fork id, 3 random
    GhostReq { id: u64, fork: u8 },
    /// tag 5
    ChainReq { id: u64, fork: u8 },
    /// tag 6 with an unknown hash
    HeaderHash { id: u64 },
    /// tag 10: n entries with ids id, id+1 (wrapping).. and timestamps ts
    Ghost { id: u64, ts: u64, n: u8, txs: bool },
    /// tags 12..14 with message index idx
    Api { tag: u8, idx: u32 },
    /// tag 2 (valid signature) with core (which = 0) or wallet (which = 1) version major.minor.patch
    RespVer { major: u8, minor: u8, patch: u16, which: u8 },
    /// a valid next block with one header integer field replaced and re-signed (see `BLOCK_FIELD_NAMES`)
    BlockField { field: u8, val: u64 },
    /// a valid next block delivered with this `block_id` in the BlockFetched event
    FetchedId { id: u64 },
}
pub const BLOCK_FIELD_NAMES: [&str; 27] = [
    "id", "timestamp", "graveyard", "treasury", "total-fees", "total-fees-new", "total-fees-atr", "total-fees-cumulative", "avg-total-fees", "avg-total-fees-new",
    "avg-total-fees-atr", "total-payout-routing", "total-payout-mining", "total-payout-treasury", "total-payout-graveyard", "total-payout-atr", "avg-payout-routing",
    "avg-payout-mining", "avg-payout-treasury", "avg-payout-graveyard", "avg-payout-atr", "avg-fee-per-byte", "fee-per-byte", "avg-nolan-rebroadcast-per-block", "burnfee",
    "difficulty", "previous-block-unpaid",
];
impl Probe {
    pub fn class(&self) -> String {
        match self {
            Probe::GhostReq { id, .. } => format!("ghost-chain-request-block-id-{}", u64_class(*id)),
            Probe::ChainReq { id, .. } => format!("blockchain-request-block-id-{}", u64_class(*id)),
            Probe::HeaderHash { id } => format!("header-hash-block-id-{}", u64_class(*id)),
            Probe::Ghost { id, ts, txs, .. } => format!("ghost-chain-block-id-{}-timestamp-{}-{}", u64_class(*id), u64_class(*ts), if *txs { "fetch" } else { "ghost-blocks" }),
            Probe::Api { tag, idx } => format!("api-message-tag{}-index-{}", tag, u64_class(if *idx == u32::MAX { u32::MAX as u64 } else { *idx as u64 })),
            Probe::RespVer { major, minor, patch, which } => format!("handshake-response-{}-version-{}.{}.{}", if *which == 0 { "core" } else { "wallet" }, major, minor, patch),
            Probe::BlockField { field, val } => format!("block-header-{}-{}", BLOCK_FIELD_NAMES[(*field as usize).min(26)], u64_class(*val)),
            Probe::FetchedId { id } => format!("block-fetched-event-block-id-{}", u64_class(*id)),
        }
    }
    pub fn spec(&self) -> String {
        match self {
            Probe::GhostReq { id, fork } => format!("probe ghostreq {} {}", id, fork),
            Probe::ChainReq { id, fork } => format!("probe chainreq {} {}", id, fork),
            Probe::HeaderHash { id } => format!("probe headerhash {}", id),
            Probe::Ghost { id, ts, n, txs } => format!("probe ghost {} {} {} {}", id, ts, n, *txs as u8),
            Probe::Api { tag, idx } => format!("probe api {} {}", tag, idx),
            Probe::RespVer { major, minor, patch, which } => format!("probe respver {} {} {} {}", major, minor, patch, which),
            Probe::BlockField { field, val } => format!("probe blockfield {} {}", field, val),
            Probe::FetchedId { id } => format!("probe fetchedid {}", id),
        }
    }
    pub fn tag(&self) -> u8 {
        match self {
            Probe::GhostReq { .. } => 11,
            Probe::ChainReq { .. } => 5,
            Probe::HeaderHash { .. } => 6,
            Probe::Ghost { .. } => 10,
            Probe::Api { tag, .. } => *tag,
            Probe::RespVer { .. } => 2,
            _ => 0,
        }
    }
}

#[derive(Clone, Copy, Debug, PartialEq, Eq)]
pub enum TxC {
    /// the transaction described by the world's current `Shape` (shape sweep, monitor-only)
    Shape,
    Valid,
    BadSig,
    SpendMissing,
    NoOutputs,
    NormalNoInputs,
    GtOk,
    GtShort,
    GtLong,
    Issuance,
    Atr,
}
impl TxC {
    pub fn name(&self) -> &'static str {
        match self {
            TxC::Shape => "shape",
            TxC::Valid => "valid",
            TxC::BadSig => "badsig",
            TxC::SpendMissing => "spendmissing",
            TxC::NoOutputs => "nooutputs",
            TxC::NormalNoInputs => "normalnoinputs",
            TxC::GtOk => "gtok",
            TxC::GtShort => "gtshort",
            TxC::GtLong => "gtlong",
            TxC::Issuance => "issuance",
            TxC::Atr => "atr",
        }
    }
    pub const ALL: [TxC; 10] =
        [TxC::Valid, TxC::BadSig, TxC::SpendMissing, TxC::NoOutputs, TxC::NormalNoInputs, TxC::GtOk, TxC::GtShort, TxC::GtLong, TxC::Issuance, TxC::Atr];
}

#[derive(Clone, Copy, Debug, PartialEq, Eq)]
pub enum BlkC {
    /// a valid block on the tip into which the transaction of the current `Shape` was inserted (re-signed)
    Shape,
    /// the fetched block described by the world's current `Probe`
    Probe,
    Garbage,
    WrongHash,
    DupInput,
    Next,
    NextFuture,
    Known,
    Tampered,
    GtShort,
    SpendMissing,
    /// k-th block (1..=3) of a three-block side branch off genesis's child; the third one is tampered
    Fork(u8),
}
impl BlkC {
    pub fn name(&self) -> String {
        match self {
            BlkC::Shape => "shape".into(),
            BlkC::Probe => "probe".into(),
            BlkC::Garbage => "garbage".into(),
            BlkC::WrongHash => "wronghash".into(),
            BlkC::DupInput => "dupinput".into(),
            BlkC::Next => "next".into(),
            BlkC::NextFuture => "nextfuture".into(),
            BlkC::Known => "known".into(),
            BlkC::Tampered => "tampered".into(),
            BlkC::GtShort => "gtshort".into(),
            BlkC::SpendMissing => "spendmissing".into(),
            BlkC::Fork(k) => format!("fork{}", k),
        }
    }
}

#[derive(Clone, Debug, PartialEq, Eq)]
pub enum MsgC {
    Challenge,
    /// handshake response: (core version set, signature valid for the stored challenge, same minor version, key index)
    Resp { ver: bool, sig: bool, minor: bool, key: u64 },
    BlockMsg,
    Tx(TxC),
    /// tag 4 whose claimed lengths exceed the buffer (C10 class)
    TxTrunc,
    /// chain request: 0 = (0, zero fork id); 1 = (u64::MAX, random fork id); 2 = (tip id, real fork id)
    ChainReq(u8),
    /// header hash: 0 = unknown hash id tip+1; 1 = known hash; 2 = unknown hash with id 0; 3 = unknown hash id u64::MAX
    HeaderHash(u8),
    Ping,
    Spv,
    Services,
    /// ghost chain: number of entries, all with txs=true (only queue fetches) or txs=false (ghost blocks added)
    Ghost { n: u8, txs: bool },
    /// tag 10 body shorter than the 36-byte header / inconsistent with its count (C10 class)
    GhostShort,
    /// 0 = (0, zero); 1 = (u64::MAX, random)
    GhostReq(u8),
    /// the message described by the world's current `Probe`
    Probe,
    App(u8),
    KeyList(u16),
    /// undecodable: 0 = empty buffer, 1 = unknown tag, 2 = tag 3 + garbage, 3 = tag 6 wrong length, 4 = tag 2 truncated, 5 = tag 4 shorter than the fixed header
    Undecodable(u8),
}

#[derive(Clone, Debug, PartialEq, Eq)]
pub enum Ev {
    Msg { from: u64, m: MsgC },
    Connect { p: u64 },
    ConnectFailed,
    Disconnect { p: u64 },
    Fetched { from: u64, b: BlkC },
    FetchFailed { from: u64 },
    RunV,
    RunC,
    Tick,
    Advance,
    /// set-up only (no handler call): `message_limiter.increase()` n times on peer p, as if n messages had arrived
    BumpMsg { p: u64, n: u64 },
    /// set-up only: the shape that `tx:shape` / `fetched .. shape` refer to from now on
    SetShape(Shape),
    /// set-up only: the probe that `msg p probe` / `fetched p probe` refer to from now on
    SetProbe(Probe),
}

impl MsgC {
    /// token for the driver: `<tag name>[:<class bits>]`
    pub fn token(&self) -> String {
        match self {
            MsgC::Challenge => "challenge".into(),
            MsgC::Resp { ver, sig, minor, key } => format!("resp:{}{}{}:{}", *ver as u8, *sig as u8, *minor as u8, key),
            MsgC::BlockMsg => "block".into(),
            MsgC::Tx(c) => format!("tx:{}", c.name()),
            MsgC::TxTrunc => "txtrunc".into(),
            MsgC::ChainReq(_) => "chainreq".into(),
            MsgC::HeaderHash(_) => "headerhash".into(),
            MsgC::Ping => "ping".into(),
            MsgC::Spv => "spv".into(),
            MsgC::Services => "services".into(),
            MsgC::Ghost { n, txs } => format!("ghost:{}:{}", n, *txs as u8),
            MsgC::GhostShort => "ghostshort".into(),
            MsgC::GhostReq(_) => "ghostreq".into(),
            MsgC::Probe => "probe".into(),
            MsgC::App(t) => format!("app:{}", t),
            MsgC::KeyList(_) => "keylist".into(),
            MsgC::Undecodable(_) => "undecodable".into(),
        }
    }
    pub fn tag(&self) -> u8 {
        match self {
            MsgC::Challenge => 1,
            MsgC::Resp { .. } => 2,
            MsgC::BlockMsg => 3,
            MsgC::Tx(_) | MsgC::TxTrunc => 4,
            MsgC::ChainReq(_) => 5,
            MsgC::HeaderHash(_) => 6,
            MsgC::Ping => 7,
            MsgC::Spv => 8,
            MsgC::Services => 9,
            MsgC::Ghost { .. } | MsgC::GhostShort => 10,
            MsgC::GhostReq(_) => 11,
            MsgC::Probe => 0,
            MsgC::App(t) => *t,
            MsgC::KeyList(_) => 15,
            MsgC::Undecodable(_) => 0,
        }
    }
}
impl Ev {
    pub fn token(&self) -> String {
        match self {
            Ev::Msg { from, m } => format!("msg {} {}", from, m.token()),
            Ev::Connect { p } => format!("connect {}", p),
            Ev::ConnectFailed => "connectfailed".into(),
            Ev::Disconnect { p } => format!("disconnect {}", p),
            Ev::Fetched { from, b } => format!("fetched {} {}", from, b.name()),
            Ev::FetchFailed { from } => format!("fetchfailed {}", from),
            Ev::RunV => "runv".into(),
            Ev::RunC => "runc".into(),
            Ev::Tick => "tick".into(),
            Ev::Advance => "advance".into(),
            Ev::BumpMsg { p, n } => format!("bumpmsg {} {}", p, n),
            Ev::SetShape(sh) => sh.spec(),
            Ev::SetProbe(pr) => pr.spec(),
        }
    }
    pub fn sender(&self) -> Option<u64> {
        match self {
            Ev::Msg { from, .. } | Ev::Fetched { from, .. } | Ev::FetchFailed { from } => Some(*from),
            Ev::Connect { p } | Ev::Disconnect { p } => Some(*p),
            _ => None,
        }
    }
    /// is this a peer input (counts towards the sequence length) as opposed to a schedule step
    pub fn is_input(&self) -> bool {
        !matches!(self, Ev::RunV | Ev::RunC | Ev::Tick | Ev::Advance | Ev::BumpMsg { .. } | Ev::SetShape(_) | Ev::SetProbe(_))
    }
}

/// what sits in the verification / consensus queues (the harness holds the real items; the class tags travel along)
pub enum VItem {
    Tx(u64, TxC),
    Blk(u64, BlkC),
}
pub enum CItem {
    Tx(TxC),
    Blk(u64, BlkC),
}

// ------------------------------------------------------------------------------------------------ world
pub struct World {
    pub routing: RoutingThread,
    pub verification: VerificationThread,
    pub consensus: ConsensusThread,
    pub rx_v: Receiver<VerifyRequest>,
    pub rx_c: Receiver<ConsensusEvent>,
    pub rx_r: Receiver<RoutingEvent>,
    pub rx_m: Receiver<MiningEvent>,
    pub rx_s: Receiver<String>,
    pub vq: VecDeque<(VerifyRequest, VItem)>,
    pub cq: VecDeque<(ConsensusEvent, CItem)>,
    /// classes of what the consensus thread holds in `txs_for_mempool`
    pub pool: Vec<TxC>,
    pub disk: Arc<Mutex<Disk>>,
    pub clock: Clock,
    pub factory: Factory,
    pub chain: Vec<Block>, // honest chain known to the harness: genesis first
    pub spendable: Vec<Utxo>,
    pub fork: Vec<Block>,
    pub rng: Rng,
    pub peers: Arc<RwLock<PeerCollection>>,
    pub blockchain: Arc<RwLock<Blockchain>>,
    pub mempool: Arc<RwLock<Mempool>>,
    pub cfg: Arc<RwLock<Cfg>>,
    pub nonce: u64,
    /// blocks on the node's main chain as the harness (a peer) knows it: 3 after set-up
    pub main_len: u64,
    pub fork_done: [bool; 3],
    pub cur_shape: Option<Shape>,
    pub cur_probe: Option<Probe>,
}

#[derive(Clone, Debug, PartialEq, Eq, Default)]
pub struct Lim {
    pub cnt: u64,
    pub stale: bool,
}

#[derive(Clone, Debug, PartialEq, Eq)]
pub struct PeerSum {
    pub idx: u64,
    pub is_static: bool,
    pub status: u8, // 0 disconnected, 1 connecting, 2 connected
    pub key: Option<u64>,
    pub chal: bool,
    pub url: bool,
    pub msg: Lim,
    pub hs: Lim,
    pub kl: Lim,
    pub ib: Lim,
    pub nkeys: usize,
    pub nservices: usize,
}

fn parse_lim(l: &RateLimiter, now: u64) -> Lim {
    // RateLimiter's counters are private; its derived Debug prints them
    let s = format!("{:?}", l);
    let field = |name: &str| -> u64 {
        let i = s.find(name).map(|i| i + name.len()).unwrap_or(0);
        s[i..].trim_start_matches(|c: char| c == ':' || c == ' ').chars().take_while(|c| c.is_ascii_digit()).collect::<String>().parse().unwrap_or(0)
    };
    let window = field("window");
    let cnt = field("request_count");
    let last = field("last_request_time");
    Lim { cnt, stale: now.saturating_sub(last) > window }
}

pub fn key_index(pk: &[u8; 33]) -> u64 {
    for i in 0..NKEYS + 4 {
        if key(i).0 == *pk {
            return i;
        }
    }
    99
}

impl PeerSum {
    pub fn of(p: &Peer, now: u64) -> PeerSum {
        PeerSum {
            idx: p.index,
            is_static: p.static_peer_config.is_some(),
            status: match p.peer_status {
                PeerStatus::Disconnected(_, _) => 0,
                PeerStatus::Connecting => 1,
                PeerStatus::Connected => 2,
            },
            key: p.public_key.map(|k| key_index(&k)),
            chal: p.challenge_for_peer.is_some(),
            url: !p.block_fetch_url.is_empty(),
            msg: parse_lim(&p.message_limiter, now),
            hs: parse_lim(&p.handshake_limiter, now),
            kl: parse_lim(&p.key_list_limiter, now),
            ib: parse_lim(&p.invalid_block_limiter, now),
            nkeys: p.key_list.len(),
            nservices: p.services.len(),
        }
    }
    pub fn token(&self) -> String {
        let l = |x: &Lim| format!("{}{}", x.cnt, if x.stale { "s" } else { "f" });
        format!(
            "{}:{}:{}:{}:{}:{}:{},{},{},{}",
            self.idx,
            if self.is_static { "S" } else { "D" },
            self.status,
            self.key.map(|k| k.to_string()).unwrap_or("-".into()),
            self.chal as u8,
            self.url as u8,
            l(&self.msg),
            l(&self.hs),
            l(&self.kl),
            l(&self.ib)
        )
    }
    pub fn short(&self) -> String {
        format!("{},{},{}", self.status, self.key.map(|k| k.to_string()).unwrap_or("-".into()), self.chal as u8)
    }
}

#[derive(Clone, Debug, PartialEq, Eq)]
pub struct Digest {
    pub peers: Vec<PeerSum>,
    pub addr: Vec<(u64, u64)>,
    pub tip: (u64, SaitoHash),
    pub nblocks: usize,
    pub utxo_true: usize,
    pub mempool_txs: usize,
    pub mempool_gts: usize,
    pub pool: usize,
}

fn timer(clock: &Clock) -> Timer {
    Timer { time_reader: Arc::new(clock.clone()), hasten_multiplier: 1, start_time: 0 }
}

pub fn panic_loc() -> &'static Mutex<String> {
    static LOC: std::sync::OnceLock<Mutex<String>> = std::sync::OnceLock::new();
    LOC.get_or_init(|| Mutex::new(String::new()))
}
/// panic hook that records the source location of the panic (file name only + line) instead of printing it
pub fn record_panics() {
    std::panic::set_hook(Box::new(|info| {
        let mut l = info.location().map(|l| format!("{}:{}", l.file().rsplit('/').next().unwrap_or(""), l.line())).unwrap_or_default();
        let in_std = info.location().map(|l| l.file().contains("/rustc/") || l.file().contains("library/")).unwrap_or(false);
        if in_std {
            // e.g. an overflowing `Iterator::sum`: name the first saito-core function on the stack instead of accum.rs
            let bt = std::backtrace::Backtrace::force_capture().to_string();
            if let Some(f) = bt.lines().map(|x| x.trim()).filter(|x| x.contains("saito_core::")).map(|x| x.split_once(": ").map(|p| p.1).unwrap_or(x)).find(|x| !x.contains("{{closure}}") || true) {
                let f = f.split("::h").next().unwrap_or(f);
                let short: Vec<&str> = f.split("::").filter(|p| !p.contains("closure") && !p.starts_with('<') && !p.is_empty()).collect();
                let n = short.len();
                let name = if n >= 2 { format!("{}.{}", short[n - 2], short[n - 1]) } else { f.replace("::", ".") };
                l = format!("{}:0 ({})", name.replace(' ', ""), l);
            }
        }
        *panic_loc().lock().unwrap() = l;
    }));
}

/// a stable name for a panic: source file + kind of the failed check (no line numbers, no values)
pub fn site_of(msg: &str, loc: &str) -> String {
    let file = loc.split(':').next().unwrap_or("");
    let kind = if msg.contains("entered unreachable code") {
        "unreachable"
    } else if msg.contains("invalid total supply") {
        "check_total_supply"
    } else if msg.contains("from slip should exist") {
        "expect-from-slip"
    } else if msg.contains("should be larger than previous block timestamp") {
        "assert-bundle-timestamp"
    } else if msg.contains("This peer instance is to handle a peer with a different public key") {
        "assert-peer-key"
    } else if msg.contains("`Option::unwrap()` on a `None`") {
        "unwrap-none"
    } else if msg.contains("`Result::unwrap()` on an `Err`") {
        "unwrap-err"
    } else if msg.contains("out of range") || msg.contains("range end index") || msg.contains("range start index") || msg.contains("index out of bounds") {
        "slice-out-of-range"
    } else if msg.contains("assertion") {
        "assert"
    } else if msg.contains("overflow") {
        "arithmetic-overflow"
    } else {
        "other"
    };
    format!("{}:{}", file, kind)
}


pub struct StepObs {
    pub outcome: String, // handled | rejected | ratelimited | disconnected | panic:<site> | setup
    pub sent: bool,
    pub dq: (usize, usize, usize),
    pub post: String,
    pub panic_msg: String,
    pub panic_loc: String,
    pub handler: &'static str,
    pub bundled: bool,
}
impl StepObs {
    pub fn answer(&self) -> String {
        if self.outcome.starts_with("panic") {
            self.outcome.clone()
        } else {
            format!("{} s={} q={},{},{} p={}", self.outcome, self.sent as u8, self.dq.0, self.dq.1, self.dq.2, self.post)
        }
    }
}

impl World {
    pub async fn new(seed: u64, mode: u8) -> World {
        let disk = Arc::new(Mutex::new(Disk::default()));
        let clock = Clock(Arc::new(AtomicU64::new(1_700_000_000_000)));
        let mut cfg = Cfg::new(GP, HEARTBEAT, 50);
        cfg.peers = vec![PeerConfig { host: "static.example".into(), port: 12101, protocol: "http".into(), synctype: "full".into() }];
        let (pk, sk) = key(K_NODE);
        let wallet = Arc::new(RwLock::new(Wallet::new(sk, pk)));
        let blockchain = Arc::new(RwLock::new(Blockchain::new(wallet.clone(), GP, 0, 60)));
        let mempool = Arc::new(RwLock::new(Mempool::new(wallet.clone())));
        let peers = Arc::new(RwLock::new(PeerCollection::default()));
        let cfg_arc = Arc::new(RwLock::new(cfg.clone()));
        let cfg_lock: Arc<RwLock<dyn Configuration + Send + Sync>> = cfg_arc.clone();
        let (tx_v, rx_v) = tokio::sync::mpsc::channel::<VerifyRequest>(10_000);
        let (tx_c, rx_c) = tokio::sync::mpsc::channel::<ConsensusEvent>(10_000);
        let (tx_r, rx_r) = tokio::sync::mpsc::channel::<RoutingEvent>(10_000);
        let (tx_m, rx_m) = tokio::sync::mpsc::channel::<MiningEvent>(10_000);
        let (tx_s, rx_s) = tokio::sync::mpsc::channel::<String>(10_000);
        let io = || -> Box<MemIO> { Box::new(MemIO { disk: disk.clone() }) };
        let net = || Network::new(io(), peers.clone(), wallet.clone(), cfg_lock.clone(), timer(&clock));
        let stat = |n: &str| StatVariable::new(n.to_string(), STAT_BIN_COUNT, tx_s.clone());
        let routing = RoutingThread {
            blockchain_lock: blockchain.clone(),
            mempool_lock: mempool.clone(),
            sender_to_consensus: tx_c.clone(),
            sender_to_miner: tx_m.clone(),
            config_lock: cfg_lock.clone(),
            timer: timer(&clock),
            wallet_lock: wallet.clone(),
            network: net(),
            storage: Storage::new(io()),
            reconnection_timer: 0,
            peer_removal_timer: 0,
            peer_file_write_timer: 0,
            last_emitted_block_fetch_count: 0,
            stats: RoutingStats::new(tx_s.clone()),
            senders_to_verification: vec![tx_v.clone()],
            last_verification_thread_index: 0,
            stat_sender: tx_s.clone(),
            blockchain_sync_state: BlockchainSyncState::new(10),
        };
        let consensus = ConsensusThread {
            mempool_lock: mempool.clone(),
            blockchain_lock: blockchain.clone(),
            wallet_lock: wallet.clone(),
            generate_genesis_block: false,
            sender_to_router: tx_r.clone(),
            sender_to_miner: tx_m.clone(),
            block_producing_timer: 0,
            timer: timer(&clock),
            network: net(),
            storage: Storage::new(io()),
            stats: ConsensusStats::new(tx_s.clone()),
            txs_for_mempool: vec![],
            stat_sender: tx_s.clone(),
            config_lock: cfg_lock.clone(),
            produce_blocks_by_timer: true,
            delete_old_blocks: true,
        };
        let verification = VerificationThread {
            sender_to_consensus: tx_c.clone(),
            blockchain_lock: blockchain.clone(),
            peer_lock: peers.clone(),
            wallet_lock: wallet.clone(),
            processed_txs: stat("verification::processed_txs"),
            processed_blocks: stat("verification::processed_blocks"),
            processed_msgs: stat("verification::processed_msgs"),
            invalid_txs: stat("verification::invalid_txs"),
            stat_sender: tx_s.clone(),
        };
        let factory = Factory::new(seed, Cfg::new(GP, HEARTBEAT, 50));
        let mut w = World {
            routing,
            verification,
            consensus,
            rx_v,
            rx_c,
            rx_r,
            rx_m,
            rx_s,
            vq: Default::default(),
            cq: Default::default(),
            pool: vec![],
            disk,
            clock,
            factory,
            chain: vec![],
            spendable: vec![],
            fork: vec![],
            rng: Rng::new(seed ^ 0xD15),
            peers,
            blockchain,
            mempool,
            cfg: cfg_arc,
            nonce: 0,
            main_len: 0,
            fork_done: [false; 3],
            cur_shape: None,
            cur_probe: None,
        };
        w.setup().await;
        // the same node switched to lite / browser mode after set-up (the handlers read the mode on every call)
        if mode == 1 {
            w.cfg.write().await.spv = true;
        } else if mode == 2 {
            w.cfg.write().await.browser = true;
        }
        w
    }

    pub fn now(&self) -> u64 {
        self.clock.0.load(Ordering::SeqCst)
    }

    /// the static peer (index 1) from the configuration, the honest peer (2) through the real handshake with a real
    /// key, the attacker's connection (3, challenge outstanding), and the honest chain G,B1,B2 delivered through the
    /// real path: header hash from the honest peer -> fetch request -> BlockFetched -> verification -> consensus
    async fn setup(&mut self) {
        self.routing.on_init().await;
        {
            // indices are handed out by the same counter the io layer uses
            let mut p = self.peers.write().await;
            assert_eq!(p.index_to_peers.len(), 1);
            for want in [P_HONEST, P_ATT, P_ATT2] {
                let i = p.peer_counter.get_next_index();
                assert_eq!(i, want);
            }
        }
        let genesis = self.factory.make_genesis(&[(1, 1000), (1, 2000), (2, 3000), (2, 4000), (3, 5000), (3, 6000), (3, 7000)]).await;
        self.factory.remember(&genesis);
        let owner = owner_lookup(NKEYS);
        self.spendable = outputs_of(&genesis, &owner);
        let mut parent = genesis.clone();
        let mut blocks = vec![genesis];
        for i in 0..2u64 {
            let gt = self.factory.golden_ticket_tx(&parent, K_HONEST);
            let mut txs = vec![];
            if i == 1 {
                let k = self.spendable.iter().position(|u| u.owner == 2).unwrap();
                let u = self.spendable.remove(k);
                let amt = u.slip.amount;
                txs.push(self.factory.make_tx(&TxSpec { inputs: vec![u], outputs: vec![(1, amt)], data: vec![1] }));
            }
            let b = self.factory.make_block(parent.hash, parent.timestamp + 400, K_HONEST, txs, Some(gt)).await.expect("honest block");
            self.factory.remember(&b);
            self.spendable.extend(outputs_of(&b, &owner));
            parent = b.clone();
            blocks.push(b);
        }
        self.clock.0.store(parent.timestamp + 1_200, Ordering::SeqCst);
        self.apply(&Ev::Connect { p: P_HONEST }).await;
        self.apply(&Ev::Msg { from: P_HONEST, m: MsgC::Resp { ver: true, sig: true, minor: true, key: K_HONEST } }).await;
        self.apply(&Ev::Connect { p: P_ATT }).await;
        for b in blocks {
            self.deliver_honest(b).await;
        }
        let tip = self.blockchain.read().await.get_latest_block_id();
        assert_eq!(tip, 3, "honest chain not adopted during set-up");
        self.main_len = 3;
    }

    /// honest block propagation through every real handler
    pub async fn deliver_honest(&mut self, b: Block) {
        let nf = self.disk.lock().unwrap().fetches.len();
        let m = Message::BlockHeaderHash(b.hash, b.id).serialize();
        let r = guarded_async(self.routing.process_network_event(NetworkEvent::IncomingNetworkMessage { peer_index: P_HONEST, buffer: m })).await;
        assert!(r.is_ok());
        assert_eq!(self.disk.lock().unwrap().fetches.len(), nf + 1, "node did not request the announced block");
        let r = guarded_async(self.routing.process_network_event(NetworkEvent::BlockFetched {
            block_hash: b.hash,
            block_id: b.id,
            peer_index: P_HONEST,
            buffer: b.serialize_for_net(saito_core::core::consensus::block::BlockType::Full),
        }))
        .await;
        assert!(r.is_ok());
        self.chain.push(b);
        self.drain(VItem::Blk(P_HONEST, BlkC::Known), None);
        self.apply(&Ev::RunV).await;
        self.apply(&Ev::RunC).await;
    }

    /// move what the handlers put on the channels into the harness queues, tagging new items
    fn drain(&mut self, vtag: VItem, ctag: Option<CItem>) -> (usize, usize) {
        let mut nv = 0;
        let mut vtag = Some(vtag);
        while let Ok(r) = self.rx_v.try_recv() {
            let t = vtag.take().unwrap_or(VItem::Tx(0, TxC::Valid));
            self.vq.push_back((r, t));
            nv += 1;
        }
        let mut nc = 0;
        let mut ctag = ctag;
        while let Ok(e) = self.rx_c.try_recv() {
            let t = ctag.take().unwrap_or(CItem::Tx(TxC::Valid));
            self.cq.push_back((e, t));
            nc += 1;
        }
        while self.rx_m.try_recv().is_ok() {}
        while self.rx_s.try_recv().is_ok() {}
        (nv, nc)
    }

    pub async fn peer_sum(&self, idx: u64) -> Option<PeerSum> {
        let now = self.now();
        let p = self.peers.read().await;
        p.index_to_peers.get(&idx).map(|x| PeerSum::of(x, now))
    }

    pub async fn digest(&self, except: Option<u64>) -> Digest {
        let now = self.now();
        let p = self.peers.read().await;
        let mut peers: Vec<PeerSum> = p.index_to_peers.values().filter(|x| Some(x.index) != except).map(|x| PeerSum::of(x, now)).collect();
        peers.sort_by_key(|x| x.idx);
        let mut addr: Vec<(u64, u64)> = p.address_to_peers.iter().filter(|(_, i)| Some(**i) != except).map(|(k, i)| (key_index(k), *i)).collect();
        addr.sort();
        let bc = self.blockchain.read().await;
        let tip = guarded(|| (bc.get_latest_block_id(), bc.get_latest_block_hash())).unwrap_or((u64::MAX, [0; 32]));
        let mp = self.mempool.read().await;
        Digest {
            peers,
            addr,
            tip,
            nblocks: bc.blocks.len(),
            utxo_true: bc.utxoset.values().filter(|v| **v).count(),
            mempool_txs: mp.transactions.len(),
            mempool_gts: mp.golden_tickets.len(),
            pool: self.consensus.txs_for_mempool.len(),
        }
    }

    /// model class of a fetched-block class at this moment (harness knowledge only)
    pub fn blk_name(&self, c: BlkC) -> String {
        match c {
            BlkC::Fork(3) => {
                if self.main_len == 3 && self.fork_done[0] && self.fork_done[1] {
                    "reorginvalid".into()
                } else {
                    "side".into()
                }
            }
            BlkC::Fork(_) => "side".into(),
            _ => c.name(),
        }
    }
    pub fn ev_token(&self, ev: &Ev, bundled: &str) -> String {
        match ev {
            Ev::Fetched { from, b } => format!("fetched {} {}", from, self.blk_name(*b)),
            Ev::Tick => format!("tick {}", bundled),
            _ => ev.token(),
        }
    }

    /// node summary for the model
    pub async fn summary(&self) -> String {
        let now = self.now();
        let p = self.peers.read().await;
        let mut peers: Vec<PeerSum> = p.index_to_peers.values().map(|x| PeerSum::of(x, now)).collect();
        peers.sort_by_key(|x| x.idx);
        let bc = self.blockchain.read().await;
        let cfg = self.cfg.read().await;
        let mode = if cfg.browser {
            "browser"
        } else if cfg.spv {
            "spv"
        } else {
            "full"
        };
        let empty = bc.blocks.is_empty();
        let ahead = guarded(|| bc.get_latest_block().map(|b| b.timestamp >= now).unwrap_or(false)).unwrap_or(false);
        let j = |v: Vec<String>, sep: &str| if v.is_empty() { "-".to_string() } else { v.join(sep) };
        let vq = j(
            self.vq
                .iter()
                .map(|(_, t)| match t {
                    VItem::Tx(f, c) => format!("t{}.{}", f, c.name()),
                    VItem::Blk(f, c) => format!("b{}.{}", f, self.blk_name(*c)),
                })
                .collect(),
            ",",
        );
        let cq = j(
            self.cq
                .iter()
                .map(|(_, t)| match t {
                    CItem::Tx(c) => format!("t.{}", c.name()),
                    CItem::Blk(f, c) => format!("b{}.{}", f, self.blk_name(*c)),
                })
                .collect(),
            ",",
        );
        let pool = j(self.pool.iter().map(|c| c.name().to_string()).collect(), ",");
        format!(
            "mode={} empty={} ahead={} peers={} vq={} cq={} pool={}",
            mode,
            empty as u8,
            ahead as u8,
            j(peers.iter().map(|x| x.token()).collect(), ";"),
            vq,
            cq,
            pool
        )
    }

    fn last_challenge_sent_to(&self, p: u64) -> Option<SaitoHash> {
        let d = self.disk.lock().unwrap();
        for (i, buf) in d.sent.iter().rev() {
            if *i == p && !buf.is_empty() {
                if buf[0] == 1 && buf.len() == 33 {
                    return Some(buf[1..33].try_into().unwrap());
                }
                if buf[0] == 2 {
                    if let Ok(Message::HandshakeResponse(r)) = Message::deserialize(buf.clone()) {
                        return Some(r.challenge);
                    }
                }
            }
        }
        None
    }

    fn fresh(&mut self) -> Vec<u8> {
        self.nonce += 1;
        let mut v = self.nonce.to_be_bytes().to_vec();
        v.extend(self.rng.bytes(8));
        v
    }

    pub fn make_tx(&mut self, c: TxC, from_key: u64) -> Transaction {
        let (pk, sk) = key(from_key);
        let mut tx = Transaction::default();
        tx.timestamp = self.now();
        tx.data = self.fresh();
        let mut out = Slip::default();
        out.public_key = key(K_HONEST).0;
        out.slip_type = SlipType::Normal;
        let zero_in = || {
            let mut s = Slip::default();
            s.public_key = pk;
            s.amount = 0;
            s
        };
        match c {
            TxC::Shape => {
                let sh = self.cur_shape.expect("shape set");
                tx.transaction_type = match sh.ty {
                    0 => TransactionType::Normal,
                    1 => TransactionType::Fee,
                    2 => TransactionType::GoldenTicket,
                    3 => TransactionType::ATR,
                    4 => TransactionType::Vip,
                    5 => TransactionType::SPV,
                    6 => TransactionType::Issuance,
                    7 => TransactionType::BlockStake,
                    _ => TransactionType::Bound,
                };
                if sh.ty == 2 {
                    // a well-formed ticket payload, so that the sweep is about slips, not about the payload length
                    let tip = self.chain.last().unwrap().hash;
                    tx.data = GoldenTicket::create(tip, saito_core::core::util::crypto::hash(&self.rng.bytes(32)), pk).serialize_for_net();
                }
                for (i, t) in slip_pattern(sh.pin, sh.nin as usize).into_iter().enumerate() {
                    let mut sl = Slip::default();
                    sl.public_key = pk;
                    sl.amount = 0;
                    sl.block_id = 1;
                    sl.tx_ordinal = 0;
                    sl.slip_index = match sh.sidx {
                        0 => i as u8,
                        1 => 253u8.wrapping_add(i as u8),
                        2 => 254u8.wrapping_add(i as u8),
                        3 => 255u8.wrapping_add(i as u8),
                        4 => 255,
                        _ => 255u8.wrapping_sub(i as u8),
                    };
                    sl.slip_type = t;
                    tx.from.push(sl);
                }
                for (i, t) in slip_pattern(sh.pout, sh.nout as usize).into_iter().enumerate() {
                    let mut sl = Slip::default();
                    sl.public_key = pk;
                    sl.amount = 0;
                    sl.slip_index = i as u8;
                    sl.slip_type = t;
                    tx.to.push(sl);
                }
                match sh.tw {
                    1 => tx.timestamp = boundary(sh.tv, u64::MAX),
                    2 => tx.txs_replacements = boundary(sh.tv, u32::MAX as u64) as u32,
                    3 => { if let Some(x) = tx.from.first_mut() { x.amount = boundary(sh.tv, u64::MAX) } }
                    4 => { if let Some(x) = tx.from.first_mut() { x.block_id = boundary(sh.tv, u64::MAX) } }
                    5 => { if let Some(x) = tx.from.first_mut() { x.tx_ordinal = boundary(sh.tv, u64::MAX) } }
                    6 => { if let Some(x) = tx.from.last_mut() { x.slip_index = boundary(sh.tv, u8::MAX as u64) as u8 } }
                    7 => { if let Some(x) = tx.to.first_mut() { x.amount = boundary(sh.tv, u64::MAX) } }
                    8 => { if let Some(x) = tx.to.first_mut() { x.block_id = boundary(sh.tv, u64::MAX) } }
                    9 => { if let Some(x) = tx.to.first_mut() { x.tx_ordinal = boundary(sh.tv, u64::MAX) } }
                    10 => {
                        for x in tx.from.iter_mut().chain(tx.to.iter_mut()) {
                            x.amount = boundary(sh.tv, u64::MAX);
                        }
                    }
                    _ => {}
                }
                if sh.signed {
                    tx.sign(&sk);
                }
                // block id / ordinal of outputs are not signed; `sign` leaves them alone, but keep the tweak visible
                match sh.tw {
                    8 => { if let Some(x) = tx.to.first_mut() { x.block_id = boundary(sh.tv, u64::MAX) } }
                    9 => { if let Some(x) = tx.to.first_mut() { x.tx_ordinal = boundary(sh.tv, u64::MAX) } }
                    _ => {}
                }
            }
            TxC::Valid | TxC::BadSig => {
                // a real unspent output of the sender if the harness knows one, else a zero-amount input
                if let Some(k) = self.spendable.iter().position(|u| u.owner == from_key) {
                    let u = if c == TxC::Valid { self.spendable.remove(k) } else { self.spendable[k].clone() };
                    out.amount = u.slip.amount;
                    tx.from.push(u.slip);
                } else {
                    tx.from.push(zero_in());
                }
                tx.to.push(out);
                tx.sign(&sk);
                if c == TxC::BadSig {
                    tx.signature[5] ^= 0x40;
                }
            }
            TxC::SpendMissing => {
                let mut s = Slip::default();
                s.public_key = pk;
                s.amount = 12345;
                s.block_id = 2;
                s.tx_ordinal = 77;
                out.amount = 12345;
                tx.from.push(s);
                tx.to.push(out);
                tx.sign(&sk);
            }
            TxC::NoOutputs => {
                tx.from.push(zero_in());
                tx.sign(&sk);
            }
            TxC::NormalNoInputs => {
                tx.to.push(out);
                tx.sign(&sk);
            }
            TxC::GtOk | TxC::GtShort | TxC::GtLong => {
                tx.transaction_type = TransactionType::GoldenTicket;
                let tip = self.chain.last().unwrap().hash;
                let gt = GoldenTicket::create(tip, saito_core::core::util::crypto::hash(&self.rng.bytes(32)), pk);
                tx.data = gt.serialize_for_net();
                if c == TxC::GtShort {
                    tx.data.pop();
                } else if c == TxC::GtLong {
                    tx.data.push(0);
                }
                tx.from.push(zero_in());
                tx.to.push(out);
                tx.sign(&sk);
            }
            TxC::Issuance | TxC::Atr => {
                tx.transaction_type = if c == TxC::Issuance { TransactionType::Issuance } else { TransactionType::ATR };
                out.amount = 1_000_000;
                tx.to.push(out);
                tx.sign(&sk);
            }
        }
        tx
    }

    /// build the bytes of a fetched-block class relative to the current honest chain; returns (hash, id, bytes)
    pub async fn make_block(&mut self, c: BlkC, creator: u64) -> (SaitoHash, u64, Vec<u8>) {
        use saito_core::core::consensus::block::BlockType;
        let tip = self.chain.last().unwrap().clone();
        let now = self.now();
        let ser = |b: &Block| b.serialize_for_net(BlockType::Full);
        match c {
            BlkC::Shape => {
                let mut stx = self.make_tx(TxC::Shape, creator);
                let gt = self.factory.golden_ticket_tx(&tip, creator);
                let mut b = self.factory.make_block(tip.hash, tip.timestamp + 250, creator, vec![], Some(gt)).await.expect("block");
                stx.generate(&key(creator).0, 0, b.id);
                let huge = stx.txs_replacements > 4096;
                b.transactions.insert(0, stx);
                if huge {
                    // the harness must not expand millions of merkle leaves itself: any non-zero root will do, the node
                    // recomputes and compares it
                    b.merkle_root = [1; 32];
                    self.factory.resign(&mut b, creator);
                } else {
                    b.merkle_root = [0; 32];
                    b.merkle_root = b.generate_merkle_root(false, false);
                    self.factory.resign(&mut b, creator);
                    let _ = b.generate();
                }
                (b.hash, b.id, ser(&b))
            }
            BlkC::Probe => {
                let gt = self.factory.golden_ticket_tx(&tip, creator);
                let mut b = self.factory.make_block(tip.hash, tip.timestamp + 250, creator, vec![], Some(gt)).await.expect("block");
                match self.cur_probe.expect("probe set") {
                    Probe::BlockField { field, val } => {
                        let f: &mut u64 = match field {
                            0 => &mut b.id,
                            1 => &mut b.timestamp,
                            2 => &mut b.graveyard,
                            3 => &mut b.treasury,
                            4 => &mut b.total_fees,
                            5 => &mut b.total_fees_new,
                            6 => &mut b.total_fees_atr,
                            7 => &mut b.total_fees_cumulative,
                            8 => &mut b.avg_total_fees,
                            9 => &mut b.avg_total_fees_new,
                            10 => &mut b.avg_total_fees_atr,
                            11 => &mut b.total_payout_routing,
                            12 => &mut b.total_payout_mining,
                            13 => &mut b.total_payout_treasury,
                            14 => &mut b.total_payout_graveyard,
                            15 => &mut b.total_payout_atr,
                            16 => &mut b.avg_payout_routing,
                            17 => &mut b.avg_payout_mining,
                            18 => &mut b.avg_payout_treasury,
                            19 => &mut b.avg_payout_graveyard,
                            20 => &mut b.avg_payout_atr,
                            21 => &mut b.avg_fee_per_byte,
                            22 => &mut b.fee_per_byte,
                            23 => &mut b.avg_nolan_rebroadcast_per_block,
                            24 => &mut b.burnfee,
                            25 => &mut b.difficulty,
                            _ => &mut b.previous_block_unpaid,
                        };
                        *f = val;
                        self.factory.resign(&mut b, creator);
                        (b.hash, b.id, ser(&b))
                    }
                    Probe::FetchedId { id } => (b.hash, id, ser(&b)),
                    _ => (b.hash, b.id, ser(&b)),
                }
            }
            BlkC::Garbage => ([7; 32], tip.id + 1, self.rng.bytes(50)),
            BlkC::Known => (tip.hash, tip.id, ser(&tip)),
            BlkC::Next | BlkC::NextFuture | BlkC::WrongHash | BlkC::Tampered => {
                let ts = if c == BlkC::NextFuture { now + 5_000 } else { tip.timestamp + 250 };
                let gt = self.factory.golden_ticket_tx(&tip, creator);
                let mut b = self.factory.make_block(tip.hash, ts, creator, vec![], Some(gt)).await.expect("block");
                if c == BlkC::Tampered {
                    b.difficulty += 7;
                    self.factory.resign(&mut b, creator);
                    b.generate().unwrap();
                }
                if c == BlkC::WrongHash {
                    return ([9; 32], b.id, ser(&b));
                }
                if c == BlkC::Next || c == BlkC::NextFuture {
                    self.factory.remember(&b);
                    self.chain.push(b.clone());
                }
                (b.hash, b.id, ser(&b))
            }
            BlkC::GtShort => {
                let mut gt = self.factory.golden_ticket_tx(&tip, creator);
                gt.data.pop();
                gt.sign(&key(creator).1);
                // every second time the short ticket comes BEHIND a well-formed one (two ticket transactions in one block)
                let pair = self.rng.below(2) == 1;
                let first = if pair { Some(self.factory.golden_ticket_tx(&tip, creator)) } else { None };
                let mut b = self.factory.make_block(tip.hash, tip.timestamp + 250, creator, vec![], first).await.expect("block");
                // Block::create would itself choke on the short ticket: put it in afterwards and re-sign
                gt.generate(&key(creator).0, 0, b.id);
                b.transactions.insert(if pair { 1 } else { 0 }, gt);
                b.merkle_root = b.generate_merkle_root(false, false);
                self.factory.resign(&mut b, creator);
                let _ = b.generate();
                (b.hash, b.id, ser(&b))
            }
            BlkC::SpendMissing | BlkC::DupInput => {
                let mut s = Slip::default();
                s.public_key = key(creator).0;
                s.amount = 4242;
                s.block_id = 1;
                s.tx_ordinal = 55;
                let u = Utxo { slip: s, owner: creator };
                let inputs = if c == BlkC::DupInput { vec![u.clone(), u.clone()] } else { vec![u] };
                let amt = 4242;
                let data = self.fresh();
                let tx = self.factory.make_tx(&TxSpec { inputs, outputs: vec![(creator, amt)], data });
                let gt = self.factory.golden_ticket_tx(&tip, creator);
                if c == BlkC::SpendMissing {
                    let b = self.factory.make_block(tip.hash, tip.timestamp + 250, creator, vec![tx], Some(gt)).await.expect("block");
                    (b.hash, b.id, ser(&b))
                } else {
                    // Block::create refuses the duplicate: build the block without it, then insert it FIRST and re-sign
                    let mut b = self.factory.make_block(tip.hash, tip.timestamp + 250, creator, vec![], Some(gt)).await.expect("block");
                    let mut tx = tx;
                    tx.generate(&key(creator).0, 0, b.id);
                    b.transactions.insert(0, tx);
                    b.merkle_root = [0; 32];
                    b.merkle_root = b.generate_merkle_root(false, false);
                    self.factory.resign(&mut b, creator);
                    (b.hash, b.id, ser(&b))
                }
            }
            BlkC::Fork(k) => {
                if self.fork.is_empty() {
                    // side branch off block 1 (genesis): three blocks, the third tampered
                    let mut parent = self.chain[0].clone();
                    for i in 0..3 {
                        let gt = self.factory.golden_ticket_tx(&parent, creator);
                        let mut b = self.factory.make_block(parent.hash, parent.timestamp + 250 + i, creator, vec![], Some(gt)).await.expect("fork block");
                        if i == 2 {
                            b.difficulty += 7;
                            self.factory.resign(&mut b, creator);
                            b.generate().unwrap();
                        }
                        self.factory.remember(&b);
                        parent = b.clone();
                        self.fork.push(b);
                    }
                }
                let b = &self.fork[(k as usize).clamp(1, 3) - 1];
                (b.hash, b.id, ser(b))
            }
        }
    }

    pub async fn make_msg(&mut self, from: u64, m: &MsgC) -> Vec<u8> {
        let from_key = match from {
            P_STATIC => K_STATIC,
            P_HONEST => K_HONEST,
            _ => K_ATT,
        };
        match m {
            MsgC::Challenge => Message::HandshakeChallenge(HandshakeChallenge { challenge: self.rng.bytes(32).try_into().unwrap() }).serialize(),
            MsgC::Resp { ver, sig, minor, key: k } => {
                let chal = self.last_challenge_sent_to(from).unwrap_or([0; 32]);
                let (pk, sk) = key(*k);
                let mut s = sign(&chal, &sk);
                if !*sig {
                    s[3] ^= 0x10;
                }
                let my = self.routing.wallet_lock.read().await.core_version;
                let core = if !*ver {
                    Version::new(0, 0, 0)
                } else if !*minor {
                    Version::new(my.major, my.minor.wrapping_add(1), my.patch)
                } else {
                    my
                };
                Message::HandshakeResponse(HandshakeResponse {
                    public_key: pk,
                    signature: s,
                    is_lite: false,
                    block_fetch_url: format!("http://peer{}.example/", from),
                    challenge: self.rng.bytes(32).try_into().unwrap(),
                    services: vec![],
                    wallet_version: Version::new(0, 0, 0),
                    core_version: core,
                })
                .serialize()
            }
            MsgC::BlockMsg => {
                let b = self.chain.last().unwrap().clone();
                Message::Block(b).serialize()
            }
            MsgC::Tx(c) => Message::Transaction(self.make_tx(*c, from_key)).serialize(),
            MsgC::TxTrunc => {
                let mut v = vec![4u8, 0, 0, 0, 1];
                v.extend(vec![0u8; 89]);
                v
            }
            MsgC::ChainReq(k) => {
                let (id, fork): (u64, [u8; 32]) = match k {
                    0 => (0, [0; 32]),
                    1 => (u64::MAX, self.rng.bytes(32).try_into().unwrap()),
                    _ => {
                        let bc = self.blockchain.read().await;
                        let id = guarded(|| bc.get_latest_block_id()).unwrap_or(0);
                        (id, bc.fork_id.unwrap_or([0; 32]))
                    }
                };
                let mut v = vec![5u8];
                v.extend(id.to_be_bytes());
                v.extend([3u8; 32]);
                v.extend(fork);
                v
            }
            MsgC::HeaderHash(k) => {
                let tip = self.chain.last().unwrap();
                let (h, id): ([u8; 32], u64) = match k {
                    0 => (self.rng.bytes(32).try_into().unwrap(), tip.id + 1),
                    1 => (tip.hash, tip.id),
                    2 => (self.rng.bytes(32).try_into().unwrap(), 0),
                    3 => (self.rng.bytes(32).try_into().unwrap(), u64::MAX),
                    // announcement floods: a fresh hash at height 1000 + k
                    k => (self.rng.bytes(32).try_into().unwrap(), 1000 + *k as u64),
                };
                Message::BlockHeaderHash(h, id).serialize()
            }
            MsgC::Ping => Message::Ping().serialize(),
            MsgC::Spv => vec![8u8],
            MsgC::Services => Message::Services(vec![PeerService { service: "x".into(), domain: "d".into(), name: "n".into() }]).serialize(),
            MsgC::Ghost { n, txs } => {
                let tip = self.chain.last().unwrap().clone();
                let mut g = GhostChainSync { start: tip.hash, prehashes: vec![], previous_block_hashes: vec![], block_ids: vec![], block_ts: vec![], txs: vec![], gts: vec![] };
                let mut prev = tip.hash;
                for i in 0..*n as u64 {
                    let pre: [u8; 32] = self.rng.bytes(32).try_into().unwrap();
                    g.prehashes.push(pre);
                    g.previous_block_hashes.push(prev);
                    g.block_ids.push(tip.id + 1 + i);
                    g.block_ts.push(tip.timestamp + 100 * (i + 1));
                    g.txs.push(*txs);
                    g.gts.push(true);
                    prev = saito_core::core::util::crypto::hash(&[prev.as_slice(), pre.as_slice()].concat());
                }
                Message::GhostChain(g).serialize()
            }
            MsgC::GhostShort => vec![10u8, 1, 2, 3, 4, 5, 6, 7, 8, 9, 10],
            MsgC::GhostReq(k) => {
                // u64::MAX itself overflows `last_shared_ancestor + 1` (routing_thread.rs:337) in builds with overflow checks only
                let (id, h): (u64, [u8; 32]) = if *k == 0 { (0, [0; 32]) } else { (u64::MAX - 1, self.rng.bytes(32).try_into().unwrap()) };
                Message::GhostChainRequest(id, h, h).serialize()
            }
            MsgC::App(t) => {
                let a = ApiMessage { msg_index: 3, data: self.rng.bytes(20) };
                match t {
                    12 => Message::ApplicationMessage(a).serialize(),
                    13 => Message::Result(a).serialize(),
                    _ => Message::Error(a).serialize(),
                }
            }
            MsgC::Probe => {
                let fork_of = |w: &mut World, fork: u8, own: [u8; 32]| -> [u8; 32] {
                    match fork {
                        0 => [0; 32],
                        1 => [0xFF; 32],
                        2 => own,
                        _ => w.rng.bytes(32).try_into().unwrap(),
                    }
                };
                let own_fork = {
                    let bc = self.blockchain.read().await;
                    bc.fork_id.unwrap_or([0; 32])
                };
                match self.cur_probe.expect("probe set") {
                    Probe::GhostReq { id, fork } => {
                        let f = fork_of(self, fork, own_fork);
                        Message::GhostChainRequest(id, [3; 32], f).serialize()
                    }
                    Probe::ChainReq { id, fork } => {
                        let f = fork_of(self, fork, own_fork);
                        let mut v = vec![5u8];
                        v.extend(id.to_be_bytes());
                        v.extend([3u8; 32]);
                        v.extend(f);
                        v
                    }
                    Probe::HeaderHash { id } => Message::BlockHeaderHash(self.rng.bytes(32).try_into().unwrap(), id).serialize(),
                    Probe::Ghost { id, ts, n, txs } => {
                        let tip = self.chain.last().unwrap().clone();
                        let mut g = GhostChainSync { start: tip.hash, prehashes: vec![], previous_block_hashes: vec![], block_ids: vec![], block_ts: vec![], txs: vec![], gts: vec![] };
                        let mut prev = tip.hash;
                        for i in 0..n as u64 {
                            let pre: [u8; 32] = self.rng.bytes(32).try_into().unwrap();
                            g.prehashes.push(pre);
                            g.previous_block_hashes.push(prev);
                            g.block_ids.push(id.wrapping_add(i));
                            g.block_ts.push(ts);
                            g.txs.push(txs);
                            g.gts.push(true);
                            prev = saito_core::core::util::crypto::hash(&[prev.as_slice(), pre.as_slice()].concat());
                        }
                        Message::GhostChain(g).serialize()
                    }
                    Probe::Api { tag, idx } => {
                        let a = ApiMessage { msg_index: idx, data: self.rng.bytes(8) };
                        match tag {
                            12 => Message::ApplicationMessage(a).serialize(),
                            13 => Message::Result(a).serialize(),
                            _ => Message::Error(a).serialize(),
                        }
                    }
                    Probe::RespVer { major, minor, patch, which } => {
                        let chal = self.last_challenge_sent_to(from).unwrap_or([0; 32]);
                        let (pk, sk) = key(from_key);
                        let my = self.routing.wallet_lock.read().await.core_version;
                        let v = Version::new(major, minor, patch);
                        Message::HandshakeResponse(HandshakeResponse {
                            public_key: pk,
                            signature: sign(&chal, &sk),
                            is_lite: false,
                            block_fetch_url: format!("http://peer{}.example/", from),
                            challenge: self.rng.bytes(32).try_into().unwrap(),
                            services: vec![],
                            wallet_version: if which == 1 { v } else { Version::new(0, 0, 0) },
                            core_version: if which == 0 { v } else { my },
                        })
                        .serialize()
                    }
                    _ => vec![7u8],
                }
            }
            MsgC::KeyList(n) => Message::KeyListUpdate((0..*n).map(|i| key(i as u64 % 12).0).collect()).serialize(),
            MsgC::Undecodable(k) => match k {
                0 => vec![],
                1 => vec![77u8, 1, 2, 3],
                2 => {
                    let mut v = vec![3u8];
                    v.extend(self.rng.bytes(40));
                    v
                }
                3 => vec![6u8, 1, 2, 3],
                4 => vec![2u8, 0, 1, 0, 0],
                _ => vec![4u8, 0, 0, 0, 0, 0],
            },
        }
    }

    /// a peer learns the node's own new block (the node broadcasts its header hash) and builds on it from then on
    async fn sync_from_node(&mut self) -> bool {
        let bc = self.blockchain.read().await;
        let latest = guarded(|| bc.get_latest_block().cloned()).unwrap_or(None);
        if let Some(b) = latest {
            if b.previous_block_hash == self.chain.last().unwrap().hash && b.hash != self.chain.last().unwrap().hash {
                drop(bc);
                self.factory.remember(&b);
                self.spendable.extend(outputs_of(&b, &owner_lookup(NKEYS)));
                self.chain.push(b);
                return true;
            }
        }
        false
    }

    /// harness-side description of the input class (for finding keys), from what the harness sent and the sender's record
    pub async fn feature(&self, ev: &Ev) -> String {
        let ps = match ev.sender() {
            Some(s) => self.peer_sum(s).await,
            None => None,
        };
        match ev {
            Ev::Msg { m, .. } => match m {
                MsgC::BlockMsg => "tag3-block-message".into(),
                MsgC::GhostReq(_) => {
                    if ps.as_ref().map(|p| p.key.is_none()).unwrap_or(false) {
                        "ghost-chain-request-from-peer-without-key".into()
                    } else {
                        "ghost-chain-request".into()
                    }
                }
                MsgC::KeyList(_) => {
                    if ps.as_ref().map(|p| !p.kl.stale && p.kl.cnt + 1 >= 100).unwrap_or(false) {
                        "key-list-over-rate-limit".into()
                    } else {
                        "key-list".into()
                    }
                }
                MsgC::Resp { ver, sig, minor, key } => {
                    let known = ps.as_ref().and_then(|p| p.key);
                    if *ver && *sig && *minor && known.is_some() && known != Some(*key) {
                        "valid-handshake-response-under-different-key".into()
                    } else {
                        "handshake-response".into()
                    }
                }
                MsgC::TxTrunc => "tag4-claimed-lengths-exceed-buffer".into(),
                MsgC::Tx(TxC::Shape) => self.shape_class(),
                MsgC::Probe => self.probe_class(),
                MsgC::GhostShort => "tag10-short-or-inconsistent-buffer".into(),
                other => format!("msg-{}", other.token().split(':').next().unwrap_or("")),
            },
            Ev::RunV => match self.vq.front().map(|x| &x.1) {
                Some(VItem::Tx(_, TxC::Shape)) => self.shape_class(),
                Some(VItem::Blk(_, BlkC::Shape)) => format!("block-with-{}", self.shape_class()),
                Some(VItem::Blk(_, BlkC::Probe)) => self.probe_class(),
                Some(VItem::Blk(_, BlkC::DupInput)) => "fetched-block-first-tx-repeats-input".into(),
                Some(VItem::Blk(_, c)) => format!("verify-block-{}", self.blk_name(*c)),
                Some(VItem::Tx(_, c)) => format!("verify-tx-{}", c.name()),
                None => "idle".into(),
            },
            Ev::RunC => match self.cq.front().map(|x| &x.1) {
                Some(CItem::Tx(TxC::Shape)) => self.shape_class(),
                Some(CItem::Blk(_, BlkC::Shape)) => format!("block-with-{}", self.shape_class()),
                Some(CItem::Blk(_, BlkC::Probe)) => self.probe_class(),
                Some(CItem::Tx(TxC::GtShort)) | Some(CItem::Tx(TxC::GtLong)) => "golden-ticket-tx-payload-not-97-bytes".into(),
                Some(CItem::Blk(_, BlkC::GtShort)) => "block-with-golden-ticket-payload-not-97-bytes".into(),
                Some(CItem::Blk(_, BlkC::SpendMissing)) => "block-spending-nonexistent-output".into(),
                Some(CItem::Blk(_, c)) => {
                    let n = self.blk_name(*c);
                    if n == "reorginvalid" {
                        "reorg-candidate-contains-invalid-block".into()
                    } else {
                        format!("consensus-block-{}", n)
                    }
                }
                Some(CItem::Tx(c)) => format!("consensus-tx-{}", c.name()),
                None => "idle".into(),
            },
            Ev::Tick => {
                let now = self.now();
                let bc = self.blockchain.read().await;
                let ahead = guarded(|| bc.get_latest_block().map(|b| b.timestamp >= now).unwrap_or(false)).unwrap_or(false);
                if ahead {
                    "tip-timestamp-ahead-of-clock".into()
                } else if self.pool.iter().any(|c| matches!(c, TxC::Issuance | TxC::Atr)) || (self.pool.contains(&TxC::Shape) && self.cur_shape.map(|s| s.nin == 0).unwrap_or(false)) {
                    "pooled-transaction-without-inputs".into()
                } else if self.pool.contains(&TxC::Shape) {
                    format!("pooled-{}", self.shape_class())
                } else {
                    "tick".into()
                }
            }
            Ev::Fetched { b: BlkC::Shape, .. } => format!("fetched-block-with-{}", self.shape_class()),
            Ev::Fetched { b: BlkC::Probe, .. } => format!("fetched-{}", self.probe_class()),
            Ev::Fetched { b, .. } => format!("fetched-{}", self.blk_name(*b)),
            other => other.token().split(' ').next().unwrap_or("").to_string(),
        }
    }

    pub fn probe_class(&self) -> String {
        self.cur_probe.map(|p| p.class()).unwrap_or("probe".into())
    }
    pub fn shape_class(&self) -> String {
        self.cur_shape.map(|s| s.class()).unwrap_or("shape".into())
    }

    pub fn handler_of(ev: &Ev) -> &'static str {
        match ev {
            Ev::RunV => "verification.process_event",
            Ev::RunC => "consensus.process_event",
            Ev::Tick => "consensus.process_timer_event",
            _ => "routing.process_network_event",
        }
    }

    /// the timer tick comes one second later: the clock moves BEFORE the summary of that step is taken
    pub fn prepare(&mut self, ev: &Ev) {
        if let Ev::Tick = ev {
            self.clock.0.fetch_add(1000, Ordering::SeqCst);
        }
        // a peer's next block comes at least 251 ms after the tip (2 x heartbeat + 1 needs no routing work): time passes
        if let Ev::Fetched { b, .. } = ev {
            let tip_ts = self.chain.last().map(|b| b.timestamp).unwrap_or(0);
            if !matches!(b, BlkC::Garbage | BlkC::Known | BlkC::Fork(_)) && self.now() < tip_ts + 252 {
                self.clock.0.store(tip_ts + 252, Ordering::SeqCst);
            }
        }
    }

    /// one step: build the real input, call the real handler under guarded_async, observe
    pub async fn apply(&mut self, ev: &Ev) -> StepObs {
        let sender = ev.sender();
        let (nd0, ns0) = {
            let d = self.disk.lock().unwrap();
            (d.disconnects.len(), d.sent.len())
        };
        let pool0 = self.consensus.txs_for_mempool.len();
        let created0 = self.consensus.stats.blocks_created.total;
        let gts0 = self.mempool.read().await.golden_tickets.len();
        *panic_loc().lock().unwrap() = String::new();
        let mut handler = World::handler_of(ev);
        let mut vtag = VItem::Tx(0, TxC::Valid);
        let mut ctag: Option<CItem> = None;
        let mut popped_c: Option<CItem> = None;
        let mut popped_v = false;
        let mut ib0: Option<(u64, u64)> = None;
        let chain_len0 = self.chain.len();
        let res: Result<Option<()>, String> = match ev {
            Ev::SetProbe(pr) => {
                self.cur_probe = Some(*pr);
                // the next probe comes an hour later: the sender's invalid-block window (10 per hour) has passed
                self.clock.0.fetch_add(3_601_000, Ordering::SeqCst);
                return StepObs { outcome: "setup".into(), sent: false, dq: (0, 0, 0), post: "-".into(), panic_msg: String::new(), panic_loc: String::new(), handler: "-", bundled: false };
            }
            Ev::SetShape(sh) => {
                self.cur_shape = Some(*sh);
                self.clock.0.fetch_add(3_601_000, Ordering::SeqCst);
                return StepObs { outcome: "setup".into(), sent: false, dq: (0, 0, 0), post: "-".into(), panic_msg: String::new(), panic_loc: String::new(), handler: "-", bundled: false };
            }
            Ev::BumpMsg { p, n } => {
                let mut peers = self.peers.write().await;
                if let Some(peer) = peers.index_to_peers.get_mut(p) {
                    let now = self.now();
                    peer.has_message_limit_exceeded(now);
                    for _ in 0..*n {
                        peer.message_limiter.increase();
                    }
                }
                return StepObs { outcome: "setup".into(), sent: false, dq: (0, 0, 0), post: "-".into(), panic_msg: String::new(), panic_loc: String::new(), handler: "-", bundled: false };
            }
            Ev::Msg { from, m } => {
                if let MsgC::Tx(c) = m {
                    vtag = VItem::Tx(*from, *c);
                }
                let buffer = self.make_msg(*from, m).await;
                assert!(self.routing.is_ready_to_process(), "channels are never full in this harness");
                guarded_async(self.routing.process_network_event(NetworkEvent::IncomingNetworkMessage { peer_index: *from, buffer })).await
            }
            Ev::Connect { p } => {
                guarded_async(self.routing.process_network_event(NetworkEvent::PeerConnectionResult { result: Ok((*p, Some(format!("10.0.0.{}", p)))) })).await
            }
            Ev::ConnectFailed => {
                guarded_async(self.routing.process_network_event(NetworkEvent::PeerConnectionResult { result: Err(std::io::Error::from(std::io::ErrorKind::ConnectionRefused)) }))
                    .await
            }
            Ev::Disconnect { p } => {
                guarded_async(self.routing.process_network_event(NetworkEvent::PeerDisconnected { peer_index: *p, disconnect_type: PeerDisconnectType::ExternalDisconnect })).await
            }
            Ev::Fetched { from, b } => {
                vtag = VItem::Blk(*from, *b);
                let creator = if *from == P_HONEST { K_HONEST } else { K_ATT };
                let (hash, id, buffer) = self.make_block(*b, creator).await;
                guarded_async(self.routing.process_network_event(NetworkEvent::BlockFetched { block_hash: hash, block_id: id, peer_index: *from, buffer })).await
            }
            Ev::FetchFailed { from } => {
                guarded_async(self.routing.process_network_event(NetworkEvent::BlockFetchFailed { block_hash: [5; 32], peer_index: *from, block_id: 4 })).await
            }
            Ev::RunV => match self.vq.pop_front() {
                None => Ok(None),
                Some((req, tag)) => {
                    popped_v = true;
                    ctag = Some(match tag {
                        VItem::Tx(_, c) => CItem::Tx(c),
                        VItem::Blk(f, c) => CItem::Blk(f, c),
                    });
                    assert!(self.verification.is_ready_to_process());
                    guarded_async(self.verification.process_event(req)).await
                }
            },
            Ev::RunC => match self.cq.pop_front() {
                None => Ok(None),
                Some((e, tag)) => {
                    if let CItem::Blk(f, _) = &tag {
                        let c = self.peer_sum(*f).await.map(|p| p.ib.cnt).unwrap_or(0);
                        ib0 = Some((*f, c));
                    }
                    let r = guarded_async(self.consensus.process_event(e)).await;
                    popped_c = Some(tag);
                    // what consensus tells the router is handled by the real routing thread as well
                    let mut rr: Result<Option<()>, String> = Ok(None);
                    if r.is_ok() {
                        while let Ok(re) = self.rx_r.try_recv() {
                            rr = guarded_async(self.routing.process_event(re)).await;
                            if rr.is_err() {
                                handler = "routing.process_event";
                                break;
                            }
                        }
                    }
                    if rr.is_err() {
                        rr
                    } else {
                        r
                    }
                }
            },
            Ev::Tick => {
                let r = guarded_async(self.consensus.process_timer_event(Duration::from_millis(1000))).await;
                let mut rr: Result<Option<()>, String> = Ok(None);
                if r.is_ok() {
                    while let Ok(re) = self.rx_r.try_recv() {
                        rr = guarded_async(self.routing.process_event(re)).await;
                        if rr.is_err() {
                            handler = "routing.process_event";
                            break;
                        }
                    }
                }
                if rr.is_err() {
                    rr
                } else {
                    r.map(|_| Some(()))
                }
            }
            Ev::Advance => {
                self.clock.0.fetch_add(61_000, Ordering::SeqCst);
                Ok(Some(()))
            }
        };
        let (nv, nc) = self.drain(vtag, ctag);
        // a block the node never queued is not part of what the peers build on
        if matches!(ev, Ev::Fetched { b: BlkC::Next, .. } | Ev::Fetched { b: BlkC::NextFuture, .. }) && (nv == 0 || res.is_err()) {
            self.chain.truncate(chain_len0);
        }
        let pool1 = self.consensus.txs_for_mempool.len();
        if let Some(CItem::Tx(c)) = &popped_c {
            if pool1 > pool0 {
                self.pool.push(*c);
            }
        }
        if pool1 == 0 {
            self.pool.clear();
        }
        let bundled = self.consensus.stats.blocks_created.total > created0;
        if res.is_ok() {
            match &popped_c {
                Some(CItem::Blk(_, BlkC::Next)) | Some(CItem::Blk(_, BlkC::NextFuture)) => self.main_len += 1,
                Some(CItem::Blk(_, BlkC::Fork(k))) => self.fork_done[(*k as usize).clamp(1, 3) - 1] = true,
                _ => {}
            }
            if bundled && self.sync_from_node().await {
                self.main_len += 1;
            }
            // a shape block that the node accepted is the peers' new tip as well
            if let Some(CItem::Blk(_, BlkC::Shape)) | Some(CItem::Blk(_, BlkC::Probe)) = &popped_c {
                if self.sync_from_node().await {
                    self.main_len += 1;
                }
            }
        }
        let (disc, sent) = {
            let d = self.disk.lock().unwrap();
            let disc = match sender {
                Some(s) => d.disconnects[nd0..].iter().any(|x| *x == s),
                None => false,
            };
            let sent = match sender {
                Some(s) => d.sent[ns0..].iter().any(|(i, _)| *i == s),
                None => false,
            };
            (disc, sent)
        };
        let post = match sender {
            Some(s) => self.peer_sum(s).await.map(|p| p.short()).unwrap_or("none".into()),
            None => "-".into(),
        };
        let dq = (nv, nc, pool1.saturating_sub(pool0));
        let mut obs = StepObs { outcome: String::new(), sent, dq, post, panic_msg: String::new(), panic_loc: String::new(), handler, bundled };
        match res {
            Err(msg) => {
                let loc = panic_loc().lock().unwrap().clone();
                obs.outcome = format!("panic:{}", site_of(&msg, &loc));
                obs.panic_msg = msg.replace(['\n', '\t'], " ").chars().take(200).collect::<String>();
                obs.panic_loc = loc;
            }
            Ok(ret) => {
                let returned_some = ret.is_some();
                let now = self.now();
                let effects = sent || dq != (0, 0, 0);
                obs.outcome = if disc {
                    "disconnected".to_string()
                } else {
                    match ev {
                        Ev::Msg { from, m } => {
                            let lim = {
                                let mut p = self.peers.write().await;
                                match p.index_to_peers.get_mut(from) {
                                    None => (false, false, false),
                                    Some(peer) => (peer.has_message_limit_exceeded(now), peer.has_handshake_limit_exceeded(now), peer.has_key_list_limit_exceeded(now)),
                                }
                            };
                            if !returned_some {
                                if lim.0 { "ratelimited" } else { "rejected" }.to_string()
                            } else if !effects && matches!(m.tag(), 1 | 2) && lim.1 {
                                "ratelimited".to_string()
                            } else if m.tag() == 15 && lim.2 {
                                "ratelimited".to_string()
                            } else if m.tag() == 3 || (m.tag() == 11 && !sent) {
                                // these tags have no silent success: returning without a reply is a refusal
                                "rejected".to_string()
                            } else {
                                "handled".to_string()
                            }
                        }
                        Ev::RunV => {
                            if popped_v && nc == 0 { "rejected" } else { "handled" }.to_string()
                        }
                        Ev::RunC => {
                            let mut refused = false;
                            if let Some((f, c0)) = ib0 {
                                let c1 = self.peer_sum(f).await.map(|p| p.ib.cnt).unwrap_or(0);
                                refused = c1 > c0;
                            }
                            if let Some(CItem::Tx(TxC::GtShort)) | Some(CItem::Tx(TxC::GtLong)) = &popped_c {
                                refused = self.mempool.read().await.golden_tickets.len() == gts0;
                            }
                            if refused { "rejected" } else { "handled" }.to_string()
                        }
                        Ev::Tick | Ev::Advance | Ev::BumpMsg { .. } | Ev::SetShape(_) | Ev::SetProbe(_) => "handled".to_string(),
                        _ => if returned_some { "handled" } else { "rejected" }.to_string(),
                    }
                };
            }
        }
        obs
    }
}

// ------------------------------------------------------------------------------------------------ specs (corpus format)
fn parse_txc(s: &str) -> Option<TxC> {
    if s == "shape" {
        return Some(TxC::Shape);
    }
    TxC::ALL.iter().find(|c| c.name() == s).cloned()
}
fn parse_blkc(s: &str) -> Option<BlkC> {
    Some(match s {
        "shape" => BlkC::Shape,
        "probe" => BlkC::Probe,
        "garbage" => BlkC::Garbage,
        "wronghash" => BlkC::WrongHash,
        "dupinput" => BlkC::DupInput,
        "next" => BlkC::Next,
        "nextfuture" => BlkC::NextFuture,
        "known" => BlkC::Known,
        "tampered" => BlkC::Tampered,
        "gtshort" => BlkC::GtShort,
        "spendmissing" => BlkC::SpendMissing,
        "fork1" => BlkC::Fork(1),
        "fork2" => BlkC::Fork(2),
        "fork3" => BlkC::Fork(3),
        _ => return None,
    })
}
/// `<class>[#variant]`, e.g. `chainreq#1`, `resp:111:5`, `tx:gtshort`, `keylist#1000`, `ghost:2:0`
fn parse_msgc(s: &str) -> Option<MsgC> {
    let (base, var) = match s.split_once('#') {
        Some((b, v)) => (b, v.parse::<u64>().ok()?),
        None => (s, 0),
    };
    let parts: Vec<&str> = base.split(':').collect();
    Some(match parts.as_slice() {
        ["challenge"] => MsgC::Challenge,
        ["resp", bits, k] => {
            let b: Vec<bool> = bits.chars().map(|c| c == '1').collect();
            if b.len() != 3 {
                return None;
            }
            MsgC::Resp { ver: b[0], sig: b[1], minor: b[2], key: k.parse().ok()? }
        }
        ["block"] => MsgC::BlockMsg,
        ["tx", c] => MsgC::Tx(parse_txc(c)?),
        ["txtrunc"] => MsgC::TxTrunc,
        ["chainreq"] => MsgC::ChainReq(var as u8),
        ["headerhash"] => MsgC::HeaderHash(var as u8),
        ["ping"] => MsgC::Ping,
        ["spv"] => MsgC::Spv,
        ["services"] => MsgC::Services,
        ["ghost", n, t] => MsgC::Ghost { n: n.parse().ok()?, txs: *t == "1" },
        ["ghostshort"] => MsgC::GhostShort,
        ["ghostreq"] => MsgC::GhostReq(var as u8),
        ["probe"] => MsgC::Probe,
        ["app", t] => MsgC::App(t.parse().ok()?),
        ["keylist"] => MsgC::KeyList(var as u16),
        ["undecodable"] => MsgC::Undecodable(var as u8),
        _ => return None,
    })
}
impl MsgC {
    pub fn spec(&self) -> String {
        match self {
            MsgC::ChainReq(k) | MsgC::HeaderHash(k) | MsgC::GhostReq(k) | MsgC::Undecodable(k) => format!("{}#{}", self.token(), k),
            MsgC::KeyList(n) => format!("keylist#{}", n),
            _ => self.token(),
        }
    }
}
impl Ev {
    pub fn spec(&self) -> String {
        match self {
            Ev::Msg { from, m } => format!("msg {} {}", from, m.spec()),
            Ev::Fetched { from, b } => format!("fetched {} {}", from, b.name()),
            _ => self.token(),
        }
    }
}
/// one event spec, or `burst <n> <event spec>`
pub fn parse_ev(s: &str) -> Option<Vec<Ev>> {
    let t: Vec<&str> = s.split_whitespace().collect();
    Some(match t.as_slice() {
        ["burst", n, rest @ ..] => {
            let inner = parse_ev(&rest.join(" "))?;
            let n: usize = n.parse().ok()?;
            (0..n).flat_map(|_| inner.clone()).collect()
        }
        ["msg", p, m] => vec![Ev::Msg { from: p.parse().ok()?, m: parse_msgc(m)? }],
        ["connect", p] => vec![Ev::Connect { p: p.parse().ok()? }],
        ["connectfailed"] => vec![Ev::ConnectFailed],
        ["disconnect", p] => vec![Ev::Disconnect { p: p.parse().ok()? }],
        ["fetched", p, b] => vec![Ev::Fetched { from: p.parse().ok()?, b: parse_blkc(b)? }],
        ["fetchfailed", p] => vec![Ev::FetchFailed { from: p.parse().ok()? }],
        ["runv"] => vec![Ev::RunV],
        ["runc"] => vec![Ev::RunC],
        ["tick"] => vec![Ev::Tick],
        ["advance"] => vec![Ev::Advance],
        ["bumpmsg", p, n] => vec![Ev::BumpMsg { p: p.parse().ok()?, n: n.parse().ok()? }],
        ["shape", ty, nin, nout, pin, pout, sg, rest @ ..] if rest.is_empty() || rest.len() == 3 => vec![Ev::SetShape(Shape {
            ty: ty.parse().ok()?,
            nin: nin.parse().ok()?,
            nout: nout.parse().ok()?,
            pin: pin.parse().ok()?,
            pout: pout.parse().ok()?,
            signed: *sg == "1",
            sidx: if rest.len() == 3 { rest[0].parse().ok()? } else { 0 },
            tw: if rest.len() == 3 { rest[1].parse().ok()? } else { 0 },
            tv: if rest.len() == 3 { rest[2].parse().ok()? } else { 0 },
        })],
        ["probe", "ghostreq", id, fork] => vec![Ev::SetProbe(Probe::GhostReq { id: id.parse().ok()?, fork: fork.parse().ok()? })],
        ["probe", "chainreq", id, fork] => vec![Ev::SetProbe(Probe::ChainReq { id: id.parse().ok()?, fork: fork.parse().ok()? })],
        ["probe", "headerhash", id] => vec![Ev::SetProbe(Probe::HeaderHash { id: id.parse().ok()? })],
        ["probe", "ghost", id, ts, n, txs] => vec![Ev::SetProbe(Probe::Ghost { id: id.parse().ok()?, ts: ts.parse().ok()?, n: n.parse().ok()?, txs: *txs == "1" })],
        ["probe", "api", tag, idx] => vec![Ev::SetProbe(Probe::Api { tag: tag.parse().ok()?, idx: idx.parse().ok()? })],
        ["probe", "respver", ma, mi, pa, wh] => vec![Ev::SetProbe(Probe::RespVer { major: ma.parse().ok()?, minor: mi.parse().ok()?, patch: pa.parse().ok()?, which: wh.parse().ok()? })],
        ["probe", "blockfield", f, v] => vec![Ev::SetProbe(Probe::BlockField { field: f.parse().ok()?, val: v.parse().ok()? })],
        ["probe", "fetchedid", id] => vec![Ev::SetProbe(Probe::FetchedId { id: id.parse().ok()? })],
        _ => return None,
    })
}
/// a corpus line: `[spv] ev ; ev ; ...`
pub fn parse_case(line: &str) -> Option<Case> {
    let line = line.trim();
    if line.is_empty() || line.starts_with('#') {
        return None;
    }
    let (mode, rest) = if let Some(r) = line.strip_prefix("spv ") {
        (1u8, r)
    } else if let Some(r) = line.strip_prefix("browser ") {
        (2u8, r)
    } else {
        (0u8, line)
    };
    let mut evs = vec![];
    for part in rest.split(';') {
        evs.extend(parse_ev(part.trim())?);
    }
    // lines that use transaction shapes are monitor-only like the sweep itself (the model has no shape classes)
    let origin = if evs.iter().any(|e| matches!(e, Ev::SetShape(_) | Ev::SetProbe(_))) { "shape-sweep" } else { "corpus" };
    Some(Case { mode, evs, origin })
}

#[derive(Clone, Debug)]
pub struct Case {
    /// 0 full node, 1 lite (spv) mode, 2 browser mode
    pub mode: u8,
    pub evs: Vec<Ev>,
    pub origin: &'static str,
}

/// the witnesses of the reproduced sites: (flag name, event sequence)
pub fn witnesses() -> Vec<(&'static str, &'static str)> {
    vec![
        ("blocktag", "msg 3 block"),
        ("ghostreq", "msg 3 ghostreq"),
        ("keylist", "burst 101 msg 3 keylist#2"),
        ("hskey", "msg 3 resp:111:3 ; msg 3 challenge ; msg 3 resp:111:5"),
        ("gtpayload", "msg 3 tx:gtshort ; runv ; runc"),
        ("fetchgen", "fetched 3 dupinput ; runv"),
        ("inputless", "msg 3 tx:issuance ; runv ; runc ; tick"),
        ("txv", "fetched 3 spendmissing ; runv ; runc"),
        ("txbounds", "msg 3 txtrunc"),
        ("ghostbounds", "msg 3 ghostshort"),
        ("restore", "fetched 3 fork1 ; runv ; runc ; fetched 3 fork2 ; runv ; runc ; fetched 3 fork3 ; runv ; runc"),
        ("bundleclock", "fetched 3 nextfuture ; runv ; runc ; tick"),
    ]
}

/// outcome-class probes (not panic sites): (flag name, event sequence); the flag is 1 iff the LAST step is `rejected`.
/// They tell the model what a tree does with a block that spends a non-existent output, per node mode, independently
/// of whether the supply-check panic (`txv`) is gone.
pub fn outcome_probes() -> Vec<(&'static str, &'static str)> {
    vec![
        ("smrej", "fetched 3 spendmissing ; runv ; runc"),
        ("smrejbrowser", "browser fetched 3 spendmissing ; runv ; runc"),
        ("smrejspv", "spv fetched 3 spendmissing ; runv ; runc"),
        ("gtvrej", "fetched 3 gtshort ; runv"),
    ]
}

// ------------------------------------------------------------------------------------------------ generators
fn hostile_messages(post_handshake: bool) -> Vec<MsgC> {
    let mut v = vec![MsgC::Challenge];
    for bits in 0..8u8 {
        for k in [K_ATT, K_ATT_OTHER] {
            v.push(MsgC::Resp { ver: bits & 4 != 0, sig: bits & 2 != 0, minor: bits & 1 != 0, key: k });
        }
    }
    v.push(MsgC::BlockMsg);
    for c in TxC::ALL {
        v.push(MsgC::Tx(c));
    }
    v.push(MsgC::TxTrunc);
    for k in 0..3 {
        v.push(MsgC::ChainReq(k));
    }
    for k in 0..4 {
        v.push(MsgC::HeaderHash(k));
    }
    v.extend([MsgC::Ping, MsgC::Spv, MsgC::Services, MsgC::GhostShort, MsgC::GhostReq(0), MsgC::GhostReq(1)]);
    v.extend([MsgC::Ghost { n: 0, txs: false }, MsgC::Ghost { n: 2, txs: true }, MsgC::Ghost { n: 2, txs: false }]);
    for t in 12..15 {
        v.push(MsgC::App(t));
    }
    v.extend([MsgC::KeyList(0), MsgC::KeyList(1), MsgC::KeyList(1000)]);
    for k in 0..6 {
        v.push(MsgC::Undecodable(k));
    }
    let _ = post_handshake;
    v
}
/// classes that are known to end the node on the pinned tree (drawn rarely so that sequences get long)
fn is_fatal_class(m: &MsgC) -> bool {
    matches!(m, MsgC::BlockMsg | MsgC::TxTrunc | MsgC::GhostShort | MsgC::Tx(TxC::GtShort) | MsgC::Tx(TxC::GtLong) | MsgC::Tx(TxC::Issuance) | MsgC::Tx(TxC::Atr))
}
const ALL_BLK: [BlkC; 9] = [BlkC::Garbage, BlkC::WrongHash, BlkC::DupInput, BlkC::Next, BlkC::NextFuture, BlkC::Known, BlkC::Tampered, BlkC::GtShort, BlkC::SpendMissing];

pub fn cases(seed: u64, tier: &str) -> Vec<Case> {
    let thorough = tier == "thorough";
    let mut r = Rng::new(seed ^ 0xC11);
    let mut v: Vec<Case> = vec![];
    // 0. corpus (witnesses and past disagreements) first
    let dir = format!("{}/corpus/C11", verif_root());
    let mut files: Vec<_> = std::fs::read_dir(&dir).map(|d| d.filter_map(|e| e.ok()).map(|e| e.path()).collect()).unwrap_or_default();
    files.sort();
    for f in files {
        if f.extension().map(|e| e == "ops").unwrap_or(false) {
            for line in std::fs::read_to_string(&f).unwrap_or_default().lines() {
                if let Some(c) = parse_case(line) {
                    v.push(c);
                }
            }
        }
    }
    for (_, w) in witnesses().into_iter().chain(outcome_probes().into_iter()) {
        v.push(parse_case(w).unwrap());
    }
    // 1. systematic: every message class from every sender state, then the pipeline is drained
    let eager = [Ev::RunV, Ev::RunC, Ev::Tick];
    let hs = |p: u64, k: u64| Ev::Msg { from: p, m: MsgC::Resp { ver: true, sig: true, minor: true, key: k } };
    let sender_states: Vec<(u64, Vec<Ev>)> = vec![
        (P_ATT, vec![]),                                                            // connected, no handshake
        (P_ATT, vec![hs(P_ATT, K_ATT)]),                                            // handshake done
        (P_ATT, vec![hs(P_ATT, K_ATT), Ev::Msg { from: P_ATT, m: MsgC::Challenge }]), // handshake done, fresh challenge outstanding
        (P_ATT, vec![Ev::Disconnect { p: P_ATT }]),                                 // disconnected record
        (P_STATIC, vec![]),                                                         // static, never connected
        (P_STATIC, vec![Ev::Connect { p: P_STATIC }, Ev::Msg { from: P_STATIC, m: MsgC::Challenge }]),
        (P_STATIC, vec![Ev::Connect { p: P_STATIC }, Ev::Msg { from: P_STATIC, m: MsgC::Challenge }, hs(P_STATIC, K_STATIC), Ev::Disconnect { p: P_STATIC }, Ev::Connect { p: P_STATIC }, Ev::Msg { from: P_STATIC, m: MsgC::Challenge }]),
        (P_ATT2, vec![Ev::Connect { p: P_ATT2 }]),                                  // a second connection
        (P_HONEST, vec![]),                                                         // the honest peer's connection (e.g. hijacked)
        (P_NONE, vec![]),                                                           // an index the node never saw
    ];
    for (si, (p, prefix)) in sender_states.iter().enumerate() {
        for m in hostile_messages(true) {
            let m = match m {
                MsgC::Resp { ver, sig, minor, key } if *p == P_STATIC => MsgC::Resp { ver, sig, minor, key: if key == K_ATT { K_STATIC } else { key } },
                MsgC::Resp { ver, sig, minor, key } if *p == P_HONEST => MsgC::Resp { ver, sig, minor, key: if key == K_ATT { K_HONEST } else { key } },
                other => other,
            };
            // quick: every class for the first three states, a seeded half elsewhere
            if !thorough && si >= 3 && r.coin(1, 2) {
                continue;
            }
            for mode in [0u8, 1, 2] {
                if mode > 0 && (!thorough && r.coin(5, 6)) {
                    continue;
                }
                let mut evs = prefix.clone();
                evs.push(Ev::Msg { from: *p, m: m.clone() });
                evs.extend(eager.iter().cloned());
                v.push(Case { mode, evs, origin: "systematic-msg" });
            }
        }
    }
    for p in [P_ATT, P_HONEST, P_STATIC, P_NONE] {
        for b in ALL_BLK {
            for mode in [0u8, 1, 2] {
                if mode > 0 && !thorough && r.coin(1, 2) {
                    continue;
                }
                let mut evs = vec![Ev::Fetched { from: p, b }];
                evs.extend(eager.iter().cloned());
                evs.push(Ev::Tick);
                v.push(Case { mode, evs, origin: "systematic-fetched" });
            }
        }
    }
    // connection events
    for p in [P_ATT, P_HONEST, P_STATIC, P_ATT2, P_NONE] {
        v.push(Case { mode: 0, evs: vec![Ev::Disconnect { p }, Ev::Msg { from: p, m: MsgC::Ping }, Ev::Connect { p }, Ev::Msg { from: p, m: MsgC::Challenge }, Ev::FetchFailed { from: p }, Ev::ConnectFailed], origin: "systematic-conn" });
    }
    // 2. rate limiters: bursts up to and beyond each limit
    let burst = |e: Ev, n: usize| -> Vec<Ev> { (0..n).map(|_| e.clone()).collect() };
    {
        let mut evs = burst(Ev::Msg { from: P_ATT, m: MsgC::Challenge }, 101);
        evs.push(hs(P_ATT, K_ATT));
        evs.push(Ev::Msg { from: P_ATT, m: MsgC::Ping });
        evs.push(Ev::Advance);
        evs.push(Ev::Msg { from: P_ATT, m: MsgC::Challenge });
        evs.push(hs(P_ATT, K_ATT));
        v.push(Case { mode: 0, evs, origin: "burst-handshake" });
        let mut evs = burst(Ev::Msg { from: P_ATT, m: MsgC::KeyList(3) }, 100);
        evs.push(Ev::Advance);
        evs.extend(burst(Ev::Msg { from: P_ATT, m: MsgC::KeyList(3) }, 3));
        evs.push(Ev::Msg { from: P_HONEST, m: MsgC::KeyList(2) });
        v.push(Case { mode: 0, evs, origin: "burst-keylist" });
        // message limit: 99_998 earlier messages, then the limit is crossed by real ones; every tag is throttled alike
        let mut evs = vec![Ev::BumpMsg { p: P_ATT, n: 99_997 }];
        for m in [MsgC::Ping, MsgC::Ping, MsgC::Ping, MsgC::BlockMsg, MsgC::GhostReq(0), MsgC::TxTrunc, MsgC::Tx(TxC::GtShort), MsgC::Undecodable(1)] {
            evs.push(Ev::Msg { from: P_ATT, m });
        }
        evs.push(Ev::Msg { from: P_HONEST, m: MsgC::Ping });
        evs.push(Ev::Tick);
        evs.push(Ev::Tick);
        evs.push(Ev::Msg { from: P_ATT, m: MsgC::Ping });
        v.push(Case { mode: 0, evs, origin: "burst-message-limit" });
        // invalid-block limit: ten bad buffers, then the next fetched buffer disconnects the peer
        let mut evs = vec![];
        for i in 0..11 {
            evs.push(Ev::Fetched { from: P_ATT, b: if i % 2 == 0 { BlkC::Garbage } else { BlkC::WrongHash } });
            evs.push(Ev::RunV);
        }
        evs.push(Ev::Fetched { from: P_ATT, b: BlkC::Next });
        evs.push(Ev::Fetched { from: P_HONEST, b: BlkC::Next });
        evs.extend([Ev::RunV, Ev::RunC]);
        v.push(Case { mode: 0, evs, origin: "burst-invalid-blocks" });
    }
    // 3. random sequences of peer inputs interleaved with honest traffic under random handler schedules
    let nrand = if thorough { 6000 } else { 1200 };
    let maxlen = if thorough { 10 } else { 6 };
    // an ACCEPTED ghost chain (tag 10, txs=false) moves the node's tip to unverifiable blocks; what fetched blocks mean
    // afterwards is not classified by this suite, so such chains appear in the systematic and corpus cases only
    let msgs: Vec<MsgC> = hostile_messages(true).into_iter().filter(|m| !matches!(m, MsgC::Ghost { n, txs: false } if *n > 0)).collect();
    for i in 0..nrand {
        let len = r.range(2, maxlen) as usize;
        let mode = if r.coin(1, 8) { r.range(1, 2) as u8 } else { 0 };
        let fatal_ok = i % 3 == 0; // two thirds of the sequences avoid the classes known to kill the pinned node
        let mut evs: Vec<Ev> = vec![];
        let mut inputs = 0;
        let mut handshaken = false;
        while inputs < len {
            // honest traffic in between
            if r.coin(1, 3) {
                match r.below(4) {
                    0 => evs.push(Ev::Msg { from: P_HONEST, m: MsgC::Tx(TxC::Valid) }),
                    1 => {
                        evs.push(Ev::Msg { from: P_HONEST, m: MsgC::HeaderHash(0) });
                        evs.push(Ev::Fetched { from: P_HONEST, b: BlkC::Next });
                    }
                    2 => evs.push(Ev::Msg { from: P_HONEST, m: MsgC::Ping }),
                    _ => evs.push(Ev::Msg { from: P_HONEST, m: MsgC::KeyList(2) }),
                }
            }
            let p = *r.pick(&[P_ATT, P_ATT, P_ATT, P_STATIC, P_ATT2, P_NONE, P_HONEST]);
            let e = match r.below(10) {
                0 => Ev::Connect { p },
                1 => Ev::Disconnect { p },
                2 => {
                    let b = *r.pick(&ALL_BLK);
                    if !fatal_ok && matches!(b, BlkC::DupInput | BlkC::GtShort | BlkC::SpendMissing | BlkC::NextFuture) {
                        Ev::Fetched { from: p, b: BlkC::Tampered }
                    } else {
                        Ev::Fetched { from: p, b }
                    }
                }
                3 => {
                    if r.coin(1, 2) {
                        Ev::FetchFailed { from: p }
                    } else {
                        Ev::ConnectFailed
                    }
                }
                4 if !handshaken => {
                    handshaken = true;
                    hs(P_ATT, K_ATT)
                }
                _ => {
                    let mut m = r.pick(&msgs).clone();
                    if !fatal_ok {
                        let mut guard = 0;
                        while (is_fatal_class(&m) || matches!(m, MsgC::GhostReq(_) | MsgC::Resp { ver: true, sig: true, minor: true, .. })) && guard < 20 {
                            m = r.pick(&msgs).clone();
                            guard += 1;
                        }
                    }
                    Ev::Msg { from: p, m }
                }
            };
            evs.push(e);
            inputs += 1;
            // schedule: run some handlers now, or leave the work queued
            for _ in 0..r.below(4) {
                evs.push(match r.below(8) {
                    0..=2 => Ev::RunV,
                    3..=5 => Ev::RunC,
                    6 => Ev::Tick,
                    _ => {
                        if r.coin(1, 3) {
                            Ev::Advance
                        } else {
                            Ev::RunV
                        }
                    }
                });
            }
        }
        // finally everything queued is processed
        for _ in 0..len + 3 {
            evs.push(Ev::RunV);
        }
        for _ in 0..len + 3 {
            evs.push(Ev::RunC);
        }
        evs.push(Ev::Tick);
        evs.push(Ev::Tick);
        v.push(Case { mode, evs, origin: "random" });
    }
    // 4. the reorganisation livelock reached through fetched blocks, alone and interleaved
    for k in 0..(if thorough { 6 } else { 2 }) {
        let mut evs = vec![];
        for f in 1..=3u8 {
            if k > 0 && r.coin(1, 2) {
                evs.push(Ev::Msg { from: P_ATT, m: r.pick(&[MsgC::Ping, MsgC::Challenge, MsgC::KeyList(1), MsgC::Tx(TxC::BadSig)]).clone() });
            }
            evs.push(Ev::Fetched { from: if k % 2 == 0 { P_ATT } else { P_STATIC }, b: BlkC::Fork(f) });
            evs.push(Ev::RunV);
            evs.push(Ev::RunC);
        }
        v.push(Case { mode: 0, evs, origin: "fork" });
    }
    // 5. hostile transaction SHAPE sweep (monitor-only): every transaction type x 0..4 inputs x 0..4 outputs x slip-type
    //    patterns per side x signed/unsigned, as a tag-4 message from the peer without handshake and inside a fetched
    //    block, each followed by verification, consensus and a timer tick. Many shapes share one node; the node is
    //    re-created after a panic and every 40 shapes.
    {
        let pats: Vec<(u8, u8)> = if thorough { vec![(0, 0), (1, 1), (2, 2), (3, 3), (4, 4), (2, 0), (0, 2), (1, 0), (3, 0)] } else { vec![(0, 0), (1, 1), (2, 2), (3, 3), (2, 0), (0, 2)] };
        let mut groups: Vec<Vec<Ev>> = vec![];
        for ty in 0..9u8 {
            for nin in 0..=4u8 {
                for nout in 0..=4u8 {
                    for (pin, pout) in pats.iter() {
                        // patterns differ from all-Normal only where there are slips to put them on
                        if (*pin != 0 && nin == 0) || (*pout != 0 && nout == 0) {
                            continue;
                        }
                        for signed in [true, false] {
                            // quick: unsigned shapes only with the plain and the Bound,Normal,Bound patterns
                            if !signed && !thorough && !matches!((pin, pout), (0, 0) | (2, 2)) {
                                continue;
                            }
                            let sh = Shape::plain(ty, nin, nout, *pin, *pout, signed);
                            groups.push(vec![Ev::SetShape(sh), Ev::Msg { from: P_ATT, m: MsgC::Tx(TxC::Shape) }, Ev::RunV, Ev::RunC, Ev::Tick]);
                            if signed || thorough {
                                groups.push(vec![Ev::SetShape(sh), Ev::Fetched { from: P_ATT, b: BlkC::Shape }, Ev::RunV, Ev::RunC, Ev::Tick]);
                            }
                        }
                    }
                }
            }
        }
        for chunk in groups.chunks(40) {
            v.push(Case { mode: 0, evs: chunk.iter().flatten().cloned().collect(), origin: "shape-sweep" });
        }
    }
    // 6. BOUNDARY sweep (monitor-only): every integer field of every message class the suite sends, and of fetched blocks
    //    and their transactions, on 0 / 1 / MAX-1 / MAX of its type (arithmetic on such values panics in builds with
    //    overflow checks and wraps silently otherwise)
    {
        let mut groups: Vec<Vec<Ev>> = vec![];
        let b64 = [0u64, 1, u64::MAX - 1, u64::MAX];
        let hs = |p: u64, k: u64| Ev::Msg { from: p, m: MsgC::Resp { ver: true, sig: true, minor: true, key: k } };
        let probe_msg = |pr: Probe, handshaken: bool| -> Vec<Ev> {
            let mut g = vec![Ev::SetProbe(pr)];
            if handshaken {
                g.extend([Ev::Connect { p: P_ATT }, hs(P_ATT, K_ATT)]);
            }
            g.extend([Ev::Msg { from: P_ATT, m: MsgC::Probe }, Ev::RunV, Ev::RunC, Ev::Tick]);
            g
        };
        // (a) slip-index patterns near 255 on shapes that reach the index comparisons
        for (ty, nin, nout, pin, pout) in [(8u8, 3u8, 3u8, 2u8, 2u8), (8, 4, 4, 2, 2), (8, 3, 4, 2, 2), (8, 1, 3, 0, 2), (0, 3, 3, 0, 0), (7, 3, 3, 3, 3), (3, 3, 3, 4, 4)] {
            for sidx in 1..=5u8 {
                let sh = Shape { ty, nin, nout, pin, pout, signed: true, sidx, tw: 0, tv: 0 };
                groups.push(vec![Ev::SetShape(sh), Ev::Msg { from: P_ATT, m: MsgC::Tx(TxC::Shape) }, Ev::RunV, Ev::RunC, Ev::Tick]);
                groups.push(vec![Ev::SetShape(sh), Ev::Fetched { from: P_ATT, b: BlkC::Shape }, Ev::RunV, Ev::RunC, Ev::Tick]);
            }
        }
        // (b) one integer field of a transaction on a boundary value
        let bases: Vec<(u8, u8, u8, u8, u8)> = vec![(0, 1, 1, 0, 0), (0, 2, 2, 0, 0), (8, 3, 3, 2, 2), (8, 1, 3, 0, 2), (7, 1, 1, 3, 3), (7, 2, 2, 0, 3), (3, 1, 1, 4, 4), (3, 0, 1, 0, 4), (5, 1, 1, 0, 0), (1, 1, 1, 0, 0), (6, 0, 1, 0, 0), (2, 1, 1, 0, 0)];
        for (bi, (ty, nin, nout, pin, pout)) in bases.iter().enumerate() {
            for tw in 1..=10u8 {
                for tv in 0..4u8 {
                    // quick: the interior values 1 / MAX-1 only for the first three bases (amounts: for every base)
                    if !thorough && bi >= 3 && (tv == 1 || tv == 2) && !matches!(tw, 3 | 7 | 10) {
                        continue;
                    }
                    // a replacement count near 2^32 makes the node expand that many merkle leaves: every such case costs a
                    // watchdog period, so quick keeps one (MAX, plain transaction, both deliveries)
                    if tw == 2 && tv >= 2 && !(bi == 0 && tv == 3) && !(thorough && bi < 4) {
                        continue;
                    }
                    let sh = Shape { ty: *ty, nin: *nin, nout: *nout, pin: *pin, pout: *pout, signed: true, sidx: 0, tw, tv };
                    groups.push(vec![Ev::SetShape(sh), Ev::Msg { from: P_ATT, m: MsgC::Tx(TxC::Shape) }, Ev::RunV, Ev::RunC, Ev::Tick]);
                    groups.push(vec![Ev::SetShape(sh), Ev::Fetched { from: P_ATT, b: BlkC::Shape }, Ev::RunV, Ev::RunC, Ev::Tick]);
                }
            }
        }
        // (c) requests: block ids on boundaries x fork-id patterns, before and after the handshake
        for id in b64.iter().chain([2u64, 3, 4, 10, u32::MAX as u64].iter()) {
            for fork in 0..4u8 {
                for handshaken in [true, false] {
                    groups.push(probe_msg(Probe::GhostReq { id: *id, fork }, handshaken));
                    groups.push(probe_msg(Probe::ChainReq { id: *id, fork }, handshaken));
                }
            }
            groups.push(probe_msg(Probe::HeaderHash { id: *id }, true));
            groups.push(probe_msg(Probe::HeaderHash { id: *id }, false));
        }
        // (d) ghost chains whose entries carry boundary ids / timestamps (queued for fetching, or added as ghost blocks)
        for id in b64 {
            for ts in b64 {
                for txs in [true, false] {
                    groups.push(probe_msg(Probe::Ghost { id, ts, n: 2, txs }, false));
                }
            }
        }
        // (e) api message index, handshake versions
        for tag in 12..15u8 {
            for idx in [0u32, 1, u32::MAX - 1, u32::MAX] {
                groups.push(probe_msg(Probe::Api { tag, idx }, false));
            }
        }
        for which in 0..2u8 {
            for (ma, mi, pa) in [(0u8, 0u8, 1u16), (0, 0, u16::MAX), (255, 255, u16::MAX), (255, 0, 0), (0, 255, 0)] {
                groups.push(vec![Ev::SetProbe(Probe::RespVer { major: ma, minor: mi, patch: pa, which }), Ev::Connect { p: P_ATT }, Ev::Msg { from: P_ATT, m: MsgC::Probe }, Ev::Msg { from: P_ATT, m: MsgC::HeaderHash(0) }, Ev::Tick]);
            }
        }
        // (f) fetched blocks: every header integer field on a boundary (re-signed), and the event's own block id
        for val in [2u64, 3, 5, 10, u32::MAX as u64] {
            groups.push(vec![Ev::SetProbe(Probe::BlockField { field: 0, val }), Ev::Fetched { from: P_ATT, b: BlkC::Probe }, Ev::RunV, Ev::RunC, Ev::Tick]);
        }
        for field in 0..27u8 {
            for val in b64 {
                groups.push(vec![Ev::SetProbe(Probe::BlockField { field, val }), Ev::Fetched { from: P_ATT, b: BlkC::Probe }, Ev::RunV, Ev::RunC, Ev::Tick]);
            }
        }
        for id in b64 {
            groups.push(vec![Ev::SetProbe(Probe::FetchedId { id }), Ev::Fetched { from: P_ATT, b: BlkC::Probe }, Ev::RunV, Ev::RunC, Ev::Tick]);
        }
        for chunk in groups.chunks(40) {
            v.push(Case { mode: 0, evs: chunk.iter().flatten().cloned().collect(), origin: "boundary-sweep" });
        }
        // (g) announcement floods: a handshaken peer announces more blocks than one fetch batch (10) and serves none of them;
        //     the ids come ascending, descending, with late lower ids, repeated, and from two peers; the fetch scheduler runs
        //     on every further announcement (also an honest peer's), on fetched blocks and on the timer
        {
            let ann = |p: u64, k: u64| -> Vec<Ev> { vec![Ev::Msg { from: p, m: MsgC::HeaderHash(k as u8) }] };
            let honest = || -> Vec<Ev> { vec![Ev::Msg { from: P_HONEST, m: MsgC::HeaderHash(0) }, Ev::Tick] };
            let mut floods: Vec<(&'static str, Vec<(u64, u64)>)> = vec![];
            // ascending beyond the batch, then one / several lower heights (k = height - 1000, 4..=255)
            let asc: Vec<(u64, u64)> = (100..120u64).map(|i| (P_ATT, i)).collect();
            let mut a1 = asc.clone();
            a1.push((P_ATT, 50));
            floods.push(("ascending-then-one-lower", a1));
            let mut a2 = asc.clone();
            a2.extend([(P_ATT, 50), (P_ATT, 40), (P_ATT, 30), (P_ATT, 20)]);
            floods.push(("ascending-then-descending-lower", a2));
            floods.push(("descending", (100..125u64).rev().map(|i| (P_ATT, i)).collect()));
            floods.push(("alternating", (0..24u64).map(|i| (P_ATT, if i % 2 == 0 { 200 + i } else { 200 - i })).collect()));
            floods.push(("same-height-siblings", (0..24u64).map(|i| (P_ATT, 60 + i / 3)).collect()));
            floods.push(("exactly-one-batch-then-lower", (100..110u64).map(|i| (P_ATT, i)).chain([(P_ATT, 99), (P_ATT, 98)]).collect()));
            floods.push(("two-peers-interleaved", (0..30u64).map(|i| (if i % 2 == 0 { P_ATT } else { P_ATT2 }, if i < 22 { 140 + i } else { 130 - i })).collect()));
            for (_name, seq) in floods {
                let mut g = vec![Ev::Connect { p: P_ATT }, hs(P_ATT, K_ATT), Ev::Connect { p: P_ATT2 }, hs(P_ATT2, K_ATT_OTHER)];
                for (k, (p, id)) in seq.iter().enumerate() {
                    g.extend(ann(*p, *id));
                    if k % 7 == 6 {
                        g.push(Ev::Tick);
                    }
                }
                g.extend(honest());
                g.extend(ann(P_ATT, 4));
                g.extend(honest());
                g.extend([Ev::Fetched { from: P_HONEST, b: BlkC::Next }, Ev::RunV, Ev::RunC, Ev::Tick]);
                g.extend(honest());
                v.push(Case { mode: 0, evs: g, origin: "announcement-flood" });
            }
        }
    }
    // the same side branch when the main chain has grown meanwhile: no reorganisation, no stall
    for mode in [1u8, 2] {
        v.push(Case { mode, evs: parse_case("fetched 3 fork1 ; runv ; runc ; fetched 3 fork2 ; runv ; runc ; fetched 3 fork3 ; runv ; runc ; tick").unwrap().evs, origin: "fork" });
    }
    v.push(Case {
        mode: 0,
        evs: parse_case("fetched 3 fork1 ; runv ; runc ; fetched 2 next ; runv ; runc ; fetched 3 fork2 ; runv ; runc ; fetched 3 fork3 ; runv ; runc ; tick").unwrap().evs,
        origin: "fork",
    });
    v
}

// ------------------------------------------------------------------------------------------------ panic-site inventory (steers generators, printed in the evidence; NOT a proof obligation)
pub fn inventory() -> serde_json::Value {
    let files = [
        "saito-core/src/core/routing_thread.rs",
        "saito-core/src/core/verification_thread.rs",
        "saito-core/src/core/consensus_thread.rs",
        "saito-core/src/core/io/network.rs",
        "saito-core/src/core/consensus/peers/peer.rs",
        "saito-core/src/core/consensus/peers/peer_collection.rs",
        "saito-core/src/core/consensus/mempool.rs",
        "saito-core/src/core/consensus/golden_ticket.rs",
        "saito-core/src/core/consensus/blockchain.rs",
        "saito-core/src/core/consensus/block.rs",
        "saito-core/src/core/consensus/transaction.rs",
        "saito-core/src/core/msg/message.rs",
        "saito-core/src/core/msg/ghost_chain_sync.rs",
    ];
    let pats = [".unwrap()", ".expect(", "unreachable!", "panic!(", "assert!(", "assert_eq!(", "assert_ne!("];
    let mut out = serde_json::Map::new();
    for f in files {
        let repo = std::env::var("VERIF_REPO").unwrap_or_else(|_| "/repo".to_string());
        let text = std::fs::read_to_string(format!("{}/{}", repo, f)).unwrap_or_default();
        let mut sites = vec![];
        for (i, line) in text.lines().enumerate() {
            if line.contains("#[cfg(test)]") || line.trim_start().starts_with("mod tests") {
                break;
            }
            let t = line.trim_start();
            if t.starts_with("//") {
                continue;
            }
            for p in pats {
                if line.contains(p) {
                    sites.push(format!("{}:{}", i + 1, p.trim_matches(|c| c == '.' || c == '(')));
                }
            }
        }
        out.insert(f.rsplit('/').next().unwrap().to_string(), serde_json::json!({"count": sites.len(), "sites": sites}));
    }
    serde_json::Value::Object(out)
}

// ------------------------------------------------------------------------------------------------ worker / parent
fn finding_key(handler: &str, site: &str, feature: &str) -> String {
    if site == "blockchain.rs:check_total_supply" && feature == "block-spending-nonexistent-output" {
        // the same defect the chain suite reports
        return "C11/add_block-panics/check_total_supply".to_string();
    }
    format!("C11/{}/{}/{}", handler, site, feature)
}

/// child process: runs cases from `start` and streams tagged lines on stdout
pub fn worker(seed: u64, tier: &str, start: usize) {
    record_panics();
    let rt = rt();
    let all = cases(seed, tier);
    let stdout = std::io::stdout();
    let emit = |tag: &str, s: &str| {
        let mut o = stdout.lock();
        writeln!(o, "{}\t{}", tag, s).unwrap();
        o.flush().unwrap();
    };
    for (k, c) in all.iter().enumerate() {
        if k < start {
            continue;
        }
        emit("C", &k.to_string());
        emit("H", &format!("origin:{}", c.origin));
        let n_inputs = c.evs.iter().filter(|e| e.is_input()).count();
        emit("H", &format!("peer-inputs-per-case:{}", if n_inputs > 10 { ">10".to_string() } else { n_inputs.to_string() }));
        rt.block_on(async {
            let mut w = World::new(seed.wrapping_add(k as u64), c.mode).await;
            let spec: Vec<String> = c.evs.iter().map(|e| e.spec()).collect();
            let ctx = serde_json::json!({"suite": "disp", "case": k, "mode": c.mode, "events": spec.join(" ; ")});
            emit("X", &ctx.to_string());
            let sweep = c.origin == "shape-sweep" || c.origin == "boundary-sweep";
            // after a stall the parent restarts the worker on the SAME case at the group after the one that hung
            let resume_group: usize = if k == start { std::env::var("C11_RESUME_GROUP").ok().and_then(|x| x.parse().ok()).unwrap_or(0) } else { 0 };
            let mut group_no = 0usize;
            // events applied to the CURRENT node since it was created (what a replay has to run)
            let mut since_reset: Vec<String> = vec![];
            let mut skip_to_next_shape = false;
            for (step, ev) in c.evs.iter().enumerate() {
                if sweep {
                    if let Ev::SetShape(_) | Ev::SetProbe(_) = ev {
                        group_no += 1;
                        emit("G", &group_no.to_string());
                        if group_no <= resume_group {
                            skip_to_next_shape = true;
                            continue;
                        }
                        if skip_to_next_shape {
                            // the node died on the previous shape: a fresh one for the rest of the sweep
                            w = World::new(seed.wrapping_add(k as u64).wrapping_add(step as u64), c.mode).await;
                            since_reset.clear();
                            skip_to_next_shape = false;
                        }
                    } else if skip_to_next_shape {
                        continue;
                    }
                    since_reset.push(ev.spec());
                }
                if let Ev::BumpMsg { .. } | Ev::SetShape(_) | Ev::SetProbe(_) = ev {
                    w.apply(ev).await;
                    continue;
                }
                if let Ev::Tick = ev {
                    // the node would bundle its own block while peer blocks built on the old tip are still queued: the
                    // class of those blocks w.r.t. the chain would change under way. Such ticks are skipped (counted).
                    let blocks_queued = w.vq.iter().any(|x| matches!(x.1, VItem::Blk(..))) || w.cq.iter().any(|x| matches!(x.1, CItem::Blk(..)));
                    if blocks_queued {
                        emit("H", "schedule:tick-skipped-while-blocks-queued");
                        continue;
                    }
                }
                w.prepare(ev);
                let summary = w.summary().await;
                let feature = w.feature(ev).await;
                let sender = match ev {
                    Ev::RunV => w.vq.front().map(|x| match &x.1 {
                        VItem::Tx(f, _) | VItem::Blk(f, _) => *f,
                    }),
                    Ev::RunC => w.cq.front().and_then(|x| match &x.1 {
                        CItem::Blk(f, _) => Some(*f),
                        _ => None,
                    }),
                    _ => ev.sender(),
                };
                let before = w.digest(sender).await;
                let pending = format!("step {} | {}", summary, w.ev_token(ev, "0"));
                if sweep {
                    // what a replay of a stall in this step has to run
                    emit("X", &serde_json::json!({"suite": "disp", "case": k, "mode": c.mode, "events": since_reset.join(" ; ")}).to_string());
                }
                emit("P", &format!("{}\t{}", World::handler_of(ev), feature));
                emit(if sweep { "Q" } else { "O" }, &pending);
                let tok0 = w.ev_token(ev, "0");
                let obs = w.apply(ev).await;
                let tok = if let Ev::Tick = ev { format!("tick {}", obs.bundled as u8) } else { tok0 };
                let op = format!("step {} | {}", summary, tok);
                let ctx = if sweep { serde_json::json!({"suite": "disp", "case": k, "mode": c.mode, "events": since_reset.join(" ; "), "shape": w.cur_shape.map(|s| format!("{:?}", s)), "probe": w.cur_probe.map(|s| format!("{:?}", s))}) } else { ctx.clone() };
                // sweep steps are monitor-only: the line is recorded but not compared with the model
                emit(if sweep { "U" } else { "I" }, &format!("{}\t{}", op, obs.answer()));
                emit("H", &format!("outcome:{}", obs.outcome.split(':').next().unwrap_or("")));
                emit("H", &format!("event:{}", ev.token().split(':').next().unwrap_or("").split(' ').filter(|t| t.parse::<u64>().is_err()).collect::<Vec<_>>().join("-")));
                if obs.outcome.starts_with("panic") {
                    let site = obs.outcome.trim_start_matches("panic:").to_string();
                    emit("H", &format!("panic-location:{}", obs.panic_loc));
                    emit(
                        "M",
                        &format!(
                            "{}\t{} panicked: {} @ {}\t{}",
                            finding_key(obs.handler, &site, &feature),
                            obs.handler,
                            obs.panic_msg,
                            obs.panic_loc,
                            serde_json::json!({"case": ctx, "step": step, "event": ev.spec(), "op": op})
                        ),
                    );
                    if sweep {
                        skip_to_next_shape = true;
                        continue;
                    }
                    return; // the node is gone
                }
                if matches!(obs.outcome.as_str(), "rejected" | "ratelimited" | "disconnected") {
                    let after = w.digest(sender).await;
                    if before != after {
                        emit(
                            "M",
                            &format!(
                                "C11/rejected-input-changed-state/{}\toutcome {} but honest-visible state changed: before {:?} after {:?}\t{}",
                                feature,
                                obs.outcome,
                                before,
                                after,
                                serde_json::json!({"case": ctx, "step": step, "event": ev.spec(), "op": op})
                            ),
                        );
                    }
                }
                if let Ev::Msg { m: MsgC::Ghost { n, txs: false }, .. } = ev {
                    if *n > 0 {
                        let after = w.digest(sender).await;
                        if after.tip != before.tip && c.mode == 0 {
                            emit("H", "observation:unverifiable-ghost-chain-moved-the-tip-of-a-full-node");
                        }
                    }
                }
            }
        });
    }
    emit("E", &all.len().to_string());
}

/// run one witness in this process and print its final outcome (used for flag calibration, in a child with a timeout)
pub fn witness_one(name: &str) {
    record_panics();
    let rt = rt();
    let w = witnesses().into_iter().chain(outcome_probes().into_iter()).find(|(n, _)| *n == name);
    let (_, spec) = match w {
        Some(x) => x,
        None => {
            println!("unknown");
            return;
        }
    };
    let c = parse_case(spec).unwrap();
    rt.block_on(async {
        let mut w = World::new(4242, c.mode).await;
        let mut last = String::from("ok");
        for ev in &c.evs {
            w.prepare(ev);
            let o = w.apply(ev).await;
            last = o.outcome.clone();
            if last.starts_with("panic") {
                break;
            }
        }
        println!("{}", last);
    });
}

fn run_child_with_timeout(args: &[&str], ms: u64) -> Option<String> {
    let exe = std::env::current_exe().unwrap();
    let mut child = Command::new(&exe).args(args).stdout(Stdio::piped()).stderr(Stdio::null()).spawn().ok()?;
    let stdout = child.stdout.take().unwrap();
    let (tx, rx) = mpsc::channel::<String>();
    std::thread::spawn(move || {
        let mut s = String::new();
        let _ = std::io::Read::read_to_string(&mut BufReader::new(stdout), &mut s);
        let _ = tx.send(s);
    });
    match rx.recv_timeout(Duration::from_millis(ms)) {
        Ok(s) => {
            let _ = child.wait();
            Some(s.trim().to_string())
        }
        Err(_) => {
            let _ = child.kill();
            let _ = child.wait();
            None
        }
    }
}

/// measure the defect flags of the tree under test by replaying each witness on the real code
pub fn calibrate() -> (String, serde_json::Value) {
    let mut parts = vec![];
    let mut detail = serde_json::Map::new();
    for (name, spec) in witnesses() {
        let r = run_child_with_timeout(&["disp-witness", name, "x", "x"], 6000);
        let (flag, what) = match &r {
            None => (0, "stall".to_string()),
            Some(s) if s.starts_with("panic") => (0, s.clone()),
            Some(s) => (1, s.clone()),
        };
        parts.push(format!("{}={}", name, flag));
        detail.insert(name.to_string(), serde_json::json!({"witness": spec, "observed": what, "flag": flag}));
    }
    for (name, spec) in outcome_probes() {
        let r = run_child_with_timeout(&["disp-witness", name, "x", "x"], 6000);
        let what = r.clone().unwrap_or("stall".to_string());
        let flag = (what == "rejected") as u8;
        parts.push(format!("{}={}", name, flag));
        detail.insert(name.to_string(), serde_json::json!({"probe": spec, "observed": what, "flag": flag, "meaning": "1 iff the last step is rejected"}));
    }
    (parts.join(" "), serde_json::Value::Object(detail))
}

/// parent: spawns workers, turns silence into `stall`, writes ops/impl/stats
pub fn run(seed: u64, tier: &str, outdir: &str) {
    let mut out = Out::new(outdir);
    let (flags, flag_detail) = calibrate();
    out.setup(&format!("flags {}", flags));
    let exe = std::env::current_exe().unwrap();
    let mut start = 0usize;
    let mut stalls = 0;
    // (key, what, replay): recorded at the end, the FIRST occurrence of every distinct key first, because the list of
    // detailed failures kept by `Out` is capped
    let mut fails: Vec<(String, String, serde_json::Value)> = vec![];
    let mut resume_group = 0usize;
    'outer: loop {
        // the worker runs under an address-space limit: an input that makes the node allocate without bound then ends the
        // worker (reported like a stall) instead of exhausting the machine
        let mut child = Command::new("sh")
            .arg("-c")
            .arg("ulimit -v 6000000 2>/dev/null; exec \"$0\" \"$@\"")
            .arg(&exe)
            .args(["disp-worker", &seed.to_string(), tier, &start.to_string()])
            .env("C11_RESUME_GROUP", resume_group.to_string())
            .stdout(Stdio::piped())
            .stderr(Stdio::null())
            .spawn()
            .unwrap();
        resume_group = 0;
        let mut cur_group = 0usize;
        let mut pending_sweep = false;
        let stdout = child.stdout.take().unwrap();
        let (tx, rx) = mpsc::channel::<String>();
        std::thread::spawn(move || {
            for l in BufReader::new(stdout).lines() {
                if let Ok(l) = l {
                    if tx.send(l).is_err() {
                        break;
                    }
                }
            }
        });
        let mut cur_case = start;
        let mut pending_op: Option<String> = None;
        let mut pending_meta: (String, String) = (String::new(), String::new());
        let mut cur_ctx = serde_json::Value::Null;
        loop {
            match rx.recv_timeout(Duration::from_millis(if pending_op.is_some() { 2500 } else { 120000 })) {
                Ok(l) => {
                    let (tag, rest) = l.split_once('\t').unwrap_or((&l, ""));
                    match tag {
                        "C" => {
                            cur_case = rest.parse().unwrap_or(cur_case);
                            cur_group = 0;
                        }
                        "G" => cur_group = rest.parse().unwrap_or(cur_group),
                        "X" => cur_ctx = serde_json::from_str(rest).unwrap_or(serde_json::Value::Null),
                        "P" => {
                            let (h, f) = rest.split_once('\t').unwrap_or((rest, ""));
                            pending_meta = (h.to_string(), f.to_string());
                        }
                        "O" => {
                            pending_op = Some(rest.to_string());
                            pending_sweep = false;
                        }
                        "Q" => {
                            pending_op = Some(rest.to_string());
                            pending_sweep = true;
                        }
                        "I" => {
                            pending_op = None;
                            if let Some((op, ans)) = rest.split_once('\t') {
                                out.case(op, ans);
                            }
                        }
                        "U" => {
                            pending_op = None;
                            if let Some((op, ans)) = rest.split_once('\t') {
                                out.setup(&format!("sweep {} => {}", op, ans));
                            }
                        }
                        "H" => out.count(rest),
                        "M" => {
                            let p: Vec<&str> = rest.splitn(3, '\t').collect();
                            if p.len() == 3 {
                                fails.push((p[0].to_string(), p[1].to_string(), serde_json::from_str(p[2]).unwrap_or(serde_json::Value::Null)));
                            }
                        }
                        "E" => {
                            let _ = child.wait();
                            break 'outer;
                        }
                        _ => {}
                    }
                }
                Err(_) => {
                    // silence: the worker is stuck inside a handler (or died)
                    let _ = child.kill();
                    let _ = child.wait();
                    if let Some(op) = pending_op.take() {
                        if pending_sweep {
                            out.setup(&format!("sweep {} => stall", op));
                        } else {
                            out.case(&op, "stall");
                        }
                        out.count("outcome:stall");
                        fails.push((
                            format!("C11/{}/stall/{}", pending_meta.0, pending_meta.1),
                            format!("{} did not return within 2.5 s (or the worker process died inside the call)", pending_meta.0),
                            serde_json::json!({"case": cur_ctx, "seed": seed, "tier": tier, "op": op}),
                        ));
                        stalls += 1;
                    } else {
                        out.count("worker-died-outside-a-handler-call");
                        fails.push(("C11/harness/worker-died-outside-a-handler-call".to_string(), "the case worker exited or hung outside a guarded handler call".to_string(), serde_json::json!({"case": cur_ctx, "seed": seed, "tier": tier})));
                    }
                    if cur_group > 0 {
                        // a sweep case: go on with the group after the one that hung
                        start = cur_case;
                        resume_group = cur_group;
                    } else {
                        start = cur_case + 1;
                    }
                    if stalls > 60 {
                        out.count("too-many-stalls-stopped-early");
                        break 'outer;
                    }
                    continue 'outer;
                }
            }
        }
    }
    let mut seen = std::collections::HashSet::new();
    let (first, rest): (Vec<_>, Vec<_>) = fails.into_iter().partition(|f| seen.insert(f.0.clone()));
    for (k, w, j) in first.into_iter().chain(rest.into_iter()) {
        out.monitor_fail(&k, &w, j);
    }
    out.finish(serde_json::json!({"stalls": stalls, "flags_measured": flag_detail, "panic_site_inventory": inventory()}));
}

// ------------------------------------------------------------------------------------------------ exploration aid
/// `harness disp-explore "<case spec>" x x`: run one sequence and print every step (debugging / replay)
pub fn explore(spec: &str) {
    record_panics();
    let rt = rt();
    let c = match parse_case(spec) {
        Some(c) => c,
        None => {
            println!("cannot parse case spec");
            return;
        }
    };
    rt.block_on(async {
        let mut w = World::new(1, c.mode).await;
        for e in &c.evs {
            w.prepare(e);
            let s = w.summary().await;
            let f = w.feature(e).await;
            let o = w.apply(e).await;
            println!("step {} | {}\n    => {}   [{}; {}] {} {}", s, w.ev_token(e, &(o.bundled as u8).to_string()), o.answer(), o.handler, f, o.panic_msg, o.panic_loc);
            if o.outcome.starts_with("panic") {
                break;
            }
        }
        let d = w.digest(None).await;
        println!("final: tip {} blocks {} mempool {}/{} pool {}", d.tip.0, d.nblocks, d.mempool_txs, d.mempool_gts, d.pool);
    });
}
