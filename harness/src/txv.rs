//! C01 / C06 correspondence: the real `Transaction::validate`, `Mempool::add_transaction_if_validates`,
//! `VerificationThread::verify_tx` / `verify_block`, `Block::generate`, `Block::validate` and
//! `Blockchain::add_block` on real transactions and blocks (real keys, signatures, blake3) against the Lean
//! model `Saito.TxV` (lean/Saito/Model/TxValidate.lean).
//!
//! A case = a chain state (scenario) + a valid candidate block on its tip + ONE adversarial edit of the
//! catalogue applied at one transaction position / input position. Every candidate is sent through the wire
//! format (serialize_for_net → deserialize_from_net) before it is offered, exactly like a peer's block.
//! Direct monitors (independent of the model) evaluate the properties' own predicates on what the node accepted.
use crate::common::*;
use crate::node::*;
use saito_core::core::consensus::block::{Block, BlockType};
use saito_core::core::consensus::blockchain::Blockchain;
use saito_core::core::consensus::mempool::Mempool;
use saito_core::core::consensus::peers::peer_collection::PeerCollection;
use saito_core::core::consensus::slip::{Slip, SlipType};
use saito_core::core::consensus::transaction::{Transaction, TransactionType};
use saito_core::core::consensus::wallet::Wallet;
use saito_core::core::consensus_thread::ConsensusEvent;
use saito_core::core::defs::{Currency, SaitoHash, SaitoUTXOSetKey, StatVariable};
use saito_core::core::io::storage::Storage;
use saito_core::core::util::crypto::{hash, verify_signature};
use saito_core::core::verification_thread::VerificationThread;
use std::collections::{BTreeMap, BTreeSet, HashMap, HashSet};
use std::sync::{Arc, Mutex};
use tokio::sync::RwLock;

pub const GP: u64 = 100;
pub const HEARTBEAT: u64 = 100;
pub const NKEYS: u64 = 8;
const VICTIM: u64 = 4;
const ATTACKER: u64 = 5;
const DT: u64 = 400;

// ------------------------------------------------------------------------------------------------ node
pub struct VNode {
    pub bc: Arc<RwLock<Blockchain>>,
    pub mempool: Mempool,
    pub wallet_lock: Arc<RwLock<Wallet>>,
    pub storage: Storage,
    pub cfg: Cfg,
}
impl VNode {
    pub fn new(gp: u64, stake: Currency) -> VNode {
        let cfg = Cfg::new(gp, HEARTBEAT, 50);
        let (pk, sk) = key(9);
        let wallet_lock = Arc::new(RwLock::new(Wallet::new(sk, pk)));
        let bc = Blockchain::new(wallet_lock.clone(), gp, stake, 60);
        let mempool = Mempool::new(wallet_lock.clone());
        let storage = Storage::new(Box::new(MemIO { disk: Arc::new(Mutex::new(Disk::default())) }));
        VNode { bc: Arc::new(RwLock::new(bc)), mempool, wallet_lock, storage, cfg }
    }
    /// add_block; Err(message) when the node panics inside
    pub async fn add(&mut self, b: Block) -> Result<&'static str, String> {
        let mut bc = self.bc.write().await;
        guarded_async(bc.add_block(b, &mut self.storage, &mut self.mempool, &self.cfg)).await.map(|r| add_result_class(&r))
    }
}

// ------------------------------------------------------------------------------------------------ scenarios
pub struct Scn {
    pub name: &'static str,
    pub gp: u64,
    pub stake: Currency,
    pub f: Factory,
    pub deliver: Vec<Block>, // genesis first
    pub chain: Vec<Block>,   // ancestry of the tip, genesis first
    pub other_branch: Vec<Slip>,
}
impl Scn {
    pub fn tip(&self) -> &Block {
        self.chain.last().unwrap()
    }
}

fn genesis_issue() -> Vec<(u64, Currency)> {
    let mut v = vec![];
    for k in 1..=3u64 {
        for a in [1000u64, 1000, 2000, 3000, 1000, 700] {
            v.push((k, a));
        }
    }
    for a in [4000u64, 4000, 900, 4000] {
        v.push((VICTIM, a));
    }
    v.push((ATTACKER, 10));
    v.push((ATTACKER, 20));
    v
}

fn owner_of(pk: &[u8; 33]) -> u64 {
    for i in 0..NKEYS {
        if &key(i).0 == pk {
            return i;
        }
    }
    if *pk == [0u8; 33] {
        return 98;
    }
    99
}

/// spendable / spent / ever-created slips of a chain (genesis first), by the harness' own replay
pub struct Ledger {
    pub spendable: BTreeMap<SaitoUTXOSetKey, Slip>,
    pub spent: Vec<Slip>,
    pub created: HashSet<SaitoUTXOSetKey>,
}
pub fn ledger(chain: &[Block]) -> Ledger {
    let mut l = Ledger { spendable: BTreeMap::new(), spent: vec![], created: HashSet::new() };
    for b in chain {
        for tx in &b.transactions {
            for s in &tx.from {
                if s.amount > 0 {
                    if let Some(x) = l.spendable.remove(&s.get_utxoset_key()) {
                        l.spent.push(x);
                    }
                }
            }
            for s in &tx.to {
                if s.amount > 0 {
                    l.spendable.insert(s.get_utxoset_key(), s.clone());
                    l.created.insert(s.get_utxoset_key());
                }
            }
        }
    }
    l
}

fn slips_of(l: &Ledger, owner: u64) -> Vec<Slip> {
    slips_from(l, owner, 0)
}

/// spendable Normal/ATR slips of `owner` created in block `floor` or later
fn slips_from(l: &Ledger, owner: u64, floor: u64) -> Vec<Slip> {
    let pk = key(owner).0;
    let mut v: Vec<Slip> = l
        .spendable
        .values()
        .filter(|s| s.public_key == pk && (s.slip_type == SlipType::Normal || s.slip_type == SlipType::ATR) && s.block_id >= floor)
        .cloned()
        .collect();
    v.sort_by_key(|s| (s.block_id, s.tx_ordinal, s.slip_index));
    v
}

fn mk_tx(f: &Factory, inputs: &[Slip], owner: u64, dest: u64, tag: u8) -> Transaction {
    let amt: Currency = inputs.iter().map(|s| s.amount).sum();
    f.make_tx(&TxSpec {
        inputs: inputs.iter().map(|s| Utxo { slip: s.clone(), owner }).collect(),
        outputs: vec![(dest, amt)],
        data: vec![tag],
    })
}

/// a block created by the real `Block::create` against `node`'s chain (so rebroadcasts, fee transaction and every
/// consensus value are what an honest producer computes), with the user transactions in the given order
pub async fn produce(node: &VNode, f: &mut Factory, parent: &Block, ts: u64, creator: u64, txs: &[Transaction], gt: bool) -> Block {
    let (pk, sk) = key(creator);
    let gt_tx = if gt {
        let mut g = f.golden_ticket_tx(parent, creator);
        g.generate(&pk, 0, 0);
        Some(g)
    } else {
        None
    };
    let mut map: ahash::AHashMap<[u8; 64], Transaction> = Default::default();
    for t in txs {
        let mut t = t.clone();
        t.generate(&pk, 0, 0);
        map.insert(t.signature, t);
    }
    let b0 = {
        let bc = node.bc.read().await;
        Block::create(&mut map, parent.hash, &bc, ts, &pk, &sk, gt_tx, &node.cfg, &node.storage).await.expect("Block::create")
    };
    let mut b = b0.clone();
    set_user_txs(&mut b, &b0, txs, gt);
    reseal(&mut b, Some(creator), true);
    b.generate().expect("generate");
    b
}

/// `[gt?] ++ user ++ rebroadcasts(of b0) ++ [fee?]`
fn set_user_txs(b: &mut Block, b0: &Block, user: &[Transaction], gt: bool) {
    let mut txs = vec![];
    if gt {
        txs.push(b0.transactions[0].clone());
    }
    txs.extend(user.iter().cloned());
    for t in &b0.transactions {
        if t.transaction_type == TransactionType::ATR {
            txs.push(t.clone());
        }
    }
    if let Some(last) = b0.transactions.last() {
        if last.transaction_type == TransactionType::Fee {
            txs.push(last.clone());
        }
    }
    b.transactions = txs;
}

/// the creator's staking transaction: one Normal input, a BlockStake output of the required amount plus change
fn stake_tx(input: &Slip, creator: u64, stake: Currency, tag: u8) -> Transaction {
    let mut t = Transaction::default();
    t.transaction_type = TransactionType::BlockStake;
    t.timestamp = 1_700_000_000_000;
    t.from.push(input.clone());
    let mut o = Slip::default();
    o.public_key = key(creator).0;
    o.amount = stake;
    o.slip_type = SlipType::BlockStake;
    t.to.push(o);
    let mut c = Slip::default();
    c.public_key = key(creator).0;
    c.amount = input.amount - stake;
    t.to.push(c);
    t.data = vec![tag];
    t.sign(&key(creator).1);
    t
}

fn fee_tx(f: &Factory, input: &Slip, owner: u64, dest: u64, fee: Currency, tag: u8) -> Transaction {
    f.make_tx(&TxSpec { inputs: vec![Utxo { slip: input.clone(), owner }], outputs: vec![(dest, input.amount - fee)], data: vec![tag] })
}

pub async fn build_scn(name: &'static str, seed: u64) -> Scn {
    let gp = if name == "window" || name == "treasury" || name == "treasury0" { 5 } else { GP };
    let mut f = Factory::new(seed, Cfg::new(gp, HEARTBEAT, 50));
    let mut issue = genesis_issue();
    if name == "treasury" {
        // little value left in genesis when it is rebroadcast, a funded treasury: the rebroadcast payout
        // multiplier of the next block is 2
        issue = vec![];
        for k in 1..=3u64 {
            issue.push((k, 700));
            issue.push((k, 700));
        }
        issue.push((7, 50000));
        issue.push((7, 40000));
    }
    if name == "window" {
        // small outputs that cannot pay the rebroadcast fee, and one large output that pays a large fee early on
        for k in 1..=3u64 {
            issue.push((k, 100));
            issue.push((k, 100));
        }
        issue.push((VICTIM, 100));
        issue.push((7, 50000));
    }
    if name == "treasury0" {
        // as "treasury", but fees so small that avg_fee_per_byte stays 0 (no rebroadcast fee) and almost nothing left in
        // genesis: multiplier 3 for the candidate block
        issue = vec![];
        for k in 1..=3u64 {
            issue.push((k, 100));
        }
        issue.push((7, 50000));
        issue.push((7, 40000));
    }
    let stake: Currency = if name == "staking" { 2000 } else { 0 };
    if stake > 0 {
        for _ in 0..6 {
            issue.push((6, 5000));
        }
    }
    let g = f.make_genesis(&issue).await;
    f.remember(&g);
    let lg = ledger(&[g.clone()]);
    let s1 = slips_of(&lg, 1);
    let s2 = slips_of(&lg, 2);
    let s3 = slips_of(&lg, 3);
    let mut prod = VNode::new(gp, stake);
    prod.add(g.clone()).await.unwrap();
    match name {
        // G ← B1 ← B2 ; B1 spends one output of key 1 and one of key 3, B2 one of key 2
        "fresh" | "midchain" => {
            let t1 = mk_tx(&f, &s1[0..1], 1, 2, 101);
            let t3 = mk_tx(&f, &s3[0..1], 3, 1, 103);
            let b1 = produce(&prod, &mut f, &g, g.timestamp + DT, 6, &[t1, t3], true).await;
            prod.add(b1.clone()).await.unwrap();
            let t2 = mk_tx(&f, &s2[2..3], 2, 3, 102);
            let b2 = produce(&prod, &mut f, &b1, b1.timestamp + DT, 6, &[t2], true).await;
            // "midchain": a node that joined after genesis — block 1 is never delivered, so `has_total_supply_loaded`
            // is false and Block::validate runs with validate_against_utxo = false
            let deliver = if name == "midchain" { vec![b1.clone(), b2.clone()] } else { vec![g.clone(), b1.clone(), b2.clone()] };
            Scn { name, gp, stake, f, deliver, chain: vec![g, b1, b2], other_branch: vec![] }
        }
        // social staking required (2000): every block after genesis carries the creator's BlockStake transaction
        "staking" => {
            let s6 = slips_of(&lg, 6);
            let t1 = mk_tx(&f, &s1[0..1], 1, 2, 101);
            let t3 = mk_tx(&f, &s3[0..1], 3, 1, 103);
            let b1 = produce(&prod, &mut f, &g, g.timestamp + DT, 6, &[t1, t3, stake_tx(&s6[0], 6, stake, 131)], true).await;
            assert_eq!(prod.add(b1.clone()).await, Ok("added_lc"), "staking scenario block 2");
            let t2 = mk_tx(&f, &s2[2..3], 2, 3, 102);
            let b2 = produce(&prod, &mut f, &b1, b1.timestamp + DT, 6, &[t2, stake_tx(&s6[1], 6, stake, 132)], true).await;
            Scn { name, gp, stake, f, deliver: vec![g.clone(), b1.clone(), b2.clone()], chain: vec![g, b1, b2], other_branch: vec![] }
        }
        // G ← B1 ← B2 (kept)   B1 ← F1 ← F2 (offered and REJECTED: F1 is fine, F2 spends three outputs that were never
        // created, one per key). The node tries the fork (unwinds B2, winds F1), fails on F2 and winds B2 back; the made-up
        // outputs are what `other_branch` lists: nothing on the node's chain ever created them
        "rejfork" => {
            let t1 = mk_tx(&f, &s1[0..1], 1, 2, 101);
            let t3 = mk_tx(&f, &s3[0..1], 3, 1, 103);
            let b1 = produce(&prod, &mut f, &g, g.timestamp + DT, 6, &[t1, t3], true).await;
            prod.add(b1.clone()).await.unwrap();
            let t2 = mk_tx(&f, &s2[2..3], 2, 3, 102);
            let b2 = produce(&prod, &mut f, &b1, b1.timestamp + DT, 6, &[t2], true).await;
            prod.add(b2.clone()).await.unwrap();
            let tf1 = mk_tx(&f, &s2[1..2], 2, 1, 141);
            let f1 = produce(&prod, &mut f, &b1, b1.timestamp + DT + 40, 7, &[tf1], true).await;
            prod.add(f1.clone()).await.unwrap();
            let mut forged = vec![];
            let mut ftx = vec![];
            for k in 1..=3u64 {
                let mut sl = Slip::default();
                sl.public_key = key(k).0;
                sl.amount = 7000 + k;
                sl.block_id = 2;
                sl.tx_ordinal = 40 + k;
                sl.slip_index = 0;
                sl.slip_type = SlipType::Normal;
                sl.utxoset_key = sl.get_utxoset_key();
                ftx.push(mk_tx(&f, &[sl.clone()], k, ATTACKER, 150 + k as u8));
                forged.push(sl);
            }
            let f2 = produce(&prod, &mut f, &f1, f1.timestamp + DT, 7, &ftx, true).await;
            Scn { name, gp, stake, f, deliver: vec![g.clone(), b1.clone(), b2.clone(), f1, f2], chain: vec![g, b1, b2], other_branch: forged }
        }
        // G ← A1 (abandoned)   G ← B1 ← B2 (adopted after a reorganisation)
        "reorg" => {
            let a1t: Vec<Transaction> =
                vec![mk_tx(&f, &s1[0..1], 1, 1, 111), mk_tx(&f, &s2[0..1], 2, 2, 112), mk_tx(&f, &s3[0..1], 3, 3, 113)];
            let a1 = produce(&prod, &mut f, &g, g.timestamp + DT, 6, &a1t, true).await;
            prod.add(a1.clone()).await.unwrap();
            let t2 = mk_tx(&f, &s2[2..3], 2, 3, 122);
            let t1 = mk_tx(&f, &s1[2..3], 1, 2, 121);
            let b1 = produce(&prod, &mut f, &g, g.timestamp + DT + 50, 7, &[t2, t1], true).await;
            prod.add(b1.clone()).await.unwrap();
            let t3 = mk_tx(&f, &s3[2..3], 3, 1, 123);
            let b2 = produce(&prod, &mut f, &b1, b1.timestamp + DT, 7, &[t3], true).await;
            let la = ledger(&[g.clone(), a1.clone()]);
            let lb = ledger(&[g.clone(), b1.clone(), b2.clone()]);
            let other: Vec<Slip> = la.spendable.iter().filter(|(k, _)| !lb.created.contains(*k)).map(|(_, s)| s.clone()).collect();
            Scn { name, gp, stake, f, deliver: vec![g.clone(), a1, b1.clone(), b2.clone()], chain: vec![g, b1, b2], other_branch: other }
        }
        // genesis period 5: G=1 … tip 8. Block 2 carries a large fee (lifts avg_fee_per_byte), blocks 7 and 8
        // rebroadcast what is left of blocks 1 and 2; genesis outputs too small to pay the rebroadcast fee stay in
        // the utxo set although they are outside the window
        "window" => {
            let mut chain = vec![g.clone()];
            let big = slips_of(&lg, 7);
            let mut tip = g.clone();
            for i in 2..=8u64 {
                let txs: Vec<Transaction> = match i {
                    2 => vec![fee_tx(&f, &big[0], 7, 7, 20000, 102), mk_tx(&f, &s1[0..1], 1, 2, 112)],
                    3 => vec![mk_tx(&f, &s2[2..3], 2, 3, 103)],
                    4 => vec![mk_tx(&f, &s3[2..3], 3, 1, 104)],
                    _ => vec![],
                };
                let b = produce(&prod, &mut f, &tip, tip.timestamp + DT, 6, &txs, true).await;
                let r = prod.add(b.clone()).await;
                assert_eq!(r, Ok("added_lc"), "window scenario block {}", i);
                chain.push(b.clone());
                tip = b;
            }
            Scn { name, gp, stake, f, deliver: chain.clone(), chain, other_branch: vec![] }
        }
        // genesis period 5, tip 7. Block 2 carries a large fee and pays 1000 each to keys 1..3 and the victim; block 3
        // has no golden ticket, so block 4 moves half of block 2's fees into the treasury. Block 7 rebroadcasts the
        // 4200 left in genesis; block 8 (the candidate) must rebroadcast block 2's outputs with payout multiplier 2.
        "treasury" | "treasury0" => {
            let big_fee: Currency = if name == "treasury0" { 2000 } else { 20000 };
            let mut chain = vec![g.clone()];
            let big = slips_of(&lg, 7);
            let mut tip = g.clone();
            for i in 2..=7u64 {
                let (txs, gt): (Vec<Transaction>, bool) = match i {
                    2 => (
                        vec![
                            fee_tx(&f, &big[0], 7, 7, big_fee, 102),
                            f.make_tx(&TxSpec {
                                inputs: vec![Utxo { slip: big[1].clone(), owner: 7 }],
                                outputs: vec![(1, 4000), (1, 4000), (2, 4000), (2, 4000), (3, 4000), (3, 4000), (VICTIM, 4000), (VICTIM, 4000), (7, 8000)],
                                data: vec![112],
                            }),
                        ],
                        true,
                    ),
                    3 => (vec![mk_tx(&f, &s1[0..1], 1, 2, 103)], false),
                    4 => {
                        // fresh in-window outputs for keys 1..3 and the victim, from key 7's change of block 2
                        let l = ledger(&chain);
                        let change = slips_of(&l, 7).into_iter().find(|s| s.amount == 50000 - big_fee).expect("change output");
                        (
                            vec![f.make_tx(&TxSpec {
                                inputs: vec![Utxo { slip: change, owner: 7 }],
                                outputs: vec![(1, 500), (1, 500), (2, 500), (2, 500), (3, 500), (3, 500), (VICTIM, 500), (VICTIM, 500), (7, 50000 - big_fee - 4000)],
                                data: vec![104],
                            })],
                            true,
                        )
                    }
                    _ => (vec![], true),
                };
                let b = produce(&prod, &mut f, &tip, tip.timestamp + DT, 6, &txs, gt).await;
                let r = prod.add(b.clone()).await;
                assert_eq!(r, Ok("added_lc"), "treasury scenario block {}", i);
                chain.push(b.clone());
                tip = b;
            }
            Scn { name, gp, stake, f, deliver: chain.clone(), chain, other_branch: vec![] }
        }
        _ => panic!("unknown scenario"),
    }
}

pub async fn mk_node(scn: &Scn) -> VNode {
    let mut n = VNode::new(scn.gp, scn.stake);
    for b in &scn.deliver {
        let r = n.add(b.clone()).await;
        assert!(r.is_ok(), "scenario block must not panic");
    }
    assert_eq!(n.bc.read().await.get_latest_block_hash(), scn.tip().hash, "scenario tip");
    n
}

// ------------------------------------------------------------------------------------------------ edits
#[derive(Clone, Debug)]
pub struct Edit {
    pub name: &'static str,
    pub p: usize,  // transaction position among the user transactions (0 first, 1 middle, 2 last)
    pub ip: usize, // 0 = first input, 1 = last input
}

fn retype(t: u8) -> TransactionType {
    match t {
        1 => TransactionType::Fee,
        3 => TransactionType::ATR,
        5 => TransactionType::SPV,
        6 => TransactionType::Issuance,
        7 => TransactionType::BlockStake,
        8 => TransactionType::Bound,
        _ => TransactionType::Normal,
    }
}

pub const TYPED: [(&str, u8); 5] = [("fee", 1), ("atr", 3), ("spv", 5), ("issuance", 6), ("blockstake", 7)];

/// the catalogue: (name, uses input position)
pub fn catalogue(scn: &Scn) -> Vec<(&'static str, bool)> {
    let mut v = vec![
        ("none", false),
        ("forged-signature", false),
        ("missing-signature", false),
        ("signed-by-other-key", false),
        ("foreign-owned-extra-input", true),
        ("foreign-input-behind-valueless-first-input", true),
        ("nonexistent-input", true),
        ("already-spent-input", true),
        ("duplicated-input", true),
        ("block-double-spend", true),
        ("outputs-exceed-inputs", false),
        ("bound-slip-input", true),
        ("no-inputs", false),
        ("no-outputs", false),
        ("typed-fee-unsigned-spends-foreign-output", false),
        ("typed-atr-unsigned-spends-foreign-output", false),
        ("typed-spv-unsigned-spends-foreign-output", false),
        ("typed-issuance-unsigned-spends-foreign-output", false),
        ("typed-blockstake-unsigned-spends-foreign-output", false),
        ("typed-fee-signed-own-inputs", false),
        ("typed-atr-signed-own-inputs", false),
        ("typed-spv-signed-own-inputs", false),
        ("typed-issuance-signed-own-inputs", false),
        ("typed-blockstake-signed-own-inputs", false),
        ("typed-fee-mints", false),
        ("typed-spv-mints", false),
        ("typed-issuance-mints", false),
        ("typed-blockstake-unsigned-mints-from-foreign-output", false),
        ("typed-blockstake-duplicated-input", false),
        ("typed-blockstake-nonexistent-input", false),
    ];
    if !scn.other_branch.is_empty() {
        v.push(("input-from-abandoned-branch", true));
    }
    if scn.stake > 0 {
        v.push(("staking-tx-unsigned-stakes-foreign-output", false));
    }
    if !pools_of(scn).expired.is_empty() {
        v.push(("expired-input", true));
    }
    if !pools_of(scn).leaving.is_empty() {
        // an extra, correctly signed user transaction spends an output that the candidate block's own rebroadcast
        // (ATR) transaction consumes as well: one output, two spenders in one block
        v.push(("spends-output-being-rebroadcast", false));
    }
    v
}

pub struct Pools {
    pub victim: Vec<Slip>,
    pub spent: Vec<Slip>,
    pub other: Vec<Slip>,
    /// still in the utxo set but created more than a genesis period before the candidate block
    pub expired: Vec<Slip>,
    /// the part of `expired` that leaves the window with the candidate block (created exactly one block below the
    /// candidate's floor), largest first: what the candidate's rebroadcast transactions consume
    pub leaving: Vec<Slip>,
}

/// apply one edit to the ordered user transactions; returns None when the edit has no material in this state.
/// `signers[i]` = key index that produced the signature now on transaction i (99 = nobody / broken)
pub fn apply_edit(f: &Factory, base: &[Transaction], e: &Edit, pools: &Pools) -> Option<(Vec<Transaction>, Vec<u64>)> {
    let mut ts: Vec<Transaction> = base.to_vec();
    let mut signers: Vec<u64> = base.iter().map(|t| owner_of(&t.from[0].public_key)).collect();
    let p = e.p;
    let owner = signers[p];
    let ipx = |t: &Transaction| if e.ip == 0 { 0 } else if e.ip == 2 { t.from.len() / 2 } else { t.from.len() - 1 };
    let victim = pools.victim[p % pools.victim.len()].clone();
    let theft = |typ: TransactionType, extra: Currency, tag: u8| -> Transaction {
        let mut t = Transaction::default();
        t.transaction_type = typ;
        t.timestamp = f.base_ts;
        t.from.push(victim.clone());
        let mut o = Slip::default();
        o.public_key = key(ATTACKER).0;
        o.amount = victim.amount + extra;
        t.to.push(o);
        t.data = vec![tag, p as u8];
        t
    };
    let mint = |typ: TransactionType, tag: u8| -> Transaction {
        let mut t = Transaction::default();
        t.transaction_type = typ;
        t.timestamp = f.base_ts;
        let mut o = Slip::default();
        o.public_key = key(ATTACKER).0;
        o.amount = 500;
        t.to.push(o);
        t.data = vec![tag, p as u8];
        t
    };
    match e.name {
        "none" => {}
        "forged-signature" => {
            ts[p].signature[10] ^= 1;
            signers[p] = 99;
        }
        "missing-signature" => {
            ts[p].signature = [0; 64];
            signers[p] = 99;
        }
        "signed-by-other-key" => {
            ts[p].sign(&key(ATTACKER).1);
            signers[p] = ATTACKER;
        }
        "foreign-owned-extra-input" => {
            if e.ip == 0 {
                ts[p].from.insert(0, victim.clone());
            } else if e.ip == 2 {
                let len = ts[p].from.len();
                ts[p].from.insert((len / 2 + 1).min(len), victim.clone());
            } else {
                ts[p].from.push(victim.clone());
            }
            ts[p].to[0].amount += victim.amount;
            ts[p].to[0].public_key = key(ATTACKER).0;
            ts[p].sign(&key(owner).1);
        }
        "foreign-input-behind-valueless-first-input" => {
            // the first input carries no value (legal; never looked up) and belongs to the key that signs; every
            // value-carrying input behind it belongs to ONE foreign key. ip 0: a stranger signs; otherwise the original owner
            let who = if e.ip == 0 { ATTACKER } else { owner };
            let mut z = Slip::default();
            z.public_key = key(who).0;
            z.amount = 0;
            let mut from = vec![z, victim.clone()];
            if e.ip == 2 {
                if let Some(v2) = pools.victim.iter().find(|s| s.public_key == victim.public_key && s.get_utxoset_key() != victim.get_utxoset_key()) {
                    from.push(v2.clone());
                }
            }
            let total: Currency = from.iter().map(|s| s.amount).sum();
            ts[p].from = from;
            let mut o = Slip::default();
            o.public_key = key(ATTACKER).0;
            o.amount = total;
            ts[p].to = vec![o];
            ts[p].sign(&key(who).1);
            signers[p] = who;
        }
        "nonexistent-input" => {
            // block_id / tx_ordinal are not part of the signed bytes: no re-signing needed
            let i = ipx(&ts[p]);
            ts[p].from[i].block_id = 77;
            ts[p].from[i].tx_ordinal = 5;
        }
        "input-from-abandoned-branch" => {
            let s = pools.other.iter().find(|s| owner_of(&s.public_key) == owner)?.clone();
            let i = ipx(&ts[p]);
            ts[p].to[0].amount = ts[p].to[0].amount - ts[p].from[i].amount + s.amount;
            ts[p].from[i] = s;
            ts[p].sign(&key(owner).1);
        }
        "expired-input" => {
            let s = pools.expired.iter().find(|s| owner_of(&s.public_key) == owner)?.clone();
            let i = ipx(&ts[p]);
            ts[p].to[0].amount = ts[p].to[0].amount - ts[p].from[i].amount + s.amount;
            ts[p].from[i] = s;
            ts[p].sign(&key(owner).1);
        }
        "already-spent-input" => {
            let s = pools.spent.iter().find(|s| owner_of(&s.public_key) == owner)?.clone();
            let i = ipx(&ts[p]);
            ts[p].to[0].amount = ts[p].to[0].amount - ts[p].from[i].amount + s.amount;
            ts[p].from[i] = s;
            ts[p].sign(&key(owner).1);
        }
        "duplicated-input" => {
            let i = ipx(&ts[p]);
            let s = ts[p].from[i].clone();
            ts[p].to[0].amount += s.amount;
            if e.ip == 0 {
                ts[p].from.insert(0, s);
            } else {
                ts[p].from.push(s);
            }
            ts[p].sign(&key(owner).1);
        }
        "spends-output-being-rebroadcast" => {
            let s = pools.leaving.get(p % pools.leaving.len().max(1))?.clone();
            let o = owner_of(&s.public_key);
            let t = mk_tx(f, &[s], o, ATTACKER, 210 + p as u8);
            ts.push(t);
            signers.push(o);
        }
        "block-double-spend" => {
            let i = ipx(&ts[p]);
            let s = ts[p].from[i].clone();
            let t = mk_tx(f, &[s], owner, ATTACKER, 200 + p as u8);
            if e.ip == 0 {
                ts.insert(p, t);
                signers.insert(p, owner);
            } else {
                ts.push(t);
                signers.push(owner);
            }
        }
        "outputs-exceed-inputs" => {
            ts[p].to[0].amount += 1;
            ts[p].sign(&key(owner).1);
        }
        "bound-slip-input" => {
            let i = ipx(&ts[p]);
            ts[p].from[i].slip_type = SlipType::Bound;
            ts[p].sign(&key(owner).1);
        }
        "no-inputs" => {
            ts[p].from.clear();
            ts[p].to[0].amount = 0;
            ts[p].sign(&key(owner).1);
        }
        "no-outputs" => {
            // a zero-amount input of the owner and no output at all (fee-free, so the header values stay right)
            let mut z = ts[p].from[0].clone();
            z.amount = 0;
            ts[p].from = vec![z];
            ts[p].to.clear();
            ts[p].sign(&key(owner).1);
        }
        "staking-tx-unsigned-stakes-foreign-output" => {
            // the block's single staking transaction is replaced by an unsigned one that stakes the victim's output
            // for the attacker
            if p > 0 || ts.len() < 4 {
                return None;
            }
            let mut t = theft(TransactionType::BlockStake, 0, 80);
            t.to[0].slip_type = SlipType::BlockStake;
            let last = ts.len() - 1;
            ts[last] = t;
            signers[last] = 99;
        }
        "typed-blockstake-unsigned-mints-from-foreign-output" => {
            ts[p] = theft(TransactionType::BlockStake, 1000, 77);
            signers[p] = 99;
        }
        "typed-blockstake-duplicated-input" => {
            let mut t = theft(TransactionType::BlockStake, victim.amount, 78);
            t.from.push(victim.clone());
            ts[p] = t;
            signers[p] = 99;
        }
        "typed-blockstake-nonexistent-input" => {
            let mut t = theft(TransactionType::BlockStake, 0, 79);
            t.from[0].block_id = 77;
            ts[p] = t;
            signers[p] = 99;
        }
        n if n.starts_with("typed-") => {
            let (_, code) = TYPED.iter().find(|(s, _)| n[6..].starts_with(s)).copied()?;
            if n.ends_with("-unsigned-spends-foreign-output") {
                ts[p] = theft(retype(code), 0, code);
                signers[p] = 99;
            } else if n.ends_with("-signed-own-inputs") {
                ts[p].transaction_type = retype(code);
                ts[p].sign(&key(owner).1);
            } else if n.ends_with("-mints") {
                ts[p] = mint(retype(code), code);
                signers[p] = 99;
            } else {
                return None;
            }
        }
        _ => return None,
    }
    Some((ts, signers))
}

// ------------------------------------------------------------------------------------------------ projection
#[derive(Default)]
pub struct Ids {
    pub keys: HashMap<SaitoUTXOSetKey, u32>,
    pub blobs: HashMap<Vec<u8>, u32>,
}
impl Ids {
    pub fn k(&mut self, x: &SaitoUTXOSetKey) -> u32 {
        if *x == [0u8; 59] {
            return 0;
        }
        let n = self.keys.len() as u32 + 1;
        *self.keys.entry(*x).or_insert(n)
    }
    pub fn blob(&mut self, x: &[u8]) -> u32 {
        if x.iter().all(|b| *b == 0) {
            return 0;
        }
        let n = self.blobs.len() as u32 + 1;
        *self.blobs.entry(x.to_vec()).or_insert(n)
    }
}

fn tcode(t: TransactionType) -> u8 {
    t as u8
}
fn scode(s: SlipType) -> u8 {
    s as u8
}

/// oracle bit: the signature on the transaction verifies against the key of its first input
pub fn sig_ok(tx: &Transaction) -> bool {
    match (tx.from.first(), &tx.hash_for_signature) {
        (Some(s), Some(h)) => verify_signature(h, &tx.signature, &s.public_key),
        _ => false,
    }
}

/// `t=..;s=..;g=..;r=..;f=..;i=k:own:amt:sty:lk,..;o=own:amt:sty,..`  (the transaction must be generated)
pub fn project_tx(tx: &Transaction, signer: u64, fee_exp: bool, unlocked_upto: u64, floor: u64, ids: &mut Ids) -> String {
    let ins: Vec<String> = tx
        .from
        .iter()
        .map(|s| {
            let lk = s.slip_type == SlipType::BlockStake && s.block_id > unlocked_upto;
            let old = s.block_id < floor;
            format!("{}:{}:{}:{}:{}:{}", ids.k(&s.get_utxoset_key()), owner_of(&s.public_key), s.amount, scode(s.slip_type), lk as u8, old as u8)
        })
        .collect();
    let outs: Vec<String> = tx.to.iter().map(|s| format!("{}:{}:{}", owner_of(&s.public_key), s.amount, scode(s.slip_type))).collect();
    let j = |v: Vec<String>| if v.is_empty() { "-".to_string() } else { v.join(",") };
    // content id: the signed bytes (what the transaction hash commits to); location id: the input keys
    let content = ids.blob(&tx.serialize_for_signature());
    format!(
        "t={};s={};g={};r={};f={};c={};i={};o={}",
        tcode(tx.transaction_type),
        sig_ok(tx) as u8,
        signer,
        tx.validate_routing_path() as u8,
        fee_exp as u8,
        content,
        j(ins),
        j(outs)
    )
}

fn utxo_list(bc: &Blockchain, ids: &mut Ids) -> String {
    let mut ks: Vec<&SaitoUTXOSetKey> = bc.utxoset.iter().filter(|(_, v)| **v).map(|(k, _)| k).collect();
    ks.sort();
    let mut u: Vec<u32> = ks.into_iter().map(|k| ids.k(k)).collect();
    u.sort();
    if u.is_empty() {
        "-".into()
    } else {
        u.iter().map(|x| x.to_string()).collect::<Vec<_>>().join(",")
    }
}

// ------------------------------------------------------------------------------------------------ block assembly
/// candidate on the scenario's tip: `[gt?] ++ user ++ rebroadcasts ++ [fee?]`, header values from the real
/// `Block::create` on the (fee-free) base transactions against a node in the scenario's state; then the user
/// transactions are replaced, the root recomputed, the header re-signed.
pub async fn assemble(scn: &mut Scn, node: &VNode, base: &[Transaction], user: &[Transaction], gt: bool, creator: u64) -> Block {
    let tip = scn.tip().clone();
    let b0 = produce(node, &mut scn.f, &tip, tip.timestamp + DT, creator, base, gt).await;
    let mut b = b0.clone();
    set_user_txs(&mut b, &b0, user, gt);
    reseal(&mut b, Some(creator), true);
    b
}

/// recompute the transaction commitment (optional) and re-sign (optional)
pub fn reseal(b: &mut Block, signer: Option<u64>, recompute_root: bool) {
    for t in b.transactions.iter_mut() {
        t.generate_hash_for_signature();
    }
    if recompute_root {
        b.merkle_root = crate::node::ref_merkle_root(&b.transactions);
    }
    b.generate_pre_hash();
    if let Some(k) = signer {
        b.sign(&key(k).1);
    }
    b.generate_hash();
}

/// a lite-block placeholder: SPV-typed, no slips, its merkle leaf is the first half of its signature field — whatever the
/// sender puts there
pub fn placeholder(leaf: SaitoHash, replacements: u32) -> Transaction {
    let mut ph = Transaction::default();
    ph.transaction_type = TransactionType::SPV;
    ph.txs_replacements = replacements;
    ph.signature[..32].copy_from_slice(&leaf);
    ph.hash_for_signature = Some(leaf);
    ph
}

/// what a peer's block looks like after the wire: decoded, not yet generated
pub fn wire(b: &Block) -> Option<Block> {
    Block::deserialize_from_net(&b.serialize_for_net(BlockType::Full)).ok()
}

// ------------------------------------------------------------------------------------------------ running a block case
pub struct BlockObs {
    pub op: String,
    pub ans: String,
    pub gen_ok: bool,
    pub val: Option<bool>,
    pub add: String,
    pub hash: SaitoHash,
}

fn hs_of(b: &Block) -> i128 {
    b.graveyard as i128 + b.treasury as i128 + b.previous_block_unpaid as i128 + b.total_fees as i128
}

/// offer `cand` (already through the wire, NOT generated) to a fresh node in the scenario's state
pub async fn run_block(scn: &Scn, cand: &Block, signers: &[u64], extra: &str, ids: &mut Ids) -> BlockObs {
    run_block_at(scn, cand, signers, extra, ids, false).await
}

/// `first`: the candidate is offered to a node that holds no block at all (the first block of a chain)
pub async fn run_block_at(scn: &Scn, cand: &Block, signers: &[u64], extra: &str, ids: &mut Ids, first: bool) -> BlockObs {
    let mut node = if first { VNode::new(scn.gp, scn.stake) } else { mk_node(scn).await };
    let (tip_id, tip_hs, tip_treasury) = if first { (0u64, 0i128, 0) } else { (scn.tip().id, hs_of(scn.tip()), scn.tip().treasury) };
    let mut g = cand.clone();
    let gen_ok = g.generate().is_ok();
    let (op, val);
    {
        let bc = node.bc.read().await;
        // `has_total_supply_loaded` for chains shorter than the window: the index knows block 1
        let vau = bc.blockring.get_longest_chain_block_hash_at_block_id(1).is_some();
        // expected fee transaction and expected rebroadcasts, by the real consensus-value code
        let cv = g.generate_consensus_values(&bc, &node.storage, &node.cfg).await;
        let exp_hash = cv.fee_transaction.as_ref().map(|t| hash(&t.serialize_for_signature()));
        let exp_atr: Vec<Vec<u8>> = cv.rebroadcasts.iter().map(|t| t.serialize_for_signature()).collect();
        let got_atr: Vec<Vec<u8>> =
            g.transactions.iter().filter(|t| t.transaction_type == TransactionType::ATR).map(|t| t.serialize_for_signature()).collect();
        let atr_ok = exp_atr == got_atr;
        if std::env::var("VERIF_TXV_DEBUG").is_ok() && extra.contains("/none/") {
            let verdicts: Vec<String> = g.transactions.iter().map(|t| format!("{}:{}", t.transaction_type as u8, t.validate(&bc.utxoset, &bc, true) as u8)).collect();
            let cmp: Vec<(&str, u64, u64)> = vec![
                ("total_fees", cv.total_fees, g.total_fees),
                ("total_fees_new", cv.total_fees_new, g.total_fees_new),
                ("total_fees_cumulative", cv.total_fees_cumulative, g.total_fees_cumulative),
                ("avg_total_fees", cv.avg_total_fees, g.avg_total_fees),
                ("avg_total_fees_new", cv.avg_total_fees_new, g.avg_total_fees_new),
                ("avg_total_fees_atr", cv.avg_total_fees_atr, g.avg_total_fees_atr),
                ("total_payout_routing", cv.total_payout_routing, g.total_payout_routing),
                ("total_payout_mining", cv.total_payout_mining, g.total_payout_mining),
                ("total_payout_treasury", cv.total_payout_treasury, g.total_payout_treasury),
                ("total_payout_graveyard", cv.total_payout_graveyard, g.total_payout_graveyard),
                ("avg_payout_atr", cv.avg_payout_atr, g.avg_payout_atr),
                ("avg_fee_per_byte", cv.avg_fee_per_byte, g.avg_fee_per_byte),
                ("fee_per_byte", cv.fee_per_byte, g.fee_per_byte),
                ("avg_nolan_rebroadcast_per_block", cv.avg_nolan_rebroadcast_per_block, g.avg_nolan_rebroadcast_per_block),
                ("burnfee", cv.burnfee, g.burnfee),
                ("difficulty", cv.difficulty, g.difficulty),
                ("total_rebroadcast_slips", cv.total_rebroadcast_slips, g.total_rebroadcast_slips),
            ];
            eprintln!("{} mismatches {:?} rebhash {}", extra, cmp.iter().filter(|c| c.1 != c.2).collect::<Vec<_>>(), cv.rebroadcast_hash == g.rebroadcast_hash);
            eprintln!(
                "{} tx verdicts {:?} | cv.total_payout_atr {} block {} | cv.total_fees_atr {} block {} | treasury prev {} block {} | cv.rebroadcasts {} | outs cv {:?} block {:?}",
                extra,
                verdicts,
                cv.total_payout_atr,
                g.total_payout_atr,
                cv.total_fees_atr,
                g.total_fees_atr,
                tip_treasury,
                g.treasury,
                cv.rebroadcasts.len(),
                cv.rebroadcasts.iter().map(|t| t.to[0].amount).collect::<Vec<_>>(),
                g.transactions.iter().filter(|t| t.transaction_type == TransactionType::ATR).map(|t| t.to[0].amount).collect::<Vec<_>>()
            );
        }
        let unlocked = bc.get_latest_unlocked_stake_block_id();
        let floor = g.id.saturating_sub(scn.gp);
        let old_floor = tip_id.saturating_sub(scn.gp);
        // counted in the supply before this block, outside the window after it (spent or not)
        let mut xr: u128 = 0;
        for (k, v) in bc.utxoset.iter() {
            if *v {
                if let Ok(sl) = Slip::parse_slip_from_utxokey(k) {
                    if sl.slip_type != SlipType::Bound && sl.block_id >= old_floor && sl.block_id < floor {
                        xr += sl.amount as u128;
                    }
                }
            }
        }
        let mut txs = vec![];
        let mut si = 0usize;
        for t in &g.transactions {
            let system = t.transaction_type == TransactionType::GoldenTicket
                || (t.transaction_type == TransactionType::Fee && t.from.is_empty() && exp_hash == Some(hash(&t.serialize_for_signature())))
                || (t.transaction_type == TransactionType::ATR && exp_atr.contains(&t.serialize_for_signature()));
            let signer = if t.transaction_type == TransactionType::GoldenTicket {
                owner_of(&t.from[0].public_key)
            } else if !system && si < signers.len() {
                si += 1;
                signers[si - 1]
            } else {
                99
            };
            let fe = t.transaction_type == TransactionType::Fee && exp_hash == Some(hash(&t.serialize_for_signature()));
            txs.push(project_tx(t, signer, fe, unlocked, floor, ids));
        }
        // the commitment is recomputed by the harness' own construction, not by the code under test
        let mr = if g.merkle_root == crate::node::ref_merkle_root(&g.transactions) { "ok" } else { "bad" };
        let hsig = verify_signature(&g.pre_hash, &g.signature, &g.creator);
        let dhs = hs_of(&g) - tip_hs;
        op = format!(
            "blk {}id={} vau={} ssr={} dhs={} xr={} atr={} mr={} hsig={} hdr=1 u={} T {}",
            extra,
            g.id,
            vau as u8,
            bc.social_stake_requirement,
            dhs,
            xr,
            atr_ok as u8,
            mr,
            hsig as u8,
            utxo_list(&bc, ids),
            txs.join(" T ")
        );
        val = if gen_ok {
            match guarded_async(g.validate(&bc, &bc.utxoset, &node.cfg, &node.storage, vau)).await {
                Ok(v) => Some(v),
                Err(_) => None,
            }
        } else {
            None
        };
    }
    let add = match node.add(cand.clone()).await {
        Ok(c) => c.to_string(),
        Err(m) => {
            if m.contains("invalid total supply") {
                "panic-supply".to_string()
            } else {
                format!("panic-other")
            }
        }
    };
    let ans = format!(
        "gen={} val={} add={}",
        if gen_ok { "ok" } else { "err" },
        match val {
            Some(true) => "1",
            Some(false) => "0",
            None => "-",
        },
        add
    );
    BlockObs { op, ans, gen_ok, val, add, hash: g.hash }
}

// ------------------------------------------------------------------------------------------------ direct monitors
/// transactions the protocol itself puts into a block: the input-less fee transaction, and a rebroadcast of an
/// output of the block that leaves the window (same owner, created `gp + 1` blocks ago) — decided by the harness
/// from the block alone, not from the node's verdict
fn legit_system_tx(t: &Transaction, b: &Block, scn: &Scn) -> bool {
    match t.transaction_type {
        TransactionType::Fee => t.from.is_empty(),
        TransactionType::ATR => {
            b.id > scn.gp + 1
                && !t.from.is_empty()
                && t.from.iter().all(|s| s.block_id == b.id - scn.gp - 1)
                && t.to.iter().all(|o| t.from.iter().any(|s| s.public_key == o.public_key))
        }
        _ => false,
    }
}

/// C01 predicate on one transaction against the pre-state: returns the violated classes
fn c01_classes(tx: &Transaction, pre: &Ledger, seen: &mut HashSet<SaitoUTXOSetKey>, legit_system: bool, floor: u64) -> Vec<String> {
    let mut v = vec![];
    if legit_system {
        for s in tx.from.iter().filter(|s| s.amount > 0) {
            if !seen.insert(s.get_utxoset_key()) {
                // the protocol's own rebroadcast consumes an output that another transaction of the block spends too
                v.push("accepts-output-spent-by-transaction-and-rebroadcast".to_string());
            }
        }
        return v;
    }
    let typed = match tx.transaction_type {
        TransactionType::Fee => Some("fee"),
        TransactionType::ATR => Some("atr"),
        TransactionType::SPV => Some("spv"),
        TransactionType::Issuance => Some("issuance"),
        TransactionType::BlockStake => Some("blockstake"),
        _ => None,
    };
    let s_ok = sig_ok(tx);
    let first_pk = tx.from.first().map(|s| s.public_key);
    for s in tx.from.iter().filter(|s| s.amount > 0) {
        let k = s.get_utxoset_key();
        if pre.spendable.contains_key(&k) && s.block_id < floor {
            v.push("accepts-expired-input".to_string());
        }
        if !pre.spendable.contains_key(&k) {
            if pre.created.contains(&k) {
                v.push("accepts-already-spent-input".to_string());
            } else {
                v.push("accepts-nonexistent-input".to_string());
            }
        }
        if !seen.insert(k) {
            v.push("accepts-duplicated-input".to_string());
        }
        // authorised: the signature verifies for the key that owns THIS input
        let authorised = match &tx.hash_for_signature {
            Some(h) => verify_signature(h, &tx.signature, &s.public_key),
            None => false,
        };
        if !authorised {
            if let Some(t) = typed {
                if !s_ok {
                    v.push(format!("accepts-unsigned-{}-typed-tx-spending-foreign-output", t));
                    continue;
                }
            }
            if !s_ok {
                v.push("accepts-forged-or-missing-signature".to_string());
            } else if Some(s.public_key) != first_pk {
                v.push("accepts-foreign-owned-extra-input".to_string());
            } else {
                v.push("accepts-unauthorised-input".to_string());
            }
        }
    }
    v.sort();
    v.dedup();
    // a duplicated input inside a transaction that is otherwise impeccable (plain Normal type, signature binds
    // every input, every input exists) is a different failure from the listed one (which needs a transaction whose
    // own verdict is false): give it its own class so that it is never covered by the listed finding
    v
}

// ------------------------------------------------------------------------------------------------ flags
#[derive(Clone, Debug, Default)]
pub struct Flags {
    pub txv: u8,
    pub dup: u8,
    pub own: u8,
    pub stake: u8,
    pub spv: u8,
    pub fee: u8,
    pub pool: u8,
    pub merkle: u8,
    pub loc: u8,
    pub win: u8,
    /// verify_tx itself drops a privileged-type transaction (a tree may refuse them at the pool only)
    pub vdrop: u8,
    /// a full node refuses a block that holds an SPV-typed placeholder, whatever its replacement count
    pub nospv: u8,
}
impl Flags {
    pub fn line(&self) -> String {
        format!(
            "flags txv={} dup={} own={} stake={} spv={} fee={} pool={} merkle={} loc={} win={} vdrop={} nospv={}",
            self.txv, self.dup, self.own, self.stake, self.spv, self.fee, self.pool, self.merkle, self.loc, self.win, self.vdrop, self.nospv
        )
    }
}

pub struct TxObs {
    pub v1: bool,
    pub v0: bool,
    pub pool: String,
    pub vt: String,
}

/// the three transaction entry points on the node's current state (fresh mempool, fresh verification thread)
pub async fn run_tx(node: &VNode, tx: &Transaction) -> TxObs {
    let pk = node.wallet_lock.read().await.public_key;
    let (v1, v0);
    {
        let bc = node.bc.read().await;
        let mut t = tx.clone();
        t.generate(&pk, 0, 0);
        v1 = guarded(|| t.validate(&bc.utxoset, &bc, true)).unwrap_or(false);
        v0 = guarded(|| t.validate(&bc.utxoset, &bc, false)).unwrap_or(false);
    }
    let pool = {
        let bc = node.bc.read().await;
        let mut mp = Mempool::new(node.wallet_lock.clone());
        match guarded_async(mp.add_transaction_if_validates(tx.clone(), &bc)).await {
            Ok(()) => {
                if mp.transactions.contains_key(&tx.signature) {
                    "acc"
                } else {
                    "rej"
                }
            }
            Err(_) => "panic",
        }
        .to_string()
    };
    let vt = {
        let (s_cons, mut r_cons) = tokio::sync::mpsc::channel::<ConsensusEvent>(1000);
        let (s_stat, _r_stat) = tokio::sync::mpsc::channel::<String>(1000);
        let mut th = VerificationThread {
            sender_to_consensus: s_cons,
            blockchain_lock: node.bc.clone(),
            peer_lock: Arc::new(RwLock::new(PeerCollection::default())),
            wallet_lock: node.wallet_lock.clone(),
            processed_txs: StatVariable::new("a".into(), 2, s_stat.clone()),
            processed_blocks: StatVariable::new("b".into(), 2, s_stat.clone()),
            processed_msgs: StatVariable::new("c".into(), 2, s_stat.clone()),
            invalid_txs: StatVariable::new("d".into(), 2, s_stat.clone()),
            stat_sender: s_stat.clone(),
        };
        match guarded_async(th.verify_tx(tx.clone())).await {
            Ok(()) => match r_cons.try_recv() {
                Ok(ConsensusEvent::NewTransaction { .. }) => "fwd",
                _ => "drop",
            },
            Err(_) => "panic",
        }
        .to_string()
    };
    TxObs { v1, v0, pool, vt }
}

/// the wire entry point for a fetched block: (forwarded to consensus?, panicked?)
pub async fn run_verify_block(node: &VNode, bytes: &[u8], adv_hash: SaitoHash, adv_id: u64) -> &'static str {
    let (s_cons, mut r_cons) = tokio::sync::mpsc::channel::<ConsensusEvent>(1000);
    let (s_stat, _r_stat) = tokio::sync::mpsc::channel::<String>(1000);
    let mut th = VerificationThread {
        sender_to_consensus: s_cons,
        blockchain_lock: node.bc.clone(),
        peer_lock: Arc::new(RwLock::new(PeerCollection::default())),
        wallet_lock: node.wallet_lock.clone(),
        processed_txs: StatVariable::new("a".into(), 2, s_stat.clone()),
        processed_blocks: StatVariable::new("b".into(), 2, s_stat.clone()),
        processed_msgs: StatVariable::new("c".into(), 2, s_stat.clone()),
        invalid_txs: StatVariable::new("d".into(), 2, s_stat.clone()),
        stat_sender: s_stat.clone(),
    };
    match guarded_async(th.verify_block(bytes, 1, adv_hash, adv_id)).await {
        Ok(()) => match r_cons.try_recv() {
            Ok(ConsensusEvent::BlockFetched { .. }) => "fwd",
            _ => "drop",
        },
        Err(_) => "panic",
    }
}

/// first block id that is still inside the retention window of a block built on the scenario's tip
fn floor_of(scn: &Scn) -> u64 {
    (scn.tip().id + 1).saturating_sub(scn.gp)
}

fn base_txs(scn: &Scn) -> Vec<Transaction> {
    base_txs_n(scn, 2)
}

/// three user transactions (keys 1..3) with up to `n` inputs each
fn base_txs_n(scn: &Scn, n: usize) -> Vec<Transaction> {
    let l = ledger(&scn.chain);
    let mut v = vec![];
    for (i, k) in [1u64, 2, 3].iter().enumerate() {
        let s = slips_from(&l, *k, floor_of(scn));
        // two inputs of the same owner; pick the first two 1000-slips if present, else the first two
        let mut pick: Vec<Slip> = s.iter().filter(|x| x.amount == 1000).take(n).cloned().collect();
        if pick.len() < n {
            pick = s.iter().take(n).cloned().collect();
        }
        assert!(!pick.is_empty(), "scenario {} leaves key {} no spendable output", scn.name, k);
        v.push(mk_tx(&scn.f, &pick, *k, (*k % 3) + 1, 50 + i as u8));
    }
    if scn.stake > 0 {
        let s6: Vec<Slip> = slips_from(&l, 6, floor_of(scn)).into_iter().filter(|s| s.slip_type == SlipType::Normal && s.amount >= scn.stake).collect();
        v.push(stake_tx(&s6[0], 6, scn.stake, 60));
    }
    v
}

fn pools_of(scn: &Scn) -> Pools {
    let l = ledger(&scn.chain);
    let fl = floor_of(scn);
    let mut expired: Vec<Slip> = l.spendable.values().filter(|s| s.block_id < fl && s.amount > 0).cloned().collect();
    expired.sort_by_key(|s| (s.block_id, s.tx_ordinal, s.slip_index));
    let mut leaving: Vec<Slip> = expired.iter().filter(|s| s.block_id + 1 == fl).cloned().collect();
    leaving.sort_by_key(|s| std::cmp::Reverse(s.amount));
    Pools { victim: slips_from(&l, VICTIM, fl), spent: l.spent.clone(), other: scn.other_branch.clone(), expired, leaving }
}

/// measure the defect flags of the tree under test by replaying the witnesses on the real code
pub async fn calibrate() -> Flags {
    let mut scn = build_scn("fresh", 7).await;
    let base = base_txs(&scn);
    let pools = pools_of(&scn);
    let node = mk_node(&scn).await;
    let mut fl = Flags::default();
    let mut ids = Ids::default();
    let one = |name: &'static str| Edit { name, p: 1, ip: 1 };
    // txv: a block whose middle transaction carries a forged signature (existing inputs, supply-neutral)
    {
        let (user, signers) = apply_edit(&scn.f, &base, &one("forged-signature"), &pools).unwrap();
        let cand = wire(&assemble(&mut scn, &node, &base, &user, true, 6).await).unwrap();
        let o = run_block(&scn, &cand, &signers, "", &mut ids).await;
        fl.txv = (o.val == Some(false)) as u8;
    }
    // dup / own / stake / spv / pool: Transaction::validate and the pool on single transactions
    let tv = |name: &'static str| apply_edit(&scn.f, &base, &one(name), &pools).unwrap().0[1].clone();
    fl.dup = (!run_tx(&node, &tv("duplicated-input")).await.v1) as u8;
    fl.own = (!run_tx(&node, &tv("foreign-owned-extra-input")).await.v1) as u8;
    fl.stake = (!run_tx(&node, &tv("typed-blockstake-unsigned-spends-foreign-output")).await.v1) as u8;
    fl.spv = (!run_tx(&node, &tv("typed-spv-unsigned-spends-foreign-output")).await.v1) as u8;
    {
        let o = run_tx(&node, &tv("typed-fee-unsigned-spends-foreign-output")).await;
        fl.pool = (o.pool != "acc") as u8;
        fl.vdrop = (o.vt != "fwd") as u8;
    }
    // fee: a ticket-less block carrying a Fee-typed transaction that moves a foreign output
    {
        let (user, signers) = apply_edit(&scn.f, &base, &one("typed-fee-unsigned-spends-foreign-output"), &pools).unwrap();
        let cand = wire(&assemble(&mut scn, &node, &base, &user, false, 6).await).unwrap();
        let o = run_block(&scn, &cand, &signers, "", &mut ids).await;
        fl.fee = (o.val == Some(false)) as u8;
    }
    // merkle: two user transactions swapped after signing
    {
        let mut b = assemble(&mut scn, &node, &base, &base, true, 6).await;
        b.transactions.swap(1, 2);
        let cand = wire(&b).unwrap();
        let o = run_block(&scn, &cand, &[1, 2, 3], "", &mut ids).await;
        fl.merkle = (o.val == Some(false)) as u8;
    }
    // nospv: a value-less placeholder with replacement count 1 added to an honest block, root recomputed, re-signed by the creator
    {
        let mut b = assemble(&mut scn, &node, &base, &base, true, 6).await;
        b.transactions.insert(2, placeholder([0x5a; 32], 1));
        reseal(&mut b, Some(6), true);
        let cand = wire(&b).unwrap();
        let o = run_block(&scn, &cand, &[1, 2, 3], "", &mut ids).await;
        fl.nospv = (o.val == Some(false)) as u8;
    }
    // loc: the transaction hash (merkle leaf) changes when an input is re-pointed to another output
    {
        let mut t = base[0].clone();
        t.generate_hash_for_signature();
        let h0 = t.hash_for_signature;
        t.from[0].tx_ordinal += 1;
        t.generate_hash_for_signature();
        fl.loc = (t.hash_for_signature != h0) as u8;
    }
    // win: an output created more than a genesis period ago, too small to be rebroadcast, is still spendable
    {
        let wscn = build_scn("window", 7).await;
        let wbase = base_txs(&wscn);
        let wpools = pools_of(&wscn);
        let wnode = mk_node(&wscn).await;
        fl.win = match apply_edit(&wscn.f, &wbase, &Edit { name: "expired-input", p: 0, ip: 1 }, &wpools) {
            Some((user, _)) => (!run_tx(&wnode, &user[0]).await.v1) as u8,
            None => 1,
        };
    }
    fl
}

// ------------------------------------------------------------------------------------------------ the suite
pub fn run(seed: u64, tier: &str, outdir: &str) {
    let rt = rt();
    rt.block_on(run_async(seed, tier, outdir));
}

fn tx_positions(tier: &str, uses_ip: bool) -> Vec<(usize, usize)> {
    let mut v = vec![];
    for p in 0..3 {
        for ip in 0..(if !uses_ip { 1 } else if tier == "thorough3" { 3 } else { 2 }) {
            v.push((p, ip));
        }
    }
    v
}

/// everything one scenario needs to run cases
pub struct World {
    pub scn: Scn,
    pub base: Vec<Transaction>,
    pub pools: Pools,
    pub pre: Ledger,
    pub node: VNode,
}
pub async fn world(name: &'static str, seed: u64) -> World {
    world_n(name, seed, 2).await
}
pub async fn world_n(name: &'static str, seed: u64, n_inputs: usize) -> World {
    let scn = build_scn(name, seed).await;
    let base = base_txs_n(&scn, n_inputs);
    let pools = pools_of(&scn);
    let pre = ledger(&scn.chain);
    let node = mk_node(&scn).await;
    World { scn, base, pools, pre, node }
}

#[derive(Default)]
pub struct Tally {
    pub honest_total: u64,
    pub honest_accepted: u64,
}

/// one transaction-entry-point case; false when the edit has no material in this state
pub async fn tx_case(out: &mut Out, w: &World, ename: &'static str, p: usize, ip: usize) -> bool {
    let name = w.scn.name;
    let e = Edit { name: ename, p, ip };
    let Some((user, signers)) = apply_edit(&w.scn.f, &w.base, &e, &w.pools) else {
        out.count(&format!("skipped:{}:{}", name, ename));
        return false;
    };
    // the edited transaction (for block-double-spend: the added one)
    let idx = if (ename == "block-double-spend" && ip == 1) || ename == "staking-tx-unsigned-stakes-foreign-output" || ename == "spends-output-being-rebroadcast" {
        user.len() - 1
    } else {
        p
    };
    let tx = &user[idx];
    let mut ids = Ids::default();
    let o = run_tx(&w.node, tx).await;
    let line = {
        let bc = w.node.bc.read().await;
        let mut t = tx.clone();
        t.generate(&key(9).0, 0, 0);
        format!(
            "tx e={}/{}/{}/{} ssr={} u={} T {}",
            name,
            ename,
            p,
            ip,
            bc.social_stake_requirement,
            utxo_list(&bc, &mut ids),
            project_tx(&t, signers[idx], false, bc.get_latest_unlocked_stake_block_id(), floor_of(&w.scn), &mut ids)
        )
    };
    out.case(&line, &format!("v1={} v0={} pool={} vt={}", o.v1 as u8, o.v0 as u8, o.pool, o.vt));
    out.count(&format!("tx:{}:{}", name, ename));
    out.count(&format!("tx-verdict:{}", o.v1 as u8));
    // monitor: what the pool lets in. A peer transaction is pooled only if verify_tx forwards it AND the mempool admits
    // it; a tree that forwards a transaction from the verification thread and refuses it at the mempool has not let it in
    if o.pool == "acc" && o.vt == "fwd" {
        let mut t = tx.clone();
        t.generate(&key(9).0, 0, 0);
        let mut seen = HashSet::new();
        for c in c01_classes(&t, &w.pre, &mut seen, false, floor_of(&w.scn)) {
            out.monitor_fail(
                &format!("C01/pool/{}", c),
                &format!("Mempool::add_transaction_if_validates / verify_tx let the transaction in (pool={} verify_tx={})", o.pool, o.vt),
                serde_json::json!({"scenario": name, "edit": ename, "tx_position": p, "input_position": ip, "op": line}),
            );
        }
    }
    true
}

/// one block-validation case
pub async fn blk_case(out: &mut Out, w: &mut World, tally: &mut Tally, gt: bool, ename: &'static str, p: usize, ip: usize) -> bool {
    let name = w.scn.name;
    let e = Edit { name: ename, p, ip };
    let Some((user, signers)) = apply_edit(&w.scn.f, &w.base, &e, &w.pools) else {
        return false;
    };
    let cand_full = assemble(&mut w.scn, &w.node, &w.base, &user, gt, 6).await;
    let Some(cand) = wire(&cand_full) else {
        out.count("blk:not-decodable");
        return false;
    };
    let mut ids = Ids::default();
    let o = run_block(&w.scn, &cand, &signers, &format!("e={}/gt{}/{}/{}/{} ", name, gt as u8, ename, p, ip), &mut ids).await;
    out.case(&o.op, &o.ans);
    out.count(&format!("blk:{}:gt{}:{}", name, gt as u8, ename));
    out.count(&format!("blk-result:{}", o.add));
    if ename == "none" {
        tally.honest_total += 1;
        if o.add == "added_lc" {
            tally.honest_accepted += 1;
        } else {
            out.monitor_fail("C01/honest-block-rejected", &format!("an unedited block was not accepted: {}", o.ans), serde_json::json!({"scenario": name, "gt": gt}));
        }
    }
    // monitor: the block passed Block::validate (and was wound): every value input must be authorised, existing,
    // unspent, inside the window, unique
    let accepted = o.val == Some(true) && (o.add == "added_lc" || o.add == "panic-supply");
    if accepted {
        let mut g = cand.clone();
        let _ = g.generate();
        let mut seen = HashSet::new();
        let mut classes = vec![];
        for t in &g.transactions {
            let legit = legit_system_tx(t, &g, &w.scn);
            let mut cs = c01_classes(t, &w.pre, &mut seen, legit, g.id.saturating_sub(w.scn.gp));
            // the listed duplicated-input finding needs a transaction whose OWN verdict is false (the sweep's map
            // covers verdict-true transactions): a duplicated input in a verdict-true transaction is a different failure
            if cs.iter().any(|c| c == "accepts-duplicated-input") {
                let bc = w.node.bc.read().await;
                let verdict = crate::common::guarded(|| t.validate(&bc.utxoset, &bc, true)).unwrap_or(false);
                if verdict {
                    for c in cs.iter_mut() {
                        if c == "accepts-duplicated-input" {
                            *c = "accepts-duplicated-input/in-transaction-whose-own-verdict-is-true".to_string();
                        }
                    }
                }
            }
            classes.extend(cs);
        }
        classes.sort();
        classes.dedup();
        for c in classes {
            out.monitor_fail(
                &format!("C01/block-validation/{}", c),
                &format!("Block::validate returned true and the block was wound onto the longest chain (add_block: {})", o.add),
                serde_json::json!({"scenario": name, "gt": gt, "edit": ename, "tx_position": p, "input_position": ip, "op": o.op}),
            );
        }
    }
    true
}

fn static_name(cat: &[(&'static str, bool)], n: &str) -> Option<&'static str> {
    cat.iter().map(|c| c.0).find(|c| *c == n)
}

/// corpus/C01/*.ops and corpus/C06/*.ops: one case per line, run before everything else
///   `tx <scenario> <edit> <txpos> <inputpos>` | `blk <scenario> <gt:0|1> <edit> <txpos> <inputpos>` |
///   `c06 <scenario> <gt:0|1> <edit> <seal>`
async fn run_corpus(out: &mut Out, seed: u64, tally: &mut Tally) {
    let mut lines: Vec<String> = vec![];
    for d in ["C01", "C06"] {
        let dir = format!("{}/corpus/{}", verif_root(), d);
        let mut files: Vec<_> = std::fs::read_dir(&dir).map(|r| r.filter_map(|e| e.ok()).map(|e| e.path()).collect()).unwrap_or_default();
        files.sort();
        for f in files {
            if f.extension().map(|e| e == "ops").unwrap_or(false) {
                if let Ok(t) = std::fs::read_to_string(&f) {
                    lines.extend(t.lines().map(|l| l.trim().to_string()).filter(|l| !l.is_empty() && !l.starts_with('#')));
                }
            }
        }
    }
    let mut worlds: HashMap<&'static str, World> = HashMap::new();
    for l in lines {
        let t: Vec<&str> = l.split_whitespace().collect();
        if t.len() < 4 {
            continue;
        }
        let Some(sname) = SCENARIOS.iter().find(|s| **s == t[1]).copied() else { continue };
        if !worlds.contains_key(sname) {
            worlds.insert(sname, world(sname, seed).await);
        }
        let w = worlds.get_mut(sname).unwrap();
        let cat = catalogue(&w.scn);
        out.count("corpus-case");
        match (t[0], t.len()) {
            ("tx", 5) => {
                if let Some(en) = static_name(&cat, t[2]) {
                    tx_case(out, w, en, t[3].parse().unwrap_or(0), t[4].parse().unwrap_or(0)).await;
                }
            }
            ("blk", 6) => {
                if let Some(en) = static_name(&cat, t[3]) {
                    blk_case(out, w, tally, t[2] == "1", en, t[4].parse().unwrap_or(0), t[5].parse().unwrap_or(0)).await;
                }
            }
            ("c06", 5) => {
                let base = w.base.clone();
                run_c06(out, &mut w.scn, &base, sname, true, Some((t[2] == "1", t[3].to_string(), t[4].to_string()))).await;
            }
            _ => {}
        }
    }
}

pub const SCENARIOS: [&str; 5] = ["fresh", "reorg", "rejfork", "window", "staking"];

/// The commitment function of the code under test against the harness' own construction, on lists of 0..=12 transactions
/// (every block the suite builds is sealed by the real `Block::create`; if the two constructions part ways the scenarios
/// cannot even be built). Returns false when they differ (reported as a C06 failure with the list length as the input).
fn merkle_reference_probe(out: &mut Out) -> bool {
    let mut ok = true;
    for n in 0..=12usize {
        let mut b = Block::new();
        for i in 0..n {
            let mut t = Transaction::default();
            t.timestamp = 1_700_000_000_000 + i as u64;
            t.data = vec![i as u8, n as u8];
            t.generate_hash_for_signature();
            b.transactions.push(t);
        }
        let got = guarded(|| b.generate_merkle_root(false, false));
        let want = crate::node::ref_merkle_root(&b.transactions);
        out.count("merkle-reference-probe");
        if got != Ok(want) {
            ok = false;
            out.monitor_fail(
                &format!("C06/commitment-of-a-transaction-list-differs-from-the-reference-construction/{}-transactions", if n % 2 == 1 { "odd" } else { "even" }),
                &format!("Block::generate_merkle_root over {} transactions gives {:?}, the pairwise construction (odd node carried up unchanged) gives {}: lists of different length or order may now commit to the same root", n, got.map(|h| hex::encode(h)), hex::encode(want)),
                serde_json::json!({"transactions": n}),
            );
        }
    }
    ok
}

async fn run_async(seed: u64, tier: &str, outdir: &str) {
    let mut out = Out::new(outdir);
    if !merkle_reference_probe(&mut out) {
        // the scenarios seal their blocks with the function that just failed: nothing further can be built
        out.finish(serde_json::json!({"stopped": "commitment function differs from the reference construction"}));
        return;
    }
    let flags = calibrate().await;
    out.setup(&flags.line());
    let thorough = tier == "thorough";
    let mut extra_stats = serde_json::json!({"flags_measured": flags.line()});
    let mut tally = Tally::default();

    run_corpus(&mut out, seed, &mut tally).await;

    // thorough: also 3-input transactions (first / middle / last input) and 1-input transactions
    let variants: Vec<usize> = if thorough { vec![2, 3, 1] } else { vec![2] };
    for n_inputs in variants {
        let tier = if n_inputs == 3 { "thorough3" } else { tier };
        for (si, name) in SCENARIOS.iter().enumerate() {
            let mut w = world_n(name, seed.wrapping_add(si as u64 * 1000), n_inputs).await;
            out.count(&format!("inputs-per-tx:{}", n_inputs));
            let cat = catalogue(&w.scn);
            // ---------------- C01: transaction entry points
            for (ename, uses_ip) in &cat {
                for (p, ip) in tx_positions(tier, *uses_ip) {
                    tx_case(&mut out, &w, ename, p, ip).await;
                }
            }
            // ---------------- C01: block validation
            for gt in [true, false] {
                for (ename, uses_ip) in &cat {
                    for (p, ip) in tx_positions(tier, *uses_ip) {
                        if !thorough && *ename == "none" && p > 0 {
                            continue;
                        }
                        blk_case(&mut out, &mut w, &mut tally, gt, ename, p, ip).await;
                    }
                }
            }
            // ---------------- C06
            let base = w.base.clone();
            run_c06(&mut out, &mut w.scn, &base, name, thorough, None).await;
            run_c06_first(&mut out, &w.scn, name).await;
        }
    }
    // ---------------- C06 on a node that joined mid-chain (no block 1: validate_against_utxo = false)
    {
        let mut w = world("midchain", seed).await;
        let base = w.base.clone();
        run_c06(&mut out, &mut w.scn, &base, "midchain", thorough, None).await;
    }
    extra_stats["honest_blocks"] = serde_json::json!({"offered": tally.honest_total, "accepted": tally.honest_accepted});
    extra_stats["atr_payout_probe"] = atr_payout_probe(seed).await;
    extra_stats["replay_probe"] = replay_probe(&mut out, seed).await;
    out.finish(extra_stats);
}

// ------------------------------------------------------------------------------------------------ C06
fn hdr_ids(b: &Block, ids: &mut Ids) -> String {
    format!("{}:{}:{}", b.id, ids.blob(&b.previous_block_hash), ids.blob(&b.serialize_for_signature()))
}

fn tx_hashes(b: &Block) -> Vec<SaitoHash> {
    b.transactions.iter().map(|t| t.hash_for_signature.unwrap_or([0; 32])).collect()
}

fn list_class(orig: &[SaitoHash], edited: &[SaitoHash]) -> &'static str {
    let mut a: Vec<_> = orig.to_vec();
    let mut b: Vec<_> = edited.to_vec();
    if a == b {
        return "same";
    }
    a.sort();
    b.sort();
    if a == b {
        return "reordered";
    }
    let sa: BTreeSet<_> = a.iter().collect();
    let sb: BTreeSet<_> = b.iter().collect();
    if b.len() < a.len() && sb.is_subset(&sa) {
        return "removed";
    }
    if b.len() > a.len() && sa.is_subset(&sb) {
        return "added";
    }
    "changed"
}

#[derive(Clone, Copy, PartialEq, Debug)]
enum Seal {
    /// header left as signed
    Keep,
    /// commitment recomputed, re-signed by the creator
    Creator,
    /// commitment recomputed, re-signed by another key (creator field unchanged)
    Other,
    /// commitment recomputed, old signature kept
    RootOnly,
    /// commitment field zeroed on the wire (the receiver fills it in), old signature kept
    ZeroRoot,
}

async fn run_c06(out: &mut Out, scn: &mut Scn, base: &[Transaction], name: &str, thorough: bool, only: Option<(bool, String, String)>) {
    for gt in [true, false] {
        if let Some((g, _, _)) = &only {
            if *g != gt {
                continue;
            }
        }
        let pnode = mk_node(scn).await;
        let orig = assemble(scn, &pnode, base, base, gt, 6).await;
        let n = orig.transactions.len();
        let u0 = if gt { 1 } else { 0 }; // first user transaction
        let mut edits: Vec<(String, Block)> = vec![];
        edits.push(("none".into(), orig.clone()));
        for i in 0..n {
            for j in i + 1..n {
                let mut b = orig.clone();
                b.transactions.swap(i, j);
                edits.push((format!("swap-{}-{}", i, j), b));
            }
        }
        for i in u0..u0 + 3 {
            let mut b = orig.clone();
            b.transactions.remove(i);
            edits.push((format!("drop-{}", i), b));
            let mut b = orig.clone();
            let t = b.transactions[i].clone();
            b.transactions.insert(i, t);
            edits.push((format!("duplicate-{}", i), b));
            let mut b = orig.clone();
            b.transactions[i].data.push(7);
            edits.push((format!("alter-data-{}", i), b));
            let mut b = orig.clone();
            b.transactions[i].to[0].public_key = key(ATTACKER).0;
            edits.push((format!("alter-output-owner-{}", i), b));
            let mut b = orig.clone();
            b.transactions[i].to[0].amount += 1;
            edits.push((format!("alter-output-amount-{}", i), b));
            // an added transaction (valid on its own)
            let mut b = orig.clone();
            let l = ledger(&scn.chain);
            let extra = slips_of(&l, i as u64 - u0 as u64 + 1);
            if let Some(s) = extra.iter().find(|s| !base.iter().any(|t| t.from.iter().any(|x| x.get_utxoset_key() == s.get_utxoset_key()))) {
                let t = mk_tx(&scn.f, &[s.clone()], i as u64 - u0 as u64 + 1, ATTACKER, 90 + i as u8);
                b.transactions.insert(i, t);
                edits.push((format!("add-{}", i), b));
            }
            // the transaction swapped for a placeholder that hashes to the SAME merkle leaf (root, header, signature and block
            // hash stay what they were), with replacement count 1 and 0; and a placeholder simply added (root recomputed)
            for rc in [1u32, 0] {
                let mut b = orig.clone();
                let leaf = b.transactions[i].hash_for_signature.unwrap_or([0; 32]);
                b.transactions[i] = placeholder(leaf, rc);
                edits.push((format!("spvswap{}-{}", rc, i), b));
            }
            let mut b = orig.clone();
            b.transactions.insert(i, placeholder([0x40 + i as u8; 32], 1));
            edits.push((format!("spvadd-{}", i), b));
            // same signed content, another output of the same owner/amount/index spent (location is not signed)
            let mut b = orig.clone();
            let cur: Vec<SaitoUTXOSetKey> = base.iter().flat_map(|t| t.from.iter().map(|x| x.get_utxoset_key())).collect();
            let f0 = b.transactions[i].from[0].clone();
            if let Some(s) = l.spendable.values().find(|s| {
                s.public_key == f0.public_key && s.amount == f0.amount && s.slip_index == f0.slip_index && s.slip_type == f0.slip_type && !cur.contains(&s.get_utxoset_key())
            }) {
                b.transactions[i].from[0] = s.clone();
                edits.push((format!("repoint-input-{}", i), b));
            }
        }
        // header edits
        let mut hdr_edits: Vec<(String, Block)> = vec![];
        {
            let mut b = orig.clone();
            b.merkle_root[3] ^= 1;
            hdr_edits.push(("hdr-root".into(), b));
            let mut b = orig.clone();
            b.creator = key(ATTACKER).0;
            hdr_edits.push(("hdr-creator".into(), b));
            let mut b = orig.clone();
            b.timestamp += 1;
            hdr_edits.push(("hdr-timestamp".into(), b));
            let mut b = orig.clone();
            b.id += 1;
            hdr_edits.push(("hdr-id".into(), b));
            let mut b = orig.clone();
            b.previous_block_hash = scn.chain[0].hash;
            hdr_edits.push(("hdr-prev".into(), b));
        }
        let seals: Vec<Seal> = vec![Seal::Keep, Seal::Creator, Seal::Other, Seal::RootOnly, Seal::ZeroRoot];
        let mut cases: Vec<(String, Seal, Block)> = vec![];
        for (en, b) in &edits {
            for s in &seals {
                if !thorough && en.starts_with("swap-") && *s != Seal::Keep && !en.ends_with("-1-2") && !en.ends_with(&format!("-0-{}", n - 1)) {
                    continue;
                }
                let mut c = b.clone();
                match s {
                    Seal::Keep => {}
                    Seal::Creator => reseal(&mut c, Some(6), true),
                    Seal::Other => reseal(&mut c, Some(ATTACKER), true),
                    Seal::RootOnly => reseal(&mut c, None, true),
                    Seal::ZeroRoot => c.merkle_root = [0; 32],
                }
                cases.push((en.clone(), *s, c));
            }
        }
        for (en, b) in &hdr_edits {
            // without a valid signature in every variant except: root re-signed by the creator, creator swapped and
            // re-signed by the new creator
            cases.push((en.clone(), Seal::Keep, b.clone()));
            let mut c = b.clone();
            reseal(&mut c, Some(ATTACKER), false);
            cases.push((format!("{}-resigned-by-other", en), Seal::Keep, c));
            if en == "hdr-root" {
                let mut c = b.clone();
                reseal(&mut c, Some(6), false);
                cases.push((format!("{}-resigned-by-creator", en), Seal::Keep, c));
            }
        }
        let pre = ledger(&scn.chain);
        let orig_w = {
            let mut w = wire(&orig).unwrap();
            w.generate().unwrap();
            w
        };
        let orig_hashes = tx_hashes(&orig_w);
        let orig_keys: Vec<Vec<SaitoUTXOSetKey>> = orig_w.transactions.iter().map(|t| t.from.iter().map(|s| s.get_utxoset_key()).collect()).collect();
        for (en, seal, b) in cases {
            if let Some((_, oe, os)) = &only {
                if *oe != en || *os != format!("{:?}", seal) {
                    continue;
                }
            }
            let bytes = b.serialize_for_net(BlockType::Full);
            let Ok(cand) = Block::deserialize_from_net(&bytes) else {
                out.count("c06:not-decodable");
                continue;
            };
            let mut ids = Ids::default();
            let mut g = cand.clone();
            let gen_ok = g.generate().is_ok();
            // wire path: advertised = the original's id and hash
            let node = mk_node(scn).await;
            let fwd = run_verify_block(&node, &bytes, orig_w.hash, orig_w.id).await;
            let same = gen_ok && g.hash == orig_w.hash;
            let oh = hdr_ids(&orig_w, &mut ids);
            let eh = hdr_ids(&g, &mut ids);
            out.case(
                &format!("wire e={}/gt{}/{}/{:?} gen={} oh={} eh={}", name, gt as u8, en, seal, if gen_ok { "ok" } else { "err" }, oh, eh),
                &format!("same={} fwd={}", same as u8, fwd),
            );
            // add_block path
            let signers: Vec<u64> = g.transactions.iter().filter(|t| t.transaction_type != TransactionType::GoldenTicket && !(t.transaction_type == TransactionType::Fee && t.from.is_empty() && t.to.is_empty())).map(|t| if sig_ok(t) { owner_of(&t.from[0].public_key) } else { 99 }).collect();
            if en.starts_with("hdr-prev") {
                // a block on another parent is a side-chain block (never validated on arrival): wire case only
                continue;
            }
            let o = run_block(scn, &cand, &signers, &format!("e={}/gt{}/{}/{:?} ", name, gt as u8, en, seal), &mut ids).await;
            out.case(&o.op, &o.ans);
            out.count(&format!("c06:{}:gt{}:{:?}:{}", name, gt as u8, seal, en.split('-').next().unwrap_or("")));
            out.count(&format!("c06-result:{}", o.add));
            let accepted = o.val == Some(true) && (o.add == "added_lc" || o.add == "panic-supply");
            if accepted {
                let eh = tx_hashes(&g);
                let committed = g.merkle_root == crate::node::ref_merkle_root(&g.transactions);
                let cls = list_class(&orig_hashes, &eh);
                if !committed {
                    out.monitor_fail(
                        &format!("C06/accepted-block-carries-tx-list-not-matching-its-signed-root/{}", if same { cls } else { "header-root-altered" }),
                        &format!("Block::validate accepted a block whose transactions do not hash to the merkle root in its signed header (same hash as the original: {}; add_block: {})", same, o.add),
                        serde_json::json!({"scenario": name, "gt": gt, "edit": en, "seal": format!("{:?}", seal), "op": o.op}),
                    );
                }
                let signed_bytes = |bl: &Block| -> Vec<(u8, Vec<u8>)> { bl.transactions.iter().map(|t| (t.transaction_type as u8, t.serialize_for_signature())).collect() };
                let content_differs = signed_bytes(&g) != signed_bytes(&orig_w);
                if committed && same && (cls != "same" || content_differs) {
                    // the header commits to these leaves, yet the list is not the signed one: a leaf that is not a hash of content
                    let cls = if cls == "same" { "same-leaves-other-content" } else { cls };
                    out.monitor_fail(
                        &format!("C06/same-hash-different-transaction-list-accepted/{}", cls),
                        &format!("Block::validate accepted, under the hash of the signed block, a block whose transaction list differs from the signed one although it hashes to the same merkle root (add_block: {})", o.add),
                        serde_json::json!({"scenario": name, "gt": gt, "edit": en, "seal": format!("{:?}", seal), "op": o.op}),
                    );
                }
                if !verify_signature(&g.pre_hash, &g.signature, &g.creator) {
                    out.monitor_fail(
                        &format!("C06/accepted-block-not-signed-by-its-stated-creator/{}", if name == "midchain" { "node-without-block-1" } else { "node-with-full-chain" }),
                        &format!("Block::validate accepted a block whose header signature does not verify under its stated creator (add_block: {})", o.add),
                        serde_json::json!({"scenario": name, "gt": gt, "edit": en, "seal": format!("{:?}", seal), "op": o.op}),
                    );
                }
                if same && cls == "same" && !content_differs {
                    let ek: Vec<Vec<SaitoUTXOSetKey>> = g.transactions.iter().map(|t| t.from.iter().map(|s| s.get_utxoset_key()).collect()).collect();
                    if ek != orig_keys {
                        out.monitor_fail(
                            "C06/same-hash-same-tx-hashes-different-inputs-spent",
                            "two blocks with the same hash and the same transaction hashes spend different outputs and both pass Block::validate (slip block_id / tx_ordinal are not in the signed bytes)",
                            serde_json::json!({"scenario": name, "gt": gt, "edit": en, "op": o.op}),
                        );
                    }
                }
                // C01 monitor on these blocks as well
                let mut seen = HashSet::new();
                let mut classes = vec![];
                for t in &g.transactions {
                    let legit = legit_system_tx(t, &g, scn);
                    classes.extend(c01_classes(t, &pre, &mut seen, legit, g.id.saturating_sub(scn.gp)));
                }
                classes.sort();
                classes.dedup();
                for c in classes {
                    out.monitor_fail(
                        &format!("C01/block-validation/{}", c),
                        &format!("Block::validate returned true and the block was wound (add_block: {})", o.add),
                        serde_json::json!({"scenario": name, "gt": gt, "edit": en, "seal": format!("{:?}", seal), "op": o.op}),
                    );
                }
            }
        }
    }
}

/// C06 on the FIRST block of a chain: the scenario's block 1 (issuance transactions), its transaction list edited, offered
/// to a node that holds no block yet. The rule "a block needs at least one transaction" exempts block 1, so the
/// commitment check is all that binds its transaction list.
async fn run_c06_first(out: &mut Out, scn: &Scn, name: &str) {
    let orig = scn.chain[0].clone();
    if orig.id != 1 || orig.transactions.len() < 2 {
        return;
    }
    let n = orig.transactions.len();
    let mut edits: Vec<(String, Block)> = vec![("none".into(), orig.clone())];
    let mut b = orig.clone();
    b.transactions.clear();
    edits.push(("drop-all".into(), b));
    for i in [0, n - 1] {
        let mut b = orig.clone();
        b.transactions.remove(i);
        edits.push((format!("drop-{}", if i == 0 { "first" } else { "last" }), b));
    }
    let mut b = orig.clone();
    b.transactions.truncate(1);
    edits.push(("keep-first-only".into(), b));
    let mut b = orig.clone();
    b.transactions.swap(0, n - 1);
    edits.push(("swap-first-last".into(), b));
    let mut b = orig.clone();
    let t = b.transactions[0].clone();
    b.transactions.push(t);
    edits.push(("duplicate-first".into(), b));
    let orig_w = {
        let mut w = wire(&orig).unwrap();
        w.generate().unwrap();
        w
    };
    let orig_hashes = tx_hashes(&orig_w);
    let creator = owner_of(&orig.creator);
    for (en, b) in edits {
        for seal in [Seal::Keep, Seal::ZeroRoot, Seal::Creator, Seal::Other] {
            let mut c = b.clone();
            match seal {
                Seal::Keep => {}
                Seal::ZeroRoot => c.merkle_root = [0; 32],
                Seal::Creator => reseal(&mut c, Some(creator), true),
                Seal::Other => reseal(&mut c, Some(ATTACKER), true),
                Seal::RootOnly => reseal(&mut c, None, true),
            }
            let Some(cand) = wire(&c) else {
                out.count("c06:not-decodable");
                continue;
            };
            let mut g = cand.clone();
            let gen_ok = g.generate().is_ok();
            let mut ids = Ids::default();
            let signers: Vec<u64> = g.transactions.iter().map(|t| if sig_ok(t) { owner_of(&t.from[0].public_key) } else { 99 }).collect();
            let o = run_block_at(scn, &cand, &signers, &format!("e={}/first/{}/{:?} ", name, en, seal), &mut ids, true).await;
            out.case(&o.op, &o.ans);
            out.count(&format!("c06:{}:first:{:?}:{}", name, seal, en));
            out.count(&format!("c06-result:{}", o.add));
            let accepted = o.val == Some(true) && (o.add == "added_lc" || o.add == "panic-supply");
            if accepted && gen_ok {
                let same = g.hash == orig_w.hash;
                let cls = list_class(&orig_hashes, &tx_hashes(&g));
                if g.merkle_root != crate::node::ref_merkle_root(&g.transactions) {
                    out.monitor_fail(
                        &format!("C06/accepted-block-carries-tx-list-not-matching-its-signed-root/first-block/{}", if same { cls } else { "header-root-altered" }),
                        &format!("an empty node accepted, as the first block of its chain, a block whose transactions do not hash to the merkle root in its signed header (same hash as the original: {}; add_block: {})", same, o.add),
                        serde_json::json!({"scenario": name, "edit": en, "seal": format!("{:?}", seal), "op": o.op}),
                    );
                }
                if !verify_signature(&g.pre_hash, &g.signature, &g.creator) {
                    out.monitor_fail(
                        "C06/accepted-block-not-signed-by-its-stated-creator/first-block",
                        &format!("an empty node accepted a first block whose header signature does not verify under its stated creator (add_block: {})", o.add),
                        serde_json::json!({"scenario": name, "edit": en, "seal": format!("{:?}", seal), "op": o.op}),
                    );
                }
            }
        }
    }
}

/// Probe outside the model (its header oracle is not known to the harness): the honest producer's block in a state
/// where the rebroadcast payout multiplier is 2 (funded treasury). Reports whether the node accepts it and what
/// `Transaction::validate` says about its rebroadcast transactions.
pub async fn atr_payout_probe(seed: u64) -> serde_json::Value {
    serde_json::json!({
        "with_rebroadcast_fee": atr_payout_probe_one("treasury", seed).await,
        "without_rebroadcast_fee": atr_payout_probe_one("treasury0", seed).await,
    })
}
async fn atr_payout_probe_one(name: &'static str, seed: u64) -> serde_json::Value {
    let mut scn = build_scn(name, seed.wrapping_add(5000)).await;
    let base = base_txs(&scn);
    let node = mk_node(&scn).await;
    let cand = wire(&assemble(&mut scn, &node, &base, &base, true, 6).await).unwrap();
    let mut g = cand.clone();
    let _ = g.generate();
    let (verdicts, rebhash_ok, val) = {
        let bc = node.bc.read().await;
        let cv = g.generate_consensus_values(&bc, &node.storage, &node.cfg).await;
        let v: Vec<u8> = g.transactions.iter().filter(|t| t.transaction_type == TransactionType::ATR).map(|t| t.validate(&bc.utxoset, &bc, true) as u8).collect();
        let val = guarded_async(g.validate(&bc, &bc.utxoset, &node.cfg, &node.storage, true)).await.unwrap_or(false);
        (v, cv.rebroadcast_hash == g.rebroadcast_hash, val)
    };
    let mut n2 = mk_node(&scn).await;
    let add = match n2.add(cand).await {
        Ok(c) => c.to_string(),
        Err(m) => if m.contains("invalid total supply") { "panic-supply".to_string() } else { "panic-other".to_string() },
    };
    let mult = {
        let t = scn.tip();
        let staked = scn.gp * t.avg_nolan_rebroadcast_per_block;
        1 + if staked > 0 { t.treasury / staked } else { 0 }
    };
    serde_json::json!({
        "state": format!("genesis period 5, tip {}, treasury {}, avg_nolan_rebroadcast_per_block {}, avg_fee_per_byte {}: rebroadcast payout multiplier {}",
                         scn.tip().id, scn.tip().treasury, scn.tip().avg_nolan_rebroadcast_per_block, scn.tip().avg_fee_per_byte, mult),
        "rebroadcast_inputs_in_utxo_set": g.transactions.iter().filter(|t| t.transaction_type == TransactionType::ATR).map(|t| t.from.iter().all(|s| s.amount == 0 || ledger(&scn.chain).spendable.contains_key(&s.get_utxoset_key())) as u8).collect::<Vec<u8>>(),
        "honest_block_validate": val, "honest_block_add": add,
        "rebroadcast_hash_matches_expected": rebhash_ok,
        "rebroadcast_tx_verdicts": verdicts,
    })
}

/// Replay probe (monitor only): a signed one-input transaction is mined; the SAME signature is then offered again with
/// the input re-pointed to another unspent output of the sender (same amount, slip index, type). The input location
/// is not in the signed bytes, so nothing the sender did authorises the second spend.
pub async fn replay_probe(out: &mut Out, seed: u64) -> serde_json::Value {
    let mut w = world("fresh", seed.wrapping_add(9000)).await;
    let l = ledger(&w.scn.chain);
    let s2: Vec<Slip> = slips_of(&l, 2).into_iter().filter(|s| s.amount == 1000 && s.slip_index == 0).collect();
    if s2.len() < 2 {
        return serde_json::json!({"ran": false});
    }
    let t = mk_tx(&w.scn.f, &s2[0..1], 2, 3, 201);
    let tip = w.scn.tip().clone();
    let b4 = produce(&w.node, &mut w.scn.f, &tip, tip.timestamp + DT, 6, &[t.clone()], true).await;
    let r4 = w.node.add(wire(&b4).unwrap()).await.unwrap_or("panic");
    // the replay: same signature, other output
    let mut t2 = t.clone();
    t2.from[0] = s2[1].clone();
    t2.generate_hash_for_signature();
    let same_sig = t2.signature == t.signature;
    let sig_still_verifies = sig_ok(&t2);
    let o = run_tx(&w.node, &t2).await;
    let b5 = produce(&w.node, &mut w.scn.f, &b4, b4.timestamp + DT, 6, &[t2.clone()], true).await;
    let r5 = w.node.add(wire(&b5).unwrap()).await.unwrap_or("panic");
    let victim_spent = !w.node.bc.read().await.utxoset.contains_key(&s2[1].get_utxoset_key());
    if r4 == "added_lc" && (o.pool == "acc" || r5 == "added_lc") {
        out.monitor_fail(
            "C01/replayed-signature-spends-another-output-of-the-sender",
            &format!("a mined transaction's signature was accepted again on another output of the sender (pool={} verify_tx={} add_block={}, output spent: {})", o.pool, o.vt, r5, victim_spent),
            serde_json::json!({"scenario": "fresh", "first": "tx key2 [1000 @ genesis ordinal a] -> key3, mined in block 4", "replay": "same signature, input re-pointed to [1000 @ genesis ordinal b], offered to the pool and mined in block 5"}),
        );
    }
    serde_json::json!({"ran": true, "first_block": r4, "same_signature": same_sig, "signature_verifies_on_replay": sig_still_verifies,
        "pool": o.pool, "verify_tx": o.vt, "replay_block": r5, "second_output_spent": victim_spent})
}

/// `harness txv-flags x x x`: print the measured flag line
pub fn print_flags() {
    let rt = rt();
    println!("{}", rt.block_on(calibrate()).line());
}
