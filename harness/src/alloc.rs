//! Counting allocator: peak live bytes above a baseline, for the C10 allocation bound.
use std::alloc::{GlobalAlloc, Layout, System};
use std::sync::atomic::{AtomicUsize, Ordering};

pub struct Counting;
static LIVE: AtomicUsize = AtomicUsize::new(0);
static PEAK: AtomicUsize = AtomicUsize::new(0);

unsafe impl GlobalAlloc for Counting {
    unsafe fn alloc(&self, l: Layout) -> *mut u8 {
        let p = System.alloc(l);
        if !p.is_null() {
            let live = LIVE.fetch_add(l.size(), Ordering::Relaxed) + l.size();
            PEAK.fetch_max(live, Ordering::Relaxed);
        }
        p
    }
    unsafe fn dealloc(&self, p: *mut u8, l: Layout) {
        LIVE.fetch_sub(l.size(), Ordering::Relaxed);
        System.dealloc(p, l)
    }
    unsafe fn realloc(&self, p: *mut u8, l: Layout, new: usize) -> *mut u8 {
        let q = System.realloc(p, l, new);
        if !q.is_null() {
            if new >= l.size() {
                let live = LIVE.fetch_add(new - l.size(), Ordering::Relaxed) + (new - l.size());
                PEAK.fetch_max(live, Ordering::Relaxed);
            } else {
                LIVE.fetch_sub(l.size() - new, Ordering::Relaxed);
            }
        }
        q
    }
}

/// run `f` and return (result, peak bytes allocated above the level at entry)
pub fn measure<T>(f: impl FnOnce() -> T) -> (T, usize) {
    let base = LIVE.load(Ordering::Relaxed);
    PEAK.store(base, Ordering::Relaxed);
    let r = f();
    let peak = PEAK.load(Ordering::Relaxed);
    (r, peak.saturating_sub(base))
}
