//! C19 correspondence: the real `Wallet` (add_slip / delete_slip / on_chain_reorganization / delete_block /
//! remove_old_slips / generate_slips / pending) and `Transaction::create(_with_multiple_payments)` against the Lean
//! wallet model, on two layers:
//!  * wallet layer — a bare `Wallet` driven by scripts of synthetic blocks (every slip type, NFT triples, zero and
//!    huge amounts, arbitrary wind / unwind / delete order, expiry, direct slip edits);
//!  * node layer — a real `Node` whose wallet key receives payments and spends: real blocks built by the real
//!    `Block::create` on the node's own chain (golden tickets, fee and ATR transactions, purge at 2·genesis_period),
//!    forks that overtake and are overtaken again, window expiry with small genesis periods.
//! Direct monitors (independent of the model) after every operation; see `monitor_*`.
use crate::common::*;
use crate::node::*;
use saito_core::core::consensus::block::Block;
use saito_core::core::consensus::slip::{Slip, SlipType};
use saito_core::core::consensus::transaction::{Transaction, TransactionType};
use saito_core::core::consensus::wallet::Wallet;
use saito_core::core::defs::{Currency, SaitoHash, SaitoPublicKey, SaitoUTXOSetKey};
use saito_core::core::util::crypto::hash;
use num_traits::{FromPrimitive, ToPrimitive};
use std::collections::{BTreeSet, HashMap};
use std::sync::OnceLock;

pub const HEARTBEAT: u64 = 100;
pub const ME: u64 = 9;
const NKEYS: u64 = 12;

// ------------------------------------------------------------------------------------------------ projection
fn pks() -> &'static Vec<SaitoPublicKey> {
    static K: OnceLock<Vec<SaitoPublicKey>> = OnceLock::new();
    K.get_or_init(|| (0..NKEYS).map(|i| key(i).0).collect())
}
/// owner number of the model: 0 = the wallet's key, i+1 = harness key i, 99 = anything else
fn owner(pk: &SaitoPublicKey) -> u64 {
    if *pk == pks()[ME as usize] {
        return 0;
    }
    match pks().iter().position(|k| k == pk) {
        Some(i) => i as u64 + 1,
        None => 99,
    }
}
fn pk_of(o: u64) -> SaitoPublicKey {
    if o == 0 {
        pks()[ME as usize]
    } else {
        pks()[((o - 1) % NKEYS) as usize]
    }
}
type KT = (u64, u64, u64, u64, u64, u64);
fn kt(s: &Slip) -> KT {
    (owner(&s.public_key), s.block_id, s.tx_ordinal, s.slip_index as u64, s.amount, s.slip_type.to_u8().unwrap() as u64)
}
fn kt_key(k: &SaitoUTXOSetKey) -> KT {
    match Slip::parse_slip_from_utxokey(k) {
        Ok(s) => kt(&s),
        Err(_) => (98, 0, 0, 0, 0, 0),
    }
}
fn ks(t: &KT) -> String {
    format!("{}.{}.{}.{}.{}.{}", t.0, t.1, t.2, t.3, t.4, t.5)
}
fn slip_str(s: &Slip) -> String {
    ks(&kt(s))
}
fn slips_str(v: &[Slip]) -> String {
    if v.is_empty() {
        "-".into()
    } else {
        v.iter().map(slip_str).collect::<Vec<_>>().join(",")
    }
}
fn mk_slip(o: u64, bid: u64, tord: u64, idx: u64, amount: u64, typ: u64) -> Slip {
    let mut s = Slip::default();
    s.public_key = pk_of(o);
    s.block_id = bid;
    s.tx_ordinal = tord;
    s.slip_index = idx as u8;
    s.amount = amount;
    s.slip_type = SlipType::from_u64(typ).unwrap_or(SlipType::Normal);
    s.generate_utxoset_key();
    s
}
fn parse_slip(tok: &str) -> Option<Slip> {
    let p: Vec<u64> = tok.split('.').filter_map(|x| x.parse().ok()).collect();
    if p.len() != 6 {
        return None;
    }
    Some(mk_slip(p[0], p[1], p[2], p[3], p[4], p[5]))
}
fn parse_slips(tok: &str) -> Vec<Slip> {
    if tok == "-" {
        vec![]
    } else {
        tok.split(',').filter_map(parse_slip).collect()
    }
}
fn tx_hash(id: u64) -> SaitoHash {
    hash(&[b"c19-tx-".as_slice(), &id.to_be_bytes()].concat())
}
/// `id/froms/tos;…` → synthetic transactions (hash_for_signature = tx_hash(id))
fn parse_txs(tok: &str) -> Vec<(u64, Transaction)> {
    if tok == "-" {
        return vec![];
    }
    tok.split(';')
        .filter_map(|t| {
            let p: Vec<&str> = t.split('/').collect();
            if p.len() != 3 {
                return None;
            }
            let id: u64 = p[0].parse().ok()?;
            let mut tx = Transaction::default();
            tx.from = parse_slips(p[1]);
            tx.to = parse_slips(p[2]);
            tx.hash_for_signature = Some(tx_hash(id));
            Some((id, tx))
        })
        .collect()
}
fn txs_str(v: &[(u64, &Transaction)]) -> String {
    if v.is_empty() {
        return "-".into();
    }
    v.iter().map(|(id, t)| format!("{}/{}/{}", id, slips_str(&t.from), slips_str(&t.to))).collect::<Vec<_>>().join(";")
}

/// transaction ids of the model: small numbers for `hash_for_signature`
#[derive(Default)]
struct TxIds {
    m: HashMap<SaitoHash, u64>,
}
impl TxIds {
    fn id(&mut self, h: &SaitoHash) -> u64 {
        let n = self.m.len() as u64 + 1000;
        *self.m.entry(*h).or_insert(n)
    }
    fn bind(&mut self, h: SaitoHash, id: u64) {
        self.m.insert(h, id);
    }
}

fn dump(w: &Wallet, ids: &mut TxIds) -> String {
    let mut sl: Vec<(KT, String)> = w
        .slips
        .iter()
        .map(|(k, s)| {
            let t = kt_key(k);
            (
                t,
                format!(
                    "{}:{}:{}:{}:{}:{}:{}:{}",
                    ks(&t),
                    s.amount,
                    s.block_id,
                    s.tx_ordinal,
                    s.slip_index,
                    s.lc as u8,
                    s.spent as u8,
                    s.slip_type.to_u8().unwrap()
                ),
            )
        })
        .collect();
    sl.sort();
    let set = |h: &ahash::AHashSet<SaitoUTXOSetKey>| {
        let mut v: Vec<KT> = h.iter().map(kt_key).collect();
        v.sort();
        v.iter().map(ks).collect::<Vec<_>>().join(";")
    };
    let nf: Vec<String> = w
        .nfts
        .iter()
        .map(|n| format!("{}|{}|{}", ks(&kt_key(&n.slip2)), ks(&kt_key(&n.slip1)), ks(&kt_key(&n.slip3))))
        .collect();
    let mut pd: Vec<u64> = w.pending_txs.keys().map(|h| ids.id(h)).collect();
    pd.sort();
    format!(
        "bal={} slips=[{}] unspent=[{}] staking=[{}] nfts=[{}] pend=[{}]",
        w.get_available_balance(),
        sl.iter().map(|x| x.1.clone()).collect::<Vec<_>>().join(";"),
        set(&w.unspent_slips),
        set(&w.staking_slips),
        nf.join(";"),
        pd.iter().map(|x| x.to_string()).collect::<Vec<_>>().join(",")
    )
}

fn order_of(w: &Wallet) -> String {
    let v: Vec<String> = w.unspent_slips.iter().map(|k| ks(&kt_key(k))).collect();
    if v.is_empty() {
        "-".into()
    } else {
        v.join(",")
    }
}
fn nums(v: &[u64]) -> String {
    if v.is_empty() {
        "-".into()
    } else {
        v.iter().map(|x| x.to_string()).collect::<Vec<_>>().join(",")
    }
}

// ------------------------------------------------------------------------------------------------ direct monitors
/// `Out::monitor_fail`, but the first occurrence of every key keeps its replay even when the shared list is full
fn mfail(out: &mut Out, key: &str, what: &str, replay: serde_json::Value) {
    let first = !out.hist.contains_key(&format!("monitor_fail:{}", key));
    let full = out.monitor_failures.len() >= 200;
    out.monitor_fail(key, what, replay.clone());
    if first && full {
        out.monitor_failures.push(serde_json::json!({"key": key, "what": what, "replay": replay}));
    }
}
/// available balance = Σ amounts of the slips listed as unspent (and every listed key is a known slip)
fn monitor_balance(w: &Wallet) -> Option<String> {
    let mut sum: u128 = 0;
    for k in w.unspent_slips.iter() {
        match w.slips.get(k) {
            Some(s) => sum += s.amount as u128,
            None => return Some(format!("unspent key {} is not in slips", ks(&kt_key(k)))),
        }
    }
    if sum != w.get_available_balance() as u128 {
        return Some(format!("available_balance {} but unspent slips sum to {}", w.get_available_balance(), sum));
    }
    for k in w.staking_slips.iter() {
        if w.unspent_slips.contains(k) {
            return Some(format!("key {} is both staking and unspent", ks(&kt_key(k))));
        }
    }
    None
}

/// wallet holds an unspent slip that `generate_slips` refuses because it is within one block of the window edge
fn holds_edge_slip(w: &Wallet, latest: u64, gp: u64) -> bool {
    gp >= 1 && w.unspent_slips.iter().any(|k| w.slips.get(k).map(|s| s.block_id <= latest.saturating_sub(gp - 1)).unwrap_or(false))
}

struct TxCheck {
    distinct: bool,
    tin: u128,
    tout: u128,
    inputs_known: bool,
}
fn check_built(tx: &Transaction, unspent_before: &BTreeSet<SaitoUTXOSetKey>) -> TxCheck {
    let keys: Vec<SaitoUTXOSetKey> = tx.from.iter().filter(|s| s.amount > 0).map(|s| s.get_utxoset_key()).collect();
    let set: BTreeSet<SaitoUTXOSetKey> = keys.iter().cloned().collect();
    TxCheck {
        distinct: set.len() == keys.len(),
        tin: tx.from.iter().map(|s| s.amount as u128).sum(),
        tout: tx.to.iter().map(|s| s.amount as u128).sum(),
        inputs_known: keys.iter().all(|k| unspent_before.contains(k)),
    }
}

// ------------------------------------------------------------------------------------------------ wallet layer
pub struct WExec {
    pub w: Wallet,
    ids: TxIds,
    next_tx: u64,
    last_tx: Option<(u64, Transaction)>,
    unwound_own_spend: bool,
    /// a synthetic block / direct add carried one of my outputs whose coordinates are not its position in that block
    /// (cannot happen for a block that went through Block::generate), or a direct add_slip of somebody else's slip
    malformed: bool,
    pub dead: bool,
    script: Vec<String>,
}

impl WExec {
    pub fn new() -> WExec {
        let (pk, sk) = key(ME);
        WExec { w: Wallet::new(sk, pk), ids: TxIds::default(), next_tx: 1, last_tx: None, unwound_own_spend: false, malformed: false, dead: false, script: vec![] }
    }
    fn block_of(&mut self, bid: u64, txs: &[(u64, Transaction)]) -> Block {
        let mut b = Block::new();
        b.id = bid;
        for (id, t) in txs {
            self.ids.bind(t.hash_for_signature.unwrap(), *id);
            b.transactions.push(t.clone());
        }
        b
    }
    /// run one script line on the real wallet; emits the op (with the observed hash-set order) and the answer
    pub fn exec(&mut self, line: &str, out: &mut Out) {
        let p: Vec<&str> = line.split(' ').collect();
        self.script.push(line.to_string());
        let mut op = line.to_string();
        let ans: String;
        match p[0] {
            "reset" => {
                *self = WExec::new();
                out.setup("reset");
                return;
            }
            "wind" | "unwind" | "minelast" => {
                let bid: u64 = p[1].parse().unwrap();
                let gp: u64 = p[2].parse().unwrap();
                let (lc, txs) = if p[0] == "minelast" {
                    // a block holding the transaction built last: outputs get the coordinates of their position
                    let (id, tx) = match &self.last_tx {
                        Some(x) => x.clone(),
                        None => return,
                    };
                    let mut t = tx.clone();
                    for (i, s) in t.to.iter_mut().enumerate() {
                        s.block_id = bid;
                        s.tx_ordinal = 0;
                        s.slip_index = i as u8;
                        s.generate_utxoset_key();
                    }
                    for s in t.from.iter_mut() {
                        s.generate_utxoset_key();
                    }
                    (true, vec![(id, t)])
                } else {
                    (p[0] == "wind", parse_txs(p[3]))
                };
                let refs: Vec<(u64, &Transaction)> = txs.iter().map(|(i, t)| (*i, t)).collect();
                op = format!("{} {} {} {}", if lc { "wind" } else { "unwind" }, bid, gp, txs_str(&refs));
                if !lc && txs.iter().any(|(_, t)| t.from.iter().any(|s| s.amount > 0 && owner(&s.public_key) == 0)) {
                    self.unwound_own_spend = true;
                }
                for (ti, (_, t)) in txs.iter().enumerate() {
                    for (i, o) in t.to.iter().enumerate() {
                        if owner(&o.public_key) == 0 && (o.block_id, o.tx_ordinal, o.slip_index as usize) != (bid, ti as u64, i) {
                            self.malformed = true;
                        }
                    }
                }
                let b = self.block_of(bid, &txs);
                let w = &mut self.w;
                ans = match guarded(|| w.on_chain_reorganization(&b, lc, gp)) {
                    Ok(r) => format!("ret={} {}", r as u8, dump(&self.w, &mut self.ids)),
                    Err(_) => "panic".into(),
                };
                out.count(if lc { "wallet:wind" } else { "wallet:unwind" });
            }
            "delblock" => {
                let bid: u64 = p[1].parse().unwrap();
                let txs = parse_txs(p[2]);
                let b = self.block_of(bid, &txs);
                let w = &mut self.w;
                ans = match guarded(|| w.delete_block(&b)) {
                    Ok(r) => format!("ret={} {}", r as u8, dump(&self.w, &mut self.ids)),
                    Err(_) => "panic".into(),
                };
                out.count("wallet:delete_block");
            }
            "expire" => {
                let bid: u64 = p[1].parse().unwrap();
                let w = &mut self.w;
                ans = match guarded(|| w.remove_old_slips(bid)) {
                    Ok(_) => dump(&self.w, &mut self.ids),
                    Err(_) => "panic".into(),
                };
                out.count("wallet:remove_old_slips");
            }
            "addslip" => {
                let (bid, tix): (u64, u64) = (p[1].parse().unwrap(), p[2].parse().unwrap());
                let s = parse_slip(p[3]).unwrap();
                if (s.block_id, s.tx_ordinal) != (bid, tix) || owner(&s.public_key) != 0 {
                    self.malformed = true;
                }
                let w = &mut self.w;
                ans = match guarded(|| w.add_slip(bid, tix, &s, true, None)) {
                    Ok(_) => dump(&self.w, &mut self.ids),
                    Err(_) => "panic".into(),
                };
                out.count("wallet:add_slip");
            }
            "delslip" => {
                let s = parse_slip(p[1]).unwrap();
                let w = &mut self.w;
                ans = match guarded(|| w.delete_slip(&s, None)) {
                    Ok(_) => dump(&self.w, &mut self.ids),
                    Err(_) => "panic".into(),
                };
                out.count("wallet:delete_slip");
            }
            "pend" | "pendlast" => {
                let (id, tx) = if p[0] == "pendlast" {
                    match &self.last_tx {
                        Some(x) => x.clone(),
                        None => return,
                    }
                } else {
                    let id: u64 = p[1].parse().unwrap();
                    let mut t = Transaction::default();
                    t.from.push(mk_slip(0, 0, 0, 0, 0, 0));
                    t.hash_for_signature = Some(tx_hash(id));
                    (id, t)
                };
                self.ids.bind(tx.hash_for_signature.unwrap(), id);
                op = format!("pend {}", id);
                let w = &mut self.w;
                ans = match guarded(|| w.add_to_pending(tx)) {
                    Ok(_) => dump(&self.w, &mut self.ids),
                    Err(_) => "panic".into(),
                };
                out.count("wallet:add_to_pending");
            }
            "gen" => {
                let (req, latest, gp): (u64, u64, u64) = (p[1].parse().unwrap(), p[2].parse().unwrap(), p[3].parse().unwrap());
                let order = order_of(&self.w);
                op = format!("gen {} {} {} {}", req, latest, gp, order);
                let w = &mut self.w;
                ans = match guarded(|| w.generate_slips(req, None, latest, gp)) {
                    Ok((i, o)) => format!(
                        "in=[{}] out=[{}] {}",
                        i.iter().map(slip_str).collect::<Vec<_>>().join(";"),
                        o.iter().map(slip_str).collect::<Vec<_>>().join(";"),
                        dump(&self.w, &mut self.ids)
                    ),
                    Err(_) => "panic".into(),
                };
                out.count("wallet:generate_slips");
            }
            "create" => {
                // create <latest> <gp> <fee> ? <keys> <amounts>
                let (latest, gp, fee): (u64, u64, u64) = (p[1].parse().unwrap(), p[2].parse().unwrap(), p[3].parse().unwrap());
                let keys: Vec<u64> = if p[5] == "-" { vec![] } else { p[5].split(',').map(|x| x.parse().unwrap()).collect() };
                let amts: Vec<u64> = if p[6] == "-" { vec![] } else { p[6].split(',').map(|x| x.parse().unwrap()).collect() };
                let order = order_of(&self.w);
                op = format!("create {} {} {} {} {} {}", latest, gp, fee, order, nums(&keys), nums(&amts));
                let before: BTreeSet<SaitoUTXOSetKey> = self.w.unspent_slips.iter().cloned().collect();
                let edge = holds_edge_slip(&self.w, latest, gp);
                let w = &mut self.w;
                let pkeys: Vec<SaitoPublicKey> = keys.iter().map(|k| pk_of(*k)).collect();
                let r = guarded(|| Transaction::create_with_multiple_payments(w, pkeys, amts.clone(), fee, None, latest, gp));
                ans = match r {
                    Ok(Ok(mut tx)) => {
                        let c = check_built(&tx, &before);
                        let replay = serde_json::json!({"layer": "wallet", "script": self.script});
                        if !c.distinct && self.malformed {
                            out.count("create:duplicate-input-after-malformed-synthetic-block(not-judged)");
                        } else if !c.distinct {
                            let feat = if self.unwound_own_spend { "after-unwind-of-own-spend" } else { "no-unwind-of-own-spend" };
                            mfail(out, &format!("C19/built-tx-invalid/duplicate-input/{}", feat), "the built transaction lists an input twice", replay.clone());
                        }
                        if c.tout > c.tin {
                            let feat = if edge { "holding-output-near-window-edge" } else { "no-output-near-window-edge" };
                            mfail(out, 
                                &format!("C19/built-tx-invalid/spends-more-than-inputs/{}", feat),
                                &format!("outputs {} > inputs {}", c.tout, c.tin),
                                replay.clone(),
                            );
                        }
                        if !c.inputs_known && self.malformed {
                            out.count("create:unknown-input-after-malformed-synthetic-block(not-judged)");
                        } else if !c.inputs_known {
                            let feat = if self.unwound_own_spend { "after-unwind-of-own-spend" } else { "no-unwind-of-own-spend" };
                            mfail(out, 
                                &format!("C19/built-tx-invalid/input-not-a-listed-output/{}", feat),
                                "an input of the built transaction is not an output the wallet listed as unspent",
                                replay,
                            );
                        }
                        out.count(if c.tout > c.tin { "create:built-overspending" } else if !c.inputs_known { "create:built-unknown-input" } else { "create:built-ok" });
                        let s = format!(
                            "tx in=[{}] out=[{}] {}",
                            tx.from.iter().map(slip_str).collect::<Vec<_>>().join(";"),
                            tx.to.iter().map(slip_str).collect::<Vec<_>>().join(";"),
                            dump(&self.w, &mut self.ids)
                        );
                        let id = self.next_tx;
                        self.next_tx += 1;
                        tx.hash_for_signature = Some(tx_hash(id));
                        self.last_tx = Some((id, tx));
                        s
                    }
                    Ok(Err(e)) => {
                        out.count("create:err");
                        let k = match e.kind() {
                            std::io::ErrorKind::InvalidInput => "invalid_input",
                            std::io::ErrorKind::NotFound => "not_found",
                            _ => "other",
                        };
                        format!("err={} {}", k, dump(&self.w, &mut self.ids))
                    }
                    Err(_) => {
                        out.count("create:panic");
                        "panic".into()
                    }
                };
            }
            "stake" => {
                // MONITOR-ONLY and terminal (the Lean wallet model has no staking transaction): build the node's staking
                // transaction from the wallet as it stands; the balance must still be the sum of the slips listed as unspent
                let (req, unlocked, floor): (u64, u64, u64) = (p[1].parse().unwrap(), p[2].parse().unwrap(), p[3].parse().unwrap());
                let had_stake = !self.w.staking_slips.is_empty();
                let w = &mut self.w;
                let r = guarded(|| w.create_staking_transaction(req, unlocked, floor).is_ok());
                out.count(&format!("wallet:create_staking_transaction:{}:{}", if had_stake { "wallet-holds-stake-slips" } else { "normal-slips-only" }, match r { Ok(true) => "ok", Ok(false) => "err", Err(_) => "panic" }));
                if r.is_err() {
                    mfail(out, "C19/create_staking_transaction-panics", "Wallet::create_staking_transaction panicked", serde_json::json!({"layer": "wallet", "script": self.script}));
                } else if let Some(what) = monitor_balance(&self.w) {
                    mfail(out, "C19/balance-differs-from-unspent-sum/after-staking-transaction", &what, serde_json::json!({"layer": "wallet", "script": self.script}));
                }
                self.dead = true;
                return;
            }
            _ => return,
        }
        out.case(&op, &ans);
        if ans == "panic" {
            // the wallet may be half-updated: the case ends here
            self.dead = true;
            out.count("wallet:panic");
            return;
        }
        if let Some(what) = monitor_balance(&self.w) {
            mfail(out, "C19/balance-differs-from-unspent-sum/wallet-layer", &what, serde_json::json!({"layer": "wallet", "script": self.script}));
        }
    }
}

/// `Rng::range` without the overflow at hi = u64::MAX
fn rr(r: &mut Rng, lo: u64, hi: u64) -> u64 {
    if hi <= lo {
        lo
    } else if hi - lo == u64::MAX {
        r.next()
    } else {
        r.range(lo, hi)
    }
}
fn rand_amount(r: &mut Rng) -> u64 {
    match r.below(200) {
        0..=9 => 0,
        10 => 1u64 << 63,
        11 => u64::MAX,
        12..=50 => r.range(1000, 5000),
        _ => r.range(1, 20),
    }
}
fn rand_type(r: &mut Rng) -> u64 {
    match r.below(20) {
        0..=11 => 0,
        12..=13 => 1,
        14 => 5,
        15..=16 => 8,
        _ => 9,
    }
}

/// one random wallet-layer script, run while it is generated (created transactions feed later blocks)
fn wallet_script(r: &mut Rng, out: &mut Out, nops: usize) {
    let mut x = WExec::new();
    x.exec("reset", out);
    let gp = *r.pick(&[3u64, 4, 6, 100]);
    let mut bid = r.range(1, 3);
    let mut pool: Vec<Slip> = vec![]; // outputs seen so far (inputs are drawn from here)
    let mut wound: Vec<(u64, String)> = vec![];
    let mut unwound: Vec<(u64, String)> = vec![];
    let mut txid = 500u64;
    for _ in 0..nops {
        if x.dead {
            break;
        }
        match r.below(100) {
            0..=39 => {
                // wind a fresh block
                let ntx = r.range(1, 3);
                let mut txs = vec![];
                for t in 0..ntx {
                    let nout = r.range(0, 4);
                    let mut tos = vec![];
                    let nft = r.coin(1, 8);
                    for i in 0..nout {
                        let o = if r.coin(2, 3) { 0 } else { r.range(1, 3) };
                        let typ = if nft && nout >= 3 && (i == 0 || i == 2) { 9 } else if nft && i == 1 { 0 } else { rand_type(r) };
                        let (b, tt, ii) = if r.coin(1, 12) { (r.range(0, 6), r.range(0, 2), r.range(0, 3)) } else { (bid, t, i) };
                        tos.push(mk_slip(o, b, tt, ii, rand_amount(r), typ));
                    }
                    let nin = r.range(0, 3);
                    let mut froms = vec![];
                    for _ in 0..nin {
                        if !pool.is_empty() && r.coin(4, 5) {
                            froms.push(r.pick(&pool).clone());
                        } else {
                            froms.push(mk_slip(if r.coin(1, 2) { 0 } else { 1 }, r.range(1, 4), r.range(0, 2), r.range(0, 2), rand_amount(r), rand_type(r)));
                        }
                    }
                    pool.extend(tos.iter().cloned());
                    txid += 1;
                    txs.push(format!("{}/{}/{}", txid, slips_str(&froms), slips_str(&tos)));
                }
                let t = txs.join(";");
                let b = if r.coin(1, 150) { 0 } else { bid };
                x.exec(&format!("wind {} {} {}", b, gp, t), out);
                wound.push((b, t));
                bid += 1;
            }
            40..=49 => {
                if let Some((b, t)) = wound.pop() {
                    x.exec(&format!("unwind {} {} {}", b, gp, t), out);
                    unwound.push((b, t));
                }
            }
            50..=56 => {
                if let Some((b, t)) = unwound.pop() {
                    x.exec(&format!("wind {} {} {}", b, gp, t), out);
                    wound.push((b, t));
                }
            }
            57..=59 => {
                // any known block, any direction
                let all: Vec<(u64, String)> = wound.iter().chain(unwound.iter()).cloned().collect();
                if !all.is_empty() {
                    let (b, t) = r.pick(&all).clone();
                    let cmd = if r.coin(1, 2) { "wind" } else { "unwind" };
                    x.exec(&format!("{} {} {} {}", cmd, b, gp, t), out);
                }
            }
            60..=63 => {
                let all: Vec<(u64, String)> = wound.iter().chain(unwound.iter()).cloned().collect();
                if !all.is_empty() {
                    let (b, t) = r.pick(&all).clone();
                    x.exec(&format!("delblock {} {}", b, t), out);
                }
            }
            64..=67 => x.exec(&format!("expire {}", r.range(0, bid + 1)), out),
            68..=70 => {
                let s = if !pool.is_empty() && r.coin(1, 2) { r.pick(&pool).clone() } else { mk_slip(0, r.range(1, 4), 0, 0, rand_amount(r), rand_type(r)) };
                x.exec(&format!("addslip {} {} {}", r.range(0, bid), r.range(0, 2), slip_str(&s)), out);
            }
            71..=72 => {
                if !pool.is_empty() {
                    let s = r.pick(&pool).clone();
                    x.exec(&format!("delslip {}", slip_str(&s)), out);
                }
            }
            73..=76 => {
                let bal = x.w.get_available_balance();
                let req = match r.below(5) {
                    0 => 0,
                    1 => bal,
                    2 => bal.saturating_add(1),
                    _ => rr(r, 0, bal.max(1)),
                };
                let g = if r.coin(1, 30) { 0 } else { gp };
                x.exec(&format!("gen {} {} {} ?", req, bid.saturating_sub(r.below(2)), g), out);
            }
            77..=93 => {
                let bal = x.w.get_available_balance();
                let n = if r.coin(1, 5) { r.range(0, 3) } else { 1 };
                let mut amts = vec![];
                for _ in 0..n {
                    amts.push(match r.below(12) {
                        0 => 0,
                        1 => bal,
                        2 => bal.saturating_add(1),
                        3 => u64::MAX,
                        4 => 1u64 << 63,
                        _ => rr(r, 0, (bal / n.max(1)).max(1)),
                    });
                }
                let nk = if r.coin(1, 15) { n + 1 } else { n };
                let keys: Vec<u64> = (0..nk).map(|_| r.range(0, 3)).collect();
                let fee = match r.below(8) {
                    0 => bal.saturating_add(1),
                    1 => u64::MAX,
                    2 | 3 => r.range(1, 5),
                    _ => 0,
                };
                let g = if r.coin(1, 40) { 0 } else { gp };
                x.exec(&format!("create {} {} {} ? {} {}", bid.saturating_sub(1), g, fee, nums(&keys), nums(&amts)), out);
                if x.last_tx.is_some() && !x.dead {
                    if r.coin(2, 3) {
                        x.exec("pendlast", out);
                    }
                    if r.coin(1, 2) && !x.dead {
                        let (id, tx) = x.last_tx.clone().unwrap();
                        x.exec(&format!("minelast {} {}", bid, gp), out);
                        // remember the block so it can be unwound / re-wound
                        let mut t = tx.clone();
                        for (i, s) in t.to.iter_mut().enumerate() {
                            s.block_id = bid;
                            s.tx_ordinal = 0;
                            s.slip_index = i as u8;
                            s.generate_utxoset_key();
                        }
                        pool.extend(t.to.iter().cloned());
                        wound.push((bid, txs_str(&[(id, &t)])));
                        bid += 1;
                        x.last_tx = None;
                    }
                }
            }
            _ => x.exec(&format!("pend {}", r.range(500, txid.max(501))), out),
        }
    }
    // last step of every script: the node's staking transaction, sized so that unlocked stake slips (if the wallet holds any)
    // do not cover it alone and normal slips have to top it up
    // (wallets whose slips add up to more than 2^62 are left out: sums of such amounts are the subject of the `create` cases)
    let modest = x.w.slips.values().fold(0u128, |a, sl| a + sl.amount as u128) < (1u128 << 62);
    if !x.dead && modest {
        let stake_sum: u64 = x.w.staking_slips.iter().filter_map(|k| x.w.slips.get(k)).map(|sl| sl.amount).fold(0u64, |a, b| a.saturating_add(b));
        let normal = x.w.get_available_balance();
        let req = match r.below(4) {
            0 => stake_sum.saturating_add(1),
            1 => stake_sum.saturating_add(normal / 2).max(1),
            2 => (stake_sum / 2).max(1),
            _ => stake_sum.saturating_add(normal).max(1),
        };
        x.exec(&format!("stake {} {} {}", req, 1_000_000, 0), out);
    }
}

/// corpus scripts (wallet layer): one script per file, `#` comments
fn run_corpus(out: &mut Out) {
    let dir = format!("{}/corpus/C19", verif_root());
    let mut files: Vec<_> = match std::fs::read_dir(&dir) {
        Ok(d) => d.filter_map(|e| e.ok()).map(|e| e.path()).filter(|p| p.extension().map(|e| e == "ops").unwrap_or(false)).collect(),
        Err(_) => return,
    };
    files.sort();
    for f in files {
        let txt = std::fs::read_to_string(&f).unwrap_or_default();
        let mut x = WExec::new();
        x.exec("reset", out);
        for l in txt.lines() {
            let l = l.trim();
            if l.is_empty() || l.starts_with('#') {
                continue;
            }
            if x.dead {
                break;
            }
            x.exec(l, out);
        }
        out.count("corpus-script");
    }
}

// ------------------------------------------------------------------------------------------------ node layer
pub struct NCtx {
    pub f: Factory, // f.store is the node under test; its blockchain is also the block store of Block::create
    pub gp: u64,
    ids: TxIds,
    blocks: HashMap<SaitoHash, Block>,
    script: Vec<String>,
    reorged: bool,
    unwound_own_spend: bool,
    queue: Vec<Transaction>, // built, signed, valid at build time, not yet mined
    pool: Vec<Slip>,         // genesis outputs of key 1, each used for at most one payment (valid on every branch)
    next_data: u8,
    pub dead: bool,
}

impl NCtx {
    pub fn new(seed: u64, gp: u64) -> NCtx {
        let cfg = Cfg::new(gp, HEARTBEAT, 1000);
        let node = Node::new(ME, cfg);
        NCtx {
            f: Factory { store: node, rng: Rng::new(seed ^ 0xFAC7), base_ts: 1_700_000_000_000 },
            gp,
            ids: TxIds::default(),
            blocks: HashMap::new(),
            script: vec![],
            reorged: false,
            unwound_own_spend: false,
            queue: vec![],
            pool: vec![],
            next_data: 0,
            dead: false,
        }
    }
    fn replay(&self) -> serde_json::Value {
        serde_json::json!({"layer": "node", "genesis_period": self.gp, "history": self.script})
    }
    fn tip(&self) -> SaitoHash {
        self.f.store.tip().map(|t| t.1).unwrap_or([0; 32])
    }
    fn latest(&self) -> u64 {
        self.f.store.tip().map(|t| t.0).unwrap_or(0)
    }
    fn project(&mut self, b: &Block) -> String {
        let mut v = vec![];
        for t in &b.transactions {
            let id = self.ids.id(&t.hash_for_signature.unwrap_or([0; 32]));
            v.push((id, t));
        }
        txs_str(&v)
    }
    fn ancestors(&self, mut h: SaitoHash) -> Vec<SaitoHash> {
        let mut v = vec![];
        while let Some(b) = self.blocks.get(&h) {
            v.push(h);
            h = b.previous_block_hash;
        }
        v
    }

    async fn observe(&mut self, out: &mut Out, what: &str) {
        let w = self.f.store.wallet_lock.read().await;
        let ans = dump(&w, &mut self.ids);
        out.case("obs", &ans);
        // ---- direct monitors
        if let Some(m) = monitor_balance(&w) {
            let feat = if self.reorged { "history-with-reorganisation" } else { "linear-history" };
            mfail(out, &format!("C19/balance-differs-from-unspent-sum/{}", feat), &m, self.replay());
        }
        let latest = self.latest();
        let me = pks()[ME as usize];
        let mut want: BTreeSet<SaitoUTXOSetKey> = self
            .f
            .store
            .blockchain
            .utxoset
            .iter()
            .filter(|(k, v)| **v && k[0..33] == me)
            .filter(|(k, _)| {
                let s = Slip::parse_slip_from_utxokey(k).unwrap();
                s.slip_type != SlipType::Bound && s.slip_type != SlipType::BlockStake && s.block_id + self.gp >= latest
            })
            .map(|(k, _)| *k)
            .collect();
        for t in w.pending_txs.values() {
            for s in t.from.iter().filter(|s| s.amount > 0) {
                want.remove(&s.get_utxoset_key());
            }
        }
        let have: BTreeSet<SaitoUTXOSetKey> = w.unspent_slips.iter().cloned().collect();
        if !self.reorged {
            out.count("ledger-compared:linear");
            if want != have {
                let feat = if latest > self.gp { "chain-longer-than-genesis-period" } else { "chain-within-genesis-period" };
                let d1: Vec<String> = want.difference(&have).map(|k| ks(&kt_key(k))).collect();
                let d2: Vec<String> = have.difference(&want).map(|k| ks(&kt_key(k))).collect();
                mfail(out, 
                    &format!("C19/unspent-differs-from-ledger/{}", feat),
                    &format!("after {}: in ledger only {:?}, in wallet only {:?}", what, d1, d2),
                    self.replay(),
                );
            }
        } else {
            out.count(if want == have { "ledger-after-reorg:equal" } else { "ledger-after-reorg:differs(not-a-C19-claim)" });
        }
    }

    /// deliver a block; emit the wallet events the node must have performed (derived from tips and the harness's own
    /// block tree) as set-up lines, then compare the wallet
    async fn deliver(&mut self, b: Block, out: &mut Out, what: &str) -> String {
        self.script.push(what.to_string());
        // model assumption: the cached utxo key of every slip of a generated block agrees with the slip's fields
        for t in &b.transactions {
            for sl in t.from.iter().chain(t.to.iter()) {
                if sl.utxoset_key != sl.get_utxoset_key() {
                    out.count("assumption-violated:cached-utxoset-key-differs-from-fields");
                }
            }
        }
        self.blocks.insert(b.hash, b.clone());
        let before = self.tip();
        let r = guarded_async(self.f.store.add_block(b.clone())).await;
        let cls = match &r {
            Ok(r) => add_result_class(r).to_string(),
            Err(_) => "panic".to_string(),
        };
        out.count(&format!("node:add_block:{}", cls));
        if cls == "panic" {
            self.dead = true;
            return cls;
        }
        let after = self.tip();
        if after != before {
            let old = self.ancestors(before);
            let new = self.ancestors(after);
            let common: Option<SaitoHash> = new.iter().find(|h| old.contains(h)).cloned();
            let unw: Vec<SaitoHash> = old.iter().take_while(|h| Some(**h) != common).cloned().collect();
            let mut wnd: Vec<SaitoHash> = new.iter().take_while(|h| Some(**h) != common).cloned().collect();
            wnd.reverse();
            if !unw.is_empty() {
                self.reorged = true;
                out.count("node:reorganisation");
            }
            let mut top = self.blocks.get(&before).map(|x| x.id).unwrap_or(0);
            for h in unw {
                let blk = self.blocks.get(&h).unwrap().clone();
                if blk.transactions.iter().any(|t| t.from.iter().any(|s| s.amount > 0 && owner(&s.public_key) == 0)) {
                    self.unwound_own_spend = true;
                }
                let t = self.project(&blk);
                out.setup(&format!("unwind {} {} {}", blk.id, self.gp, t));
            }
            for h in wnd {
                let blk = self.blocks.get(&h).unwrap().clone();
                let t = self.project(&blk);
                out.setup(&format!("wind {} {} {}", blk.id, self.gp, t));
                // purge (Blockchain::update_genesis_period → delete_blocks): only for ids above every id seen so far
                if blk.id > top && blk.id >= 2 * self.gp + 1 {
                    let purge = blk.id - 2 * self.gp;
                    let mut victims: Vec<Block> = self.blocks.values().filter(|x| x.id == purge).cloned().collect();
                    victims.sort_by_key(|x| x.hash);
                    for v in victims {
                        let t = self.project(&v);
                        out.setup(&format!("delblock {} {}", v.id, t));
                        out.count("node:purged-block");
                    }
                }
                top = top.max(blk.id);
            }
        }
        self.observe(out, what).await;
        cls
    }

    async fn genesis(&mut self, out: &mut Out, mine: &[u64]) {
        let mut issue: Vec<(u64, Currency)> = (0..24).map(|_| (1u64, 1_000_000u64)).collect();
        for a in mine {
            issue.push((ME, *a));
        }
        let g = self.f.make_genesis(&issue).await;
        self.pool = g.transactions.iter().flat_map(|t| t.to.iter()).filter(|s| s.public_key == pks()[1]).cloned().collect();
        self.deliver(g, out, &format!("genesis mine={:?}", mine)).await;
    }

    /// a payment transaction key1 → me. `fresh`: from the genesis pool (valid on any branch); else newest ledger output of key 1
    fn payment(&mut self, amounts: &[u64], fresh: bool) -> Option<Transaction> {
        let src: Slip = if fresh {
            if self.pool.is_empty() {
                return None;
            }
            self.pool.remove(0)
        } else {
            let pk = pks()[1];
            let latest = self.latest();
            let mut v: Vec<Slip> = self
                .f
                .store
                .blockchain
                .utxoset
                .iter()
                .filter(|(k, val)| **val && k[0..33] == pk)
                .map(|(k, _)| Slip::parse_slip_from_utxokey(k).unwrap())
                .filter(|s| s.block_id + self.gp > latest + 2)
                .collect();
            v.sort_by_key(|s| (s.block_id, s.tx_ordinal, s.slip_index));
            v.pop()?
        };
        let total: u64 = amounts.iter().sum();
        if src.amount <= total {
            return None;
        }
        let mut outputs: Vec<(u64, Currency)> = amounts.iter().map(|a| (ME, *a)).collect();
        outputs.push((1, src.amount - total));
        self.next_data = self.next_data.wrapping_add(1);
        Some(self.f.make_tx(&TxSpec { inputs: vec![Utxo { slip: src, owner: 1 }], outputs, data: vec![self.next_data] }))
    }

    /// a block on `parent`. Golden tickets only in blocks with an even id: two consecutive ticket blocks raise the
    /// mining difficulty by one (leading zero bits), which makes ticket search exponential in the chain length; every
    /// other block keeps difficulty 0 and satisfies the ticket-density rule (>= 2 in 6). A block without ticket and
    /// without transaction gets a zero-value filler transaction of key 1.
    async fn build(&mut self, parent: &Block, mut txs: Vec<Transaction>, miner: u64) -> Option<Block> {
        let gt = if (parent.id + 1) % 2 == 0 { Some(self.f.golden_ticket_tx(parent, miner)) } else { None };
        if gt.is_none() && txs.is_empty() {
            let mut z = Slip::default();
            z.public_key = pks()[1];
            self.next_data = self.next_data.wrapping_add(1);
            txs.push(self.f.make_tx(&TxSpec { inputs: vec![Utxo { slip: z, owner: 1 }], outputs: vec![(1, 0)], data: vec![0xF1, self.next_data] }));
        }
        match self.f.make_block(parent.hash, parent.timestamp + 400, 1, txs, gt).await {
            Ok(b) => Some(b),
            Err(_) => None,
        }
    }

    /// the wallet builds a transaction exactly as a node does (create → generate → sign → add_to_pending)
    async fn spend(&mut self, out: &mut Out, keys: Vec<u64>, amts: Vec<u64>, fee: u64) {
        let latest = self.latest();
        let gp = self.gp;
        self.script.push(format!("spend keys={:?} amounts={:?} fee={} at latest={}", keys, amts, fee, latest));
        let mut w = self.f.store.wallet_lock.write().await;
        let order = order_of(&w);
        let op = format!("create {} {} {} {} {} {}", latest, gp, fee, order, nums(&keys), nums(&amts));
        let before: BTreeSet<SaitoUTXOSetKey> = w.unspent_slips.iter().cloned().collect();
        let edge = holds_edge_slip(&w, latest, gp);
        let pkeys: Vec<SaitoPublicKey> = keys.iter().map(|k| pk_of(*k)).collect();
        let r = {
            let wr: &mut Wallet = &mut w;
            guarded(|| Transaction::create_with_multiple_payments(wr, pkeys, amts.clone(), fee, None, latest, gp))
        };
        match r {
            Ok(Ok(mut tx)) => {
                let ans = format!(
                    "tx in=[{}] out=[{}] {}",
                    tx.from.iter().map(slip_str).collect::<Vec<_>>().join(";"),
                    tx.to.iter().map(slip_str).collect::<Vec<_>>().join(";"),
                    dump(&w, &mut self.ids)
                );
                out.case(&op, &ans);
                let (pk, sk) = key(ME);
                tx.generate(&pk, 0, 0);
                tx.sign(&sk);
                let c = check_built(&tx, &before);
                let valid = tx.validate(&self.f.store.blockchain.utxoset, &self.f.store.blockchain, true);
                let replay = self.replay();
                if !c.distinct {
                    let feat = if self.unwound_own_spend { "after-unwind-of-own-spend" } else if self.reorged { "after-other-reorganisation" } else { "linear-history" };
                    mfail(out, &format!("C19/built-tx-invalid/duplicate-input/{}", feat), "the built transaction lists an input twice", replay.clone());
                }
                if c.tout > c.tin {
                    let feat = if edge { "holding-output-near-window-edge" } else { "no-output-near-window-edge" };
                    mfail(out, 
                        &format!("C19/built-tx-invalid/spends-more-than-inputs/{}", feat),
                        &format!("outputs {} > inputs {} (Transaction::validate = {})", c.tout, c.tin, valid),
                        replay.clone(),
                    );
                } else if !valid {
                    let feat = if self.unwound_own_spend { "after-unwind-of-own-spend" } else if self.reorged { "after-other-reorganisation" } else { "linear-history" };
                    mfail(out, 
                        &format!("C19/built-tx-invalid/rejected-by-ledger/{}", feat),
                        &format!("Transaction::validate against the node's utxo set fails; inputs all listed as unspent before the call: {}", c.inputs_known),
                        replay,
                    );
                }
                out.count(if c.tout > c.tin { "create:built-overspending" } else if !valid { "create:built-rejected-by-ledger" } else { "create:built-valid" });
                let id = self.ids.id(&tx.hash_for_signature.unwrap());
                w.add_to_pending(tx.clone());
                out.setup(&format!("pend {}", id));
                if valid && c.tout <= c.tin {
                    self.queue.push(tx);
                }
            }
            Ok(Err(e)) => {
                let k = match e.kind() {
                    std::io::ErrorKind::InvalidInput => "invalid_input",
                    std::io::ErrorKind::NotFound => "not_found",
                    _ => "other",
                };
                out.case(&op, &format!("err={} {}", k, dump(&w, &mut self.ids)));
                out.count("create:err");
            }
            Err(_) => {
                out.case(&op, "panic");
                out.count("create:panic");
                self.dead = true;
            }
        }
        drop(w);
        if !self.dead {
            self.observe(out, "spend").await;
        }
    }

    fn random_spend_args(&mut self, r: &mut Rng, bal: u64) -> (Vec<u64>, Vec<u64>, u64) {
        let n = if r.coin(1, 6) { r.range(2, 3) } else { 1 };
        let mut amts = vec![];
        for _ in 0..n {
            amts.push(match r.below(14) {
                0 => 0,
                1 => bal,
                2 => bal.saturating_add(1),
                3 => u64::MAX,
                4 => bal / 2,
                _ => rr(r, 1, (bal / (2 * n)).max(2)),
            });
        }
        let nk = if r.coin(1, 25) { n + 1 } else { n };
        let keys: Vec<u64> = (0..nk).map(|_| r.range(2, 4)).collect();
        let fee = match r.below(8) {
            0 => bal.saturating_add(1),
            1 | 2 => r.range(1, 50),
            _ => 0,
        };
        (keys, amts, fee)
    }
}

/// one node-layer history. `forks`: reorganisations allowed (then genesis_period is large); else linear with expiry
async fn node_history(seed: u64, gp: u64, forks: bool, steps: usize, out: &mut Out, fixed: Option<&[&str]>) {
    let mut r = Rng::new(seed);
    let mut c = NCtx::new(seed, gp);
    out.setup("reset");
    let mine: Vec<u64> = if r.coin(1, 2) { vec![r.range(100, 9000)] } else { vec![] };
    c.genesis(out, if fixed.is_some() { &[] } else { &mine }).await;
    let mut step = 0;
    while step < steps && !c.dead {
        let choice: String = match fixed {
            Some(f) => {
                if step >= f.len() {
                    break;
                }
                f[step].to_string()
            }
            None => {
                let x = r.below(100);
                if x < 32 {
                    "pay".into()
                } else if x < 57 {
                    "spend".into()
                } else if x < 77 {
                    "mine".into()
                } else if x < 85 || !forks {
                    "idle".into()
                } else {
                    "fork".into()
                }
            }
        };
        step += 1;
        let tip = match c.blocks.get(&c.tip()) {
            Some(b) => b.clone(),
            None => break,
        };
        let parts: Vec<&str> = choice.split(' ').collect();
        match parts[0] {
            "pay" => {
                let amounts: Vec<u64> = if parts.len() > 1 {
                    parts[1].split(',').map(|x| x.parse().unwrap()).collect()
                } else if r.coin(1, 5) {
                    vec![r.range(1, 900), r.range(1, 900)]
                } else {
                    vec![r.range(1, 5000)]
                };
                let tx = c.payment(&amounts, forks);
                let miner = if r.coin(1, 4) { ME } else { 2 };
                if let Some(b) = c.build(&tip, tx.into_iter().collect(), miner).await {
                    c.deliver(b, out, &format!("block on tip paying me {:?}", amounts)).await;
                }
            }
            "idle" => {
                let miner = if r.coin(1, 4) { ME } else { 2 };
                if let Some(b) = c.build(&tip, vec![], miner).await {
                    c.deliver(b, out, "idle block on tip").await;
                }
            }
            "spend" => {
                let bal = c.f.store.wallet_lock.read().await.get_available_balance();
                let (keys, amts, fee) = if parts.len() > 2 {
                    (vec![2], vec![parts[1].parse().unwrap()], parts[2].parse().unwrap())
                } else {
                    c.random_spend_args(&mut r, bal)
                };
                c.spend(out, keys, amts, fee).await;
            }
            "mine" => {
                if c.queue.is_empty() {
                    continue;
                }
                let tx = c.queue.remove(0);
                if !tx.validate_against_utxoset(&c.f.store.blockchain.utxoset) {
                    out.count("node:queued-tx-no-longer-spendable-dropped");
                    continue;
                }
                if let Some(b) = c.build(&tip, vec![tx], 2).await {
                    c.deliver(b, out, "block on tip with my oldest pending transaction").await;
                }
            }
            "fork" => {
                // a branch from `d` blocks below the tip, one block longer than what it replaces; then (sometimes) the old
                // branch grows by two and takes over again
                let anc = c.ancestors(tip.hash);
                if anc.len() < 3 {
                    continue;
                }
                let d = if parts.len() > 1 { parts[1].parse().unwrap() } else { r.range(1, 3.min(anc.len() as u64 - 1)) } as usize;
                let swing = if parts.len() > 2 { parts[2] == "swing" } else { r.coin(1, 2) };
                let mut parent = c.blocks.get(&anc[d]).unwrap().clone();
                for i in 0..=d {
                    let tx = if fixed.is_none() && r.coin(1, 2) { c.payment(&[r.range(1, 3000)], true) } else { None };
                    match c.build(&parent, tx.into_iter().collect(), 2).await {
                        Some(b) => {
                            c.deliver(b.clone(), out, &format!("fork block {} of {} from {} below the tip", i + 1, d + 1, d)).await;
                            parent = b;
                        }
                        None => break,
                    }
                    if c.dead {
                        break;
                    }
                }
                if swing && !c.dead {
                    let mut parent = tip.clone();
                    for i in 0..2 {
                        match c.build(&parent, vec![], 2).await {
                            Some(b) => {
                                c.deliver(b.clone(), out, &format!("old branch grows ({} of 2)", i + 1)).await;
                                parent = b;
                            }
                            None => break,
                        }
                        if c.dead {
                            break;
                        }
                    }
                }
            }
            _ => {}
        }
    }
    out.count(if forks { "node-history:forks" } else { "node-history:linear-with-expiry" });
}

/// measure the defect flags of the tree under test by replaying the witnesses on the real code
pub fn calibrate() -> String {
    // unwind: a spent input re-added by an unwind keeps its own block id
    let (pk, sk) = key(ME);
    let mut w = Wallet::new(sk, pk);
    let mut b = Block::new();
    b.id = 5;
    let mut tx = Transaction::default();
    tx.from.push(mk_slip(0, 2, 1, 0, 100, 0));
    tx.to.push(mk_slip(3, 5, 0, 0, 100, 0));
    tx.hash_for_signature = Some(tx_hash(1));
    b.transactions.push(tx);
    let unwind = guarded(|| {
        w.on_chain_reorganization(&b, false, 100);
        w.slips.values().next().map(|s| s.block_id == 2 && s.tx_ordinal == 1).unwrap_or(false)
    })
    .unwrap_or(false);
    // usable: create refuses when the only slip sits at the window edge
    let mut w = Wallet::new(sk, pk);
    let s = mk_slip(0, 2, 0, 0, 100, 0);
    w.add_slip(2, 0, &s, true, None);
    let usable = guarded(|| Transaction::create(&mut w, pk_of(2), 50, 0, false, None, 7, 6).is_err()).unwrap_or(false);
    format!("unwind={} usable={}", unwind as u8, usable as u8)
}

pub fn run(seed: u64, tier: &str, outdir: &str) {
    let mut out = Out::new(outdir);
    let thorough = tier == "thorough";
    out.setup(&format!("flags {}", calibrate()));
    run_corpus(&mut out);
    let rt = rt();
    // witnesses of the listed defects on a real node (first, so that their replays are in the recorded list)
    rt.block_on(async {
        node_history(1, 6, false, 20, &mut out, Some(&["pay 700", "idle", "idle", "idle", "idle", "idle", "spend 300 0", "idle", "spend 300 0", "mine", "idle"])).await;
        node_history(2, 30, true, 20, &mut out, Some(&["pay 700", "spend 300 0", "mine", "fork 1 noswing", "spend 100 0", "idle", "spend 50 0"])).await;
        node_history(3, 30, true, 20, &mut out, Some(&["pay 700", "spend 300 0", "mine", "fork 1 swing", "spend 100 0", "mine", "idle"])).await;
        node_history(4, 30, true, 20, &mut out, Some(&["pay 100", "pay 100", "spend 200 0", "mine", "fork 1 noswing", "spend 150 0", "idle"])).await;
    });
    // wallet layer
    let mut r = Rng::new(seed);
    let nscripts = if thorough { 30000 } else { 3000 };
    for _ in 0..nscripts {
        let n = r.range(8, 40) as usize;
        wallet_script(&mut r, &mut out, n);
    }
    // node layer
    rt.block_on(async {
        let nforks = if thorough { 1500 } else { 120 };
        for i in 0..nforks {
            let steps = r.range(8, 18) as usize;
            node_history(seed.wrapping_mul(1000).wrapping_add(i), 30, true, steps, &mut out, None).await;
        }
        let nlin = if thorough { 400 } else { 40 };
        for i in 0..nlin {
            let gp = *r.pick(&[6u64, 7, 8, 10]);
            let steps = (2 * gp + r.range(4, 10)) as usize;
            node_history(seed.wrapping_mul(7777).wrapping_add(i), gp, false, steps + steps / 2, &mut out, None).await;
        }
    });
    out.finish(serde_json::json!({"flags": calibrate()}));
}

/// `harness wallet-one <script file>`: run one wallet-layer script on the real wallet and print op / answer lines
/// (replay aid; monitor failures are printed too)
pub fn one(path: &str) {
    let dir = std::env::temp_dir().join("c19-one");
    let dir = dir.to_str().unwrap().to_string();
    let mut out = Out::new(&dir);
    let txt = std::fs::read_to_string(path).unwrap_or_default();
    let mut x = WExec::new();
    for l in txt.lines() {
        let l = l.trim();
        if l.is_empty() || l.starts_with('#') || x.dead {
            continue;
        }
        x.exec(l, &mut out);
    }
    let fails = out.monitor_failures.clone();
    out.finish(serde_json::json!({}));
    let ops = std::fs::read_to_string(format!("{}/ops.txt", dir)).unwrap_or_default();
    let imp = std::fs::read_to_string(format!("{}/impl.txt", dir)).unwrap_or_default();
    for (o, a) in ops.lines().zip(imp.lines()) {
        println!("{}\n    => {}", o, a);
    }
    for f in fails {
        println!("MONITOR {} : {}", f["key"].as_str().unwrap_or(""), f["what"].as_str().unwrap_or(""));
    }
}
