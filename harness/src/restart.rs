//! C12 correspondence: restart of a real node from its block files, cleanly and after a crash at every point of the
//! storage-operation journal (last write complete / absent / torn at every byte-class boundary).
//!
//! * histories are generated on a REAL node (`Factory.store`, a `Node` over `MemIO`): every block is built by the real
//!   `Block::create` against that node's own blockchain (so automatic rebroadcast past the window is computed by the
//!   code itself) and added with the real `Blockchain::add_block`; `MemIO` journals every write/remove.
//! * restart runs the REAL loading path: a real `ConsensusThread` is constructed (all fields are `pub`) over a fresh
//!   `Blockchain`/`Mempool`/`Wallet`, in-memory channels and a `MemIO` holding the (crashed) disk, and
//!   `ProcessEvent::on_init` is called — `load_block_name_list` → batches of 1000 → `load_blocks_from_disk` →
//!   `add_blocks_from_mempool` → deletion of unreferenced files (`delete_old_blocks = true` as in saito-rust's main.rs).
//! * every history runs in a child process (`disk-worker`) so that a livelock becomes the answer `stall`.
//! * one pass goes through a re-implementation of `RustIOHandler::write_value` on a temporary directory (saito-rust does
//!   not build as a library without `--cfg tokio_unstable` and ~150 further crates; the harness instead checks the
//!   SOURCE TEXT of `write_value` for `File::create` + `write_all` and the absence of rename/sync and re-issues those
//!   two calls with tokio::fs).
use crate::chain::{project, Ids};
use crate::common::*;
use crate::node::*;
use saito_core::core::consensus::block::{Block, BlockType};
use saito_core::core::consensus::blockchain::Blockchain;
use saito_core::core::consensus::mempool::Mempool;
use saito_core::core::consensus::peers::peer_collection::PeerCollection;
use saito_core::core::consensus::slip::{Slip, SlipType};
use saito_core::core::consensus::transaction::Transaction;
use saito_core::core::consensus::wallet::Wallet;
use saito_core::core::consensus_thread::{ConsensusEvent, ConsensusStats, ConsensusThread};
use saito_core::core::defs::{SaitoHash, SaitoSignature, SaitoUTXOSetKey, Timestamp};
use saito_core::core::io::network::Network;
use saito_core::core::io::storage::Storage;
use saito_core::core::mining_thread::MiningEvent;
use saito_core::core::process::keep_time::{KeepTime, Timer};
use saito_core::core::process::process_event::ProcessEvent;
use saito_core::core::routing_thread::RoutingEvent;
use saito_core::core::util::configuration::Configuration;
use std::collections::{BTreeMap, BTreeSet, HashMap};
use std::io::{BufRead, BufReader, Write};
use std::process::{Command, Stdio};
use std::sync::{mpsc, Arc, Mutex};
use std::time::Duration;
use tokio::sync::RwLock;

pub const HEARTBEAT: u64 = 100;
pub const NKEYS: u64 = 4;

struct Clock;
impl KeepTime for Clock {
    fn get_timestamp_in_ms(&self) -> Timestamp {
        1_800_000_000_000
    }
}

// ------------------------------------------------------------------------------------------------ histories

#[derive(Clone, Debug)]
pub struct Step {
    /// -1 = child of the live node's current tip, otherwise index into the blocks created so far (0 = genesis)
    pub parent: i64,
    pub dt: u64,
    pub gt: bool,
    pub tx: bool,
    pub creator: u64,
}

#[derive(Clone, Debug)]
pub struct HSpec {
    pub name: String,
    pub gp: u64,
    pub prune_after: u64,
    pub del: bool,
    pub steps: Vec<Step>,
}

pub struct Rec {
    pub block: Block,
    pub parent: Option<usize>,
    pub cls: &'static str,
    pub avail_after: Vec<Utxo>,
}

/// what is observed of a node
#[derive(Clone, Debug, PartialEq)]
pub struct Obs {
    pub tip: (u64, SaitoHash),
    /// spendable keys inside the window (block id ≥ tip − gp), as `check_total_supply` counts them
    pub utxo: BTreeSet<SaitoUTXOSetKey>,
    /// spendable keys whatever their age
    pub utxo_all: BTreeSet<SaitoUTXOSetKey>,
    pub supply: u128,
    pub blocks: BTreeSet<SaitoHash>,
}

pub fn observe(bc: &Blockchain, gp: u64) -> Obs {
    let tip = (bc.get_latest_block_id(), bc.get_latest_block_hash());
    let mut utxo = BTreeSet::new();
    let mut utxo_all = BTreeSet::new();
    let mut supply: u128 = 0;
    for (k, v) in bc.utxoset.iter() {
        if !*v {
            continue;
        }
        utxo_all.insert(*k);
        if let Ok(s) = Slip::parse_slip_from_utxokey(k) {
            if s.slip_type == SlipType::Bound {
                continue;
            }
            if s.block_id < tip.0.saturating_sub(gp) {
                continue;
            }
            utxo.insert(*k);
            supply += s.amount as u128;
        }
    }
    if let Some(b) = bc.get_latest_block() {
        supply += b.graveyard as u128 + b.treasury as u128 + b.previous_block_unpaid as u128 + b.total_fees as u128;
    }
    Obs { tip, utxo, utxo_all, supply, blocks: bc.blocks.keys().cloned().collect() }
}

pub struct History {
    pub spec: HSpec,
    pub cfg: Cfg,
    pub recs: Vec<Rec>,
    pub journal: Vec<DiskOp>,
    /// journal length after each created block (index = rec index)
    pub jlen_after: Vec<usize>,
    /// observation of the live node after each created block
    pub obs_after: Vec<Obs>,
    pub panicked: Option<String>,
}

impl History {
    pub fn find(&self, h: &SaitoHash) -> Option<usize> {
        self.recs.iter().position(|r| r.block.hash == *h)
    }
    /// ancestors of `h` (inclusive), tip first, as far as they are known
    pub fn ancestry(&self, h: &SaitoHash) -> Vec<usize> {
        let mut v = vec![];
        let mut cur = self.find(h);
        while let Some(i) = cur {
            v.push(i);
            cur = self.recs[i].parent;
        }
        v
    }
    pub fn has_fork(&self) -> bool {
        self.recs.iter().any(|r| r.cls == "added_side") || {
            let mut kids: HashMap<Option<usize>, usize> = HashMap::new();
            for r in &self.recs {
                *kids.entry(r.parent).or_insert(0) += 1;
            }
            kids.iter().any(|(p, n)| p.is_some() && *n > 1)
        }
    }
    pub fn has_removes(&self) -> bool {
        self.journal.iter().any(|o| matches!(o, DiskOp::Remove(_)))
    }
}

pub async fn generate(spec: &HSpec, seed: u64) -> History {
    let cfg = Cfg::new(spec.gp, HEARTBEAT, spec.prune_after);
    let mut f = Factory::new(seed, cfg.clone());
    let owner = owner_lookup(NKEYS);
    let mut h = History { spec: spec.clone(), cfg: cfg.clone(), recs: vec![], journal: vec![], jlen_after: vec![], obs_after: vec![], panicked: None };
    let genesis = f.make_genesis(&[(1, 1000), (1, 2000), (2, 3000), (2, 4000), (3, 5000), (3, 6000)]).await;
    let r = f.store.add_block(genesis.clone()).await;
    h.recs.push(Rec { block: genesis.clone(), parent: None, cls: add_result_class(&r), avail_after: outputs_of(&genesis, &owner) });
    h.jlen_after.push(f.store.disk.lock().unwrap().journal.len());
    h.obs_after.push(observe(&f.store.blockchain, spec.gp));
    for (si, s) in spec.steps.iter().enumerate() {
        let pidx = if s.parent < 0 {
            let th = f.store.blockchain.get_latest_block_hash();
            match h.find(&th) {
                Some(i) => i,
                None => break,
            }
        } else {
            (s.parent as usize).min(h.recs.len() - 1)
        };
        let pblock = h.recs[pidx].block.clone();
        let new_id = pblock.id + 1;
        let mut avail = h.recs[pidx].avail_after.clone();
        let mut txs = vec![];
        if s.tx {
            // only recent outputs: older ones are rebroadcast by the code itself once the window moves
            let cand: Vec<usize> = avail.iter().enumerate().filter(|(_, u)| u.slip.block_id + spec.gp / 2 >= new_id).map(|(i, _)| i).collect();
            if !cand.is_empty() {
                let k = cand[f.rng.below(cand.len() as u64) as usize];
                let u = avail.remove(k);
                let to = f.rng.range(1, NKEYS - 1);
                let fee = if f.rng.coin(1, 3) { f.rng.range(1, 10) } else { 0 };
                let amt = u.slip.amount - fee.min(u.slip.amount - 1);
                txs.push(f.make_tx(&TxSpec { inputs: vec![u], outputs: vec![(to, amt)], data: vec![si as u8, 7] }));
            }
        }
        let gt = if s.gt || txs.is_empty() { Some(f.golden_ticket_tx(&pblock, s.creator)) } else { None };
        let ts = pblock.timestamp + s.dt;
        let b = match f.make_block(pblock.hash, ts, s.creator, txs, gt).await {
            Ok(b) => b,
            Err(_) => break,
        };
        let r = match guarded_async(f.store.add_block(b.clone())).await {
            Ok(r) => r,
            Err(m) => {
                h.panicked = Some(m);
                break;
            }
        };
        let cls = add_result_class(&r);
        // outputs still spendable on this branch: drop what the block spent, add what it created for our keys
        let (ins, _) = block_io_keys(&b);
        avail.retain(|u| !ins.contains(&u.slip.utxoset_key));
        avail.extend(outputs_of(&b, &owner));
        h.recs.push(Rec { block: b, parent: Some(pidx), cls, avail_after: avail });
        h.jlen_after.push(f.store.disk.lock().unwrap().journal.len());
        h.obs_after.push(observe(&f.store.blockchain, spec.gp));
    }
    h.journal = f.store.disk.lock().unwrap().journal.clone();
    h
}

// ------------------------------------------------------------------------------------------------ disks

pub type Files = BTreeMap<String, Vec<u8>>;

pub fn apply(files: &mut Files, op: &DiskOp) {
    match op {
        DiskOp::Write(n, v) => {
            files.insert(n.clone(), v.clone());
        }
        DiskOp::Remove(n) => {
            files.remove(n);
        }
    }
}

pub fn disk_at(journal: &[DiskOp], k: usize) -> Files {
    let mut f = Files::new();
    for op in &journal[..k] {
        apply(&mut f, op);
    }
    f
}

/// byte classes at which a block file can be torn: (class name, cut length)
pub fn torn_cuts(bytes: &[u8]) -> Vec<(String, usize)> {
    let mut v: Vec<(String, usize)> = vec![("torn-0-bytes".into(), 0), ("torn-inside-header".into(), 200.min(bytes.len().saturating_sub(1)))];
    if bytes.len() > 389 {
        v.push(("torn-at-header-end".into(), 389));
    }
    if let Ok(b) = Block::deserialize_from_net(bytes) {
        let mut off = 389;
        let n = b.transactions.len();
        for (i, tx) in b.transactions.iter().enumerate() {
            let l = tx.serialize_for_net().len();
            // inside the fixed part, inside the slips/message, and exactly at the end of each transaction but the last
            if i < 2 || i + 2 >= n {
                v.push(("torn-inside-tx".into(), off + 10));
                v.push(("torn-inside-tx".into(), off + l / 2 + 40.min(l / 4)));
                if i + 1 < n {
                    v.push(("torn-at-tx-boundary".into(), off + l));
                }
            }
            off += l;
        }
    }
    v.push(("torn-last-byte-missing".into(), bytes.len() - 1));
    v.retain(|(_, c)| *c < bytes.len());
    v.dedup();
    v
}

// ------------------------------------------------------------------------------------------------ the real restart

pub struct RNode {
    pub ct: ConsensusThread,
    pub disk: Arc<Mutex<Disk>>,
    pub cfg: Cfg,
    _rx: (tokio::sync::mpsc::Receiver<RoutingEvent>, tokio::sync::mpsc::Receiver<MiningEvent>, tokio::sync::mpsc::Receiver<String>),
}

/// a fresh node over `files`, brought up by the real `ConsensusThread::on_init`
pub async fn restart_real(files: &Files, cfg: &Cfg, delete_old: bool) -> Result<RNode, String> {
    let disk = Arc::new(Mutex::new(Disk::default()));
    disk.lock().unwrap().files = files.clone();
    let (pk, sk) = key(9);
    let wallet_lock = Arc::new(RwLock::new(Wallet::new(sk, pk)));
    let blockchain_lock = Arc::new(RwLock::new(Blockchain::new(wallet_lock.clone(), cfg.consensus.genesis_period, 0, 60)));
    let mempool_lock = Arc::new(RwLock::new(Mempool::new(wallet_lock.clone())));
    let config_lock: Arc<RwLock<dyn Configuration + Send + Sync>> = Arc::new(RwLock::new(cfg.clone()));
    let (s_router, r_router) = tokio::sync::mpsc::channel::<RoutingEvent>(4096);
    let (s_miner, r_miner) = tokio::sync::mpsc::channel::<MiningEvent>(4096);
    let (s_stat, r_stat) = tokio::sync::mpsc::channel::<String>(4096);
    let timer = Timer { time_reader: Arc::new(Clock), hasten_multiplier: 1, start_time: 0 };
    let peers = Arc::new(RwLock::new(PeerCollection::default()));
    let ct = ConsensusThread {
        mempool_lock: mempool_lock.clone(),
        blockchain_lock: blockchain_lock.clone(),
        wallet_lock: wallet_lock.clone(),
        generate_genesis_block: false,
        sender_to_router: s_router,
        sender_to_miner: s_miner,
        block_producing_timer: 0,
        timer: timer.clone(),
        network: Network::new(Box::new(MemIO { disk: disk.clone() }), peers, wallet_lock.clone(), config_lock.clone(), timer.clone()),
        storage: Storage::new(Box::new(MemIO { disk: disk.clone() })),
        stats: ConsensusStats::new(s_stat.clone()),
        txs_for_mempool: vec![],
        stat_sender: s_stat,
        config_lock,
        produce_blocks_by_timer: false,
        delete_old_blocks: delete_old,
    };
    let mut node = RNode { ct, disk, cfg: cfg.clone(), _rx: (r_router, r_miner, r_stat) };
    guarded_async(ProcessEvent::<ConsensusEvent>::on_init(&mut node.ct)).await?;
    Ok(node)
}

impl RNode {
    pub async fn obs(&self) -> Obs {
        let bc = self.ct.blockchain_lock.read().await;
        observe(&bc, self.cfg.consensus.genesis_period)
    }
    pub fn files(&self) -> Files {
        self.disk.lock().unwrap().files.clone()
    }
    /// the node continues: a child of its tip built by the real `Block::create` against ITS blockchain is offered
    pub async fn extend(&mut self, f: &mut Factory, genesis: &Block) -> (String, Option<Block>) {
        let blockchain_lock = self.ct.blockchain_lock.clone();
        let mempool_lock = self.ct.mempool_lock.clone();
        let mut bc = blockchain_lock.write().await;
        let mut mp = mempool_lock.write().await;
        let tip = bc.get_latest_block().cloned();
        let block = match tip {
            None => genesis.clone(),
            Some(t) => {
                let (pk, sk) = key(2);
                let mut gt = f.golden_ticket_tx(&t, 2);
                gt.generate(&pk, 0, 0);
                let mut map: ahash::AHashMap<SaitoSignature, Transaction> = Default::default();
                let r = guarded_async(Block::create(&mut map, t.hash, &bc, t.timestamp + 2 * HEARTBEAT + 700, &pk, &sk, Some(gt), &self.cfg, &self.ct.storage)).await;
                match r {
                    Ok(Ok(mut b)) => {
                        if b.generate().is_err() {
                            return ("create-failed".into(), None);
                        }
                        b
                    }
                    Ok(Err(_)) => return ("create-failed".into(), None),
                    Err(_) => return ("create-panic".into(), None),
                }
            }
        };
        let r = guarded_async(bc.add_block(block.clone(), &mut self.ct.storage, &mut mp, &self.cfg)).await;
        match r {
            Ok(r) => (add_result_class(&r).to_string(), Some(block)),
            Err(_) => ("panic".into(), Some(block)),
        }
    }
}

// ------------------------------------------------------------------------------------------------ projection for the model

pub struct Proj {
    pub ids: Ids,
}
fn hk(h: &SaitoHash) -> u64 {
    u64::from_be_bytes(h[0..8].try_into().unwrap()) >> 8
}
/// `<ts>:<order-preserving key of the hex hash>` of a block file name
fn name_key(name: &str) -> Option<(u64, u64)> {
    let base = name.rsplit('/').next()?;
    let base = base.strip_suffix(".sai")?;
    let (ts, hx) = base.split_once('-')?;
    let ts: u64 = ts.parse().ok()?;
    let hb = hex::decode(hx).ok()?;
    if hb.len() != 32 {
        return None;
    }
    let mut h = [0u8; 32];
    h.copy_from_slice(&hb);
    Some((ts, hk(&h)))
}
fn list_u32(v: &[u32]) -> String {
    v.iter().map(|x| x.to_string()).collect::<Vec<_>>().join(",")
}
impl Proj {
    pub fn dump_obs(&mut self, res: &str, o: &Obs, files: &Files) -> String {
        let mut utxo: Vec<u32> = o.utxo_all.iter().map(|k| self.ids.k(k)).collect();
        utxo.sort();
        let mut blocks: Vec<u32> = o.blocks.iter().map(|h| self.ids.h(h)).collect();
        blocks.sort();
        format!("res={} tip={}:{} utxo=[{}] blocks=[{}] files=[{}]", res, o.tip.0, self.ids.h(&o.tip.1), list_u32(&utxo), list_u32(&blocks), dump_files(files))
    }
}
pub fn dump_files(files: &Files) -> String {
    let mut v: Vec<(u64, u64, bool)> = files
        .iter()
        .filter(|(n, _)| n.starts_with(BLOCK_DIR) && n.ends_with(".sai"))
        .filter_map(|(n, c)| name_key(n).map(|(t, k)| (t, k, Block::deserialize_from_net(c).is_ok())))
        .collect();
    v.sort();
    v.iter().map(|(t, k, g)| format!("{}:{}:{}", t, k, if *g { "g" } else { "t" })).collect::<Vec<_>>().join(",")
}

// ------------------------------------------------------------------------------------------------ one history: all restarts

fn short(h: &SaitoHash) -> String {
    hex::encode(&h[0..4])
}

/// the harness's own classification of a history (never taken from the model)
pub fn feature(h: &History) -> &'static str {
    if h.has_removes() {
        "history-with-purged-block-files"
    } else if h.has_fork() {
        "history-with-side-branch"
    } else {
        "linear-history"
    }
}

/// were the accepted blocks among the first `upto` delivered in the order in which a restart loads them,
/// i.e. sorted by (block id, file name)? (computed from the history alone)
pub fn delivered_in_loading_order(h: &History, upto: usize) -> bool {
    let acc: Vec<(u64, String)> = h.recs[..upto].iter().filter(|r| r.cls == "added_lc" || r.cls == "added_side").map(|r| (r.block.id, r.block.get_file_name())).collect();
    acc.windows(2).all(|w| w[0] < w[1])
}

/// is there a block off the tip's chain whose height is ≥ the tip's height (a competing branch of at least equal length)?
fn equal_length_competitor(h: &History, upto: usize, tip: &SaitoHash) -> bool {
    let anc: BTreeSet<usize> = h.ancestry(tip).into_iter().collect();
    let tip_id = h.find(tip).map(|i| h.recs[i].block.id).unwrap_or(0);
    (0..upto).any(|i| !anc.contains(&i) && h.recs[i].block.id >= tip_id && h.recs[i].cls != "invalid")
}

pub async fn run_history(hi: usize, spec: &HSpec, seed: u64, thorough: bool, emit: &mut dyn FnMut(&str, &str)) {
    let h = generate(spec, seed).await;
    let gp = spec.gp;
    let feat = feature(&h);
    emit("H", &format!("history:{}", feat));
    emit("H", &format!("history-blocks:{}", h.recs.len()));
    emit("H", &format!("journal-ops:{}", h.journal.len()));
    if let Some(m) = &h.panicked {
        // an honest history that the live node itself cannot digest (observed past the window on the pinned tree)
        emit("H", &format!("live-node-panicked:{}", if m.contains("total supply") { "check_total_supply" } else { "other" }));
    }
    for r in &h.recs {
        emit("H", &format!("live-add:{}", r.cls));
        let atr = r.block.transactions.iter().filter(|t| t.transaction_type == saito_core::core::consensus::transaction::TransactionType::ATR).count();
        if atr > 0 {
            emit("H", "live-block-with-rebroadcast-transactions");
        }
    }
    // durability: once add_block has returned for an accepted block (on the longest chain or stored as a side block), its
    // file is among the completed storage operations — otherwise no restart can rebuild a chain that runs through it
    for (i, r) in h.recs.iter().enumerate() {
        if r.cls != "added_lc" && r.cls != "added_side" {
            continue;
        }
        let name = r.block.get_file_name();
        let upto = h.jlen_after.get(i).copied().unwrap_or(h.journal.len());
        let has = h.journal[..upto.min(h.journal.len())].iter().any(|o| matches!(o, DiskOp::Write(n, _) if n.ends_with(&name)));
        emit("H", if has { "durability:accepted-block-written" } else { "durability:accepted-block-NOT-written" });
        if !has {
            emit("M", &format!("C12/accepted-block-never-written/{}	add_block returned {} for block {} ({}) but no write of its file is among the {} storage operations completed by then	{}",
                r.cls, r.cls, r.block.id, short(&r.block.hash), upto, serde_json::json!({"history": hi, "seed": seed, "spec": show_spec(spec), "rec": i})));
        }
    }
    // purge: once the tip stands at N, no file of a block with id ≤ N − 2·gp is left, whether that block was on the longest chain or not
    if h.has_removes() && h.panicked.is_none() {
        let files = disk_at(&h.journal, h.journal.len());
        let tip_id = h.obs_after.last().map(|o| o.tip.0).unwrap_or(0);
        let mut stale = vec![];
        for (n, c) in files.iter().filter(|(n, _)| n.ends_with(".sai")) {
            if let Ok(b) = Block::deserialize_from_net(c) {
                if b.id + 2 * gp <= tip_id {
                    stale.push((b.id, n.clone()));
                }
            }
        }
        emit("H", if stale.is_empty() { "purge:no-file-below-the-horizon" } else { "purge:FILE-LEFT-BELOW-THE-HORIZON" });
        if !stale.is_empty() {
            emit("M", &format!("C12/purged-block-file-left-behind/{}\tthe tip stands at {} (window 2 x {}), yet the block directory still holds {:?}: a restart loads them first\t{}",
                if h.has_fork() { "history-with-side-branch" } else { "linear-history" }, tip_id, gp, stale, serde_json::json!({"history": hi, "seed": seed, "spec": show_spec(spec)})));
        }
    }
    // the model follows histories without purge only (Model/Chain has no 2·gp purge / rebroadcast)
    let modelled = !h.has_removes() && h.recs.iter().map(|r| r.block.id).max().unwrap_or(0) < gp;
    let mut proj = Proj { ids: Ids::default() };
    let mut fac = Factory::new(seed ^ 0x77, h.cfg.clone());
    let genesis = h.recs[0].block.clone();
    let ctx = serde_json::json!({"history": hi, "seed": seed, "spec": show_spec(spec)});

    emit("S", &format!("reset {} {}", gp, spec.del as u8));
    // the journal, as the model sees it
    let mut written: HashMap<String, usize> = HashMap::new(); // file name -> rec index
    for op in &h.journal {
        match op {
            DiskOp::Write(n, bytes) => {
                if let (Some((ts, k)), Ok(mut b)) = (name_key(n), Block::deserialize_from_net(bytes)) {
                    let _ = b.generate();
                    // consensus values of the header are what the live node's copy holds
                    let idx = h.find(&b.hash);
                    let src = idx.map(|i| h.recs[i].block.clone()).unwrap_or(b);
                    if let Some(i) = idx {
                        written.insert(n.clone(), i);
                    }
                    let onp = validates_without_parent(&src, &Cfg::new(100, HEARTBEAT, 50)).await;
                    emit("S", &format!("w {} {} {}", ts, k, project(&src, true, onp, &mut proj.ids)));
                } else {
                    emit("S", "w-other");
                }
            }
            DiskOp::Remove(n) => match name_key(n) {
                Some((ts, k)) => emit("S", &format!("r {} {}", ts, k)),
                None => emit("S", "r-other"),
            },
        }
    }

    // the write policy against the model's `journalOf`: the blocks as delivered, then the names written, in order
    if modelled && h.panicked.is_none() {
        for r in &h.recs {
            if let Some((ts, k)) = name_key(&r.block.get_file_name()) {
                let onp = validates_without_parent(&r.block, &Cfg::new(100, HEARTBEAT, 50)).await;
                emit("S", &format!("d {} {} {}", ts, k, project(&r.block, true, onp, &mut proj.ids)));
            }
        }
        emit("O", &format!("journal h{}", hi));
        let names: Vec<String> = h.journal.iter().filter_map(|o| match o {
            DiskOp::Write(n, _) => name_key(n).map(|(ts, k)| format!("{}:{}", ts, k)),
            _ => None,
        }).collect();
        emit("I", &format!("writes={}", names.join(",")));
    }

    // ---------------------------------------------------------------- clean restart
    {
        let files = disk_at(&h.journal, h.journal.len());
        let pre = h.obs_after.last().unwrap().clone();
        let op = format!("restart {} 0 clean h{}", h.journal.len(), hi);
        emit("O", &op);
        match restart_real(&files, &h.cfg, spec.del).await {
            Err(m) => {
                emit("I", "res=panic");
                emit("M", &format!("C12/restart-panics/{}\tclean restart panicked: {}\t{}", feat, m.replace(['\t', '\n'], " "), ctx));
            }
            Ok(mut rn) => {
                let o = rn.obs().await;
                emit("I", &if modelled { proj.dump_obs("ok", &o, &rn.files()) } else { "-".to_string() });
                let _ = equal_length_competitor(&h, h.recs.len(), &pre.tip.1);
                let sub = if !delivered_in_loading_order(&h, h.recs.len()) { "delivery-order-differs-from-loading-order" } else { feat };
                if o.tip != pre.tip {
                    emit("M", &format!("C12/restart-differs/tip/{}\ttip before shutdown {}:{} after restart {}:{}\t{}", sub, pre.tip.0, short(&pre.tip.1), o.tip.0, short(&o.tip.1), ctx));
                } else {
                    if o.utxo != pre.utxo {
                        let missing = pre.utxo.difference(&o.utxo).count();
                        let extra = o.utxo.difference(&pre.utxo).count();
                        emit("M", &format!("C12/restart-differs/in-window-utxo/{}\tsame tip, spendable in-window outputs differ: {} missing, {} extra\t{}", feat, missing, extra, ctx));
                    }
                    if o.supply != pre.supply {
                        emit("M", &format!("C12/restart-differs/supply/{}\tsupply before {} after {}\t{}", feat, pre.supply, o.supply, ctx));
                    }
                }
                // every block file present before is still there (nothing inside 2·gp may be deleted by a clean restart)
                let after = rn.files();
                let lost: Vec<&String> = files.keys().filter(|n| !after.contains_key(*n)).collect();
                let purge_id = o.tip.0.saturating_sub(2 * gp);
                // (side-branch blocks were never validated by the live node; a restart may legitimately reject and delete them)
                let lost_live: Vec<&&String> = lost.iter().filter(|n| written.get(**n).map(|i| h.recs[*i].block.id >= purge_id && h.recs[*i].cls == "added_lc").unwrap_or(true)).collect();
                if !lost_live.is_empty() {
                    emit("M", &format!("C12/restart-deletes-block-files/{}\tclean restart deleted {} block files inside the retention window (block ids {:?}, tip {}, live classes {:?})\t{}", sub, lost_live.len(), lost_live.iter().map(|n| written.get(**n).map(|i| h.recs[*i].block.id).unwrap_or(0)).collect::<Vec<_>>(), o.tip.0, lost_live.iter().map(|n| written.get(**n).map(|i| h.recs[*i].cls).unwrap_or("?")).collect::<Vec<_>>(), ctx));
                }
                let (cls, _) = rn.extend(&mut fac, &genesis).await;
                emit("H", &format!("clean-extend:{}", cls));
                if cls != "added_lc" {
                    emit("M", &format!("C12/restart-cannot-extend/{}\tchild of the restarted tip: {}\t{}", feat, cls, ctx));
                }
            }
        }
    }

    // ---------------------------------------------------------------- crash restarts
    // memo of the `absent` restart per prefix (tip), to compare torn against absent
    let n = h.journal.len();
    let ks: Vec<usize> = if thorough || n <= 14 { (0..n).collect() } else {
        // long (purging) histories in the quick tier: every prefix near the ends and around every remove, every 3rd otherwise
        (0..n).filter(|k| *k < 4 || *k + 6 >= n || k % 3 == 0 || matches!(h.journal[*k], DiskOp::Remove(_)) || (*k > 0 && matches!(h.journal[*k - 1], DiskOp::Remove(_)))).collect()
    };
    for k in ks {
        let base = disk_at(&h.journal, k);
        // live state at the crash: after the last block whose ops are all within the first k+1 ops … the interrupted
        // operation belongs to block `cur` (its add_block was running)
        let cur = h.jlen_after.iter().position(|l| *l > k).unwrap_or(h.recs.len() - 1);
        let known: BTreeSet<SaitoHash> = h.recs[..=cur].iter().map(|r| r.block.hash).collect();
        let mut variants: Vec<(String, Files)> = vec![("absent".into(), base.clone())];
        if let DiskOp::Write(name, bytes) = &h.journal[k] {
            if name.ends_with(".sai") {
                for (cls, cut) in torn_cuts(bytes) {
                    let mut f = base.clone();
                    f.insert(name.clone(), bytes[..cut].to_vec());
                    variants.push((cls, f));
                }
            }
        }
        let mut absent_tip: Option<(u64, SaitoHash)> = None;
        let mut absent_blocks: BTreeSet<SaitoHash> = BTreeSet::new();
        for (vi, (cls, files)) in variants.iter().enumerate() {
            let torn = vi > 0;
            let op = format!("restart {} {} {}{} h{}", k, torn as u8, cls, if torn { format!("@{}", files.get(match &h.journal[k] { DiskOp::Write(n, _) => n, DiskOp::Remove(n) => n }).map(|v| v.len()).unwrap_or(0)) } else { String::new() }, hi);
            emit("O", &op);
            emit("H", &format!("crash:{}", cls));
            let cctx = serde_json::json!({"case": ctx, "journal_prefix": k, "last_write": cls, "journal_op": match &h.journal[k] { DiskOp::Write(n, v) => format!("write {} ({} bytes)", n, v.len()), DiskOp::Remove(n) => format!("remove {}", n) }});
            // feature of the crash point: does the torn file sort before a complete file?
            let torn_sorts_before = torn && match &h.journal[k] {
                DiskOp::Write(name, _) => base.keys().any(|n| n.ends_with(".sai") && n > name),
                _ => false,
            };
            let cfeat = if torn_sorts_before { "torn-file-sorts-before-complete-files" } else { feat };
            let mut rn = match restart_real(files, &h.cfg, spec.del).await {
                Err(m) => {
                    emit("I", "res=panic");
                    emit("M", &format!("C12/crash-restart-panics/{}/{}\t{}\t{}", cls, feat, m.replace(['\t', '\n'], " "), cctx));
                    continue;
                }
                Ok(rn) => rn,
            };
            let o = rn.obs().await;
            emit("I", &if modelled { proj.dump_obs("ok", &o, &rn.files()) } else { "-".to_string() });
            if !torn {
                absent_tip = Some(o.tip);
                absent_blocks = o.blocks.clone();
                // 0. with nothing torn the node restarts where the live node stood when its last complete operation finished
                let done = h.jlen_after.iter().filter(|l| **l <= k).count();
                let want = if done == 0 { (0u64, [0u8; 32]) } else { h.obs_after[done - 1].tip };
                if o.tip != want {
                    let of = if !delivered_in_loading_order(&h, done) { "delivery-order-differs-from-loading-order" } else { feat };
                    emit("M", &format!("C12/crash-restart-differs-from-durable-state/tip/{}\tthe live node stood at {}:{} when the first {} operations were complete; restart from them gives {}:{}\t{}",
                        of, want.0, short(&want.1), k, o.tip.0, short(&o.tip.1), cctx));
                }
            }
            // 1. tip ∈ {pre-crash tip} ∪ ancestors ∪ blocks of branches known before the crash (or no tip when nothing is durable)
            let good_files = files.iter().filter(|(n, c)| n.ends_with(".sai") && Block::deserialize_from_net(c).is_ok()).count();
            let tip_ok = if o.tip.1 == [0; 32] { good_files == 0 } else { known.contains(&o.tip.1) };
            if !tip_ok {
                emit("M", &format!("C12/crash-restart-tip-not-allowed/{}\ttip {}:{} with {} complete files\t{}", cfeat, o.tip.0, short(&o.tip.1), good_files, cctx));
            }
            // 2. a torn file must count as an absent one: same tip, same blocks
            if torn {
                if let Some(at) = absent_tip {
                    if at != o.tip || absent_blocks != o.blocks {
                        emit("M", &format!("C12/crash-restart-loses-blocks/{}\twith the interrupted file absent the node restarts at {}:{} with {} blocks, with it torn at {}:{} with {} blocks\t{}",
                            cfeat, at.0, short(&at.1), absent_blocks.len(), o.tip.0, short(&o.tip.1), o.blocks.len(), cctx));
                    }
                }
            }
            // 3. complete block files inside the retention window survive the restart
            let after = rn.files();
            let purge_id = o.tip.0.saturating_sub(2 * gp);
            let deleted_good = files.iter().filter(|(n, c)| n.ends_with(".sai") && !after.contains_key(*n) && Block::deserialize_from_net(c).map(|b| b.id >= purge_id).unwrap_or(false)
                && written.get(*n).map(|i| h.recs[*i].cls == "added_lc").unwrap_or(false)).count();
            if deleted_good > 0 {
                emit("M", &format!("C12/crash-restart-deletes-complete-block-files/{}\t{} complete block files were deleted by the restart\t{}", cfeat, deleted_good, cctx));
            }
            // 4. ledger = the ledger the live node had when it stood at that tip; supply conserved
            if o.tip.1 != [0; 32] {
                let at = (0..=cur).rev().find(|i| h.obs_after[*i].tip == o.tip);
                match at {
                    Some(i) => {
                        let live = &h.obs_after[i];
                        if live.utxo != o.utxo {
                            emit("M", &format!("C12/crash-restart-ledger-differs/{}\tin-window spendable set differs from the live node's at the same tip: {} missing {} extra\t{}",
                                cfeat, live.utxo.difference(&o.utxo).count(), o.utxo.difference(&live.utxo).count(), cctx));
                        }
                        if live.supply != o.supply {
                            emit("M", &format!("C12/crash-restart-supply-differs/{}\tsupply {} at the live node, {} after restart at the same tip\t{}", cfeat, live.supply, o.supply, cctx));
                        }
                    }
                    None => {
                        emit("H", "crash-restart-tip-never-was-a-live-tip");
                        // replay oracle (complete ancestry only)
                        let anc = h.ancestry(&o.tip.1);
                        if anc.last().map(|i| h.recs[*i].parent.is_none() && h.recs[*i].block.id == 1).unwrap_or(false) {
                            let mut u: BTreeSet<SaitoUTXOSetKey> = BTreeSet::new();
                            for i in anc.iter().rev() {
                                let (ins, outs) = block_io_keys(&h.recs[*i].block);
                                for x in ins {
                                    u.remove(&x);
                                }
                                for x in outs {
                                    u.insert(x);
                                }
                            }
                            if modelled && u != o.utxo_all {
                                emit("M", &format!("C12/crash-restart-ledger-differs/{}\tspendable set differs from the replay of the tip's chain\t{}", cfeat, cctx));
                            }
                        }
                    }
                }
            }
            // 5. the node can continue
            let (ecls, eb) = rn.extend(&mut fac, &genesis).await;
            emit("H", &format!("crash-extend:{}", ecls));
            if ecls != "added_lc" {
                emit("M", &format!("C12/crash-restart-cannot-extend/{}/{}\tchild of the restarted tip: {}\t{}", ecls, cfeat, ecls, cctx));
            }
            if modelled {
                if let Some(b) = eb {
                    let eo = rn.obs().await;
                    emit("O", &format!("ext {} h{} k{} v{}", project(&b, true, true, &mut proj.ids), hi, k, vi));
                    emit("I", &format!("res={} tip={}:{}", ecls, eo.tip.0, proj.ids.h(&eo.tip.1)));
                }
            }
        }
    }

    // ---------------------------------------------------------------- crash DURING the restart itself
    // the loading path writes every loaded block file again (add_block_success → write_block_to_disk): a crash there
    // tears a file that was complete. Second-level crash points: the restart's own journal, quick: a sample.
    {
        let files = disk_at(&h.journal, h.journal.len());
        if let Ok(rn) = restart_real(&files, &h.cfg, spec.del).await {
            let pre = rn.obs().await;
            let rj: Vec<DiskOp> = rn.disk.lock().unwrap().journal.clone();
            let rewrites = rj.iter().filter(|o| matches!(o, DiskOp::Write(n, _) if files.contains_key(n))).count();
            emit("H", &format!("restart-rewrites-existing-files:{}", if rewrites > 0 { "yes" } else { "no" }));
            let picks: Vec<usize> = if thorough { (0..rj.len()).collect() } else { vec![0, rj.len() / 2, rj.len().saturating_sub(1)].into_iter().filter(|i| *i < rj.len()).collect::<BTreeSet<_>>().into_iter().collect() };
            for k in picks {
                if let DiskOp::Write(name, bytes) = &rj[k] {
                    if !files.contains_key(name) || bytes.len() < 2 {
                        continue;
                    }
                    let mut f2 = files.clone();
                    for op in &rj[..k] {
                        apply(&mut f2, op);
                    }
                    f2.insert(name.clone(), bytes[..bytes.len() / 2].to_vec());
                    emit("H", "crash-during-restart");
                    emit("O", &format!("rrestart {} 1 torn-rewrite@{} h{}", k, bytes.len() / 2, hi));
                    let cctx = serde_json::json!({"case": ctx, "restart_journal_prefix": k, "op": format!("re-write of {} torn at {} of {} bytes", name, bytes.len() / 2, bytes.len())});
                    match restart_real(&f2, &h.cfg, spec.del).await {
                        Err(m) => {
                            emit("I", "res=panic");
                            emit("M", &format!("C12/crash-during-restart-panics/{}\t{}\t{}", feat, m.replace(['\t', '\n'], " "), cctx))
                        }
                        Ok(rn2) => {
                            let o2 = rn2.obs().await;
                            emit("I", &if modelled { proj.dump_obs("ok", &o2, &rn2.files()) } else { "-".to_string() });
                            if o2.tip != pre.tip {
                                let after = rn2.files();
                                let gone = files.keys().filter(|n| !after.contains_key(*n)).count();
                                emit("M", &format!("C12/crash-during-restart-loses-blocks/rewrite-of-complete-file-torn\tbefore the interrupted restart the node stood at {}:{}, after the next restart at {}:{}; {} of {} block files deleted\t{}",
                                    pre.tip.0, short(&pre.tip.1), o2.tip.0, short(&o2.tip.1), gone, files.len(), cctx));
                            }
                        }
                    }
                }
            }
        }
    }
}

// ------------------------------------------------------------------------------------------------ the list of histories

fn st(parent: i64, dt: u64, gt: bool, tx: bool, creator: u64) -> Step {
    Step { parent, dt, gt, tx, creator }
}

pub fn histories(seed: u64, tier: &str) -> Vec<HSpec> {
    let thorough = tier == "thorough";
    let mut r = Rng::new(seed ^ 0xC12);
    let mut v = vec![];
    let dts = [301u64, 400, 900, 2500];
    // 0. witnesses (always first)
    for w in witnesses() {
        v.push(w);
    }
    // 1. linear
    let nlin = if thorough { 30 } else { 4 };
    for i in 0..nlin {
        let n = r.range(3, if thorough { 12 } else { 7 }) as usize;
        let steps = (0..n).map(|_| st(-1, *r.pick(&dts), r.coin(2, 3), r.coin(2, 3), r.range(1, NKEYS - 1))).collect();
        v.push(HSpec { name: format!("linear-{}", i), gp: 100, prune_after: 50, del: true, steps });
    }
    // 2. forks / reorganisations: a side branch grows from an earlier block, its blocks carry OLDER timestamps than the
    //    main chain's later blocks and are written late
    let nfork = if thorough { 300 } else { 10 };
    for i in 0..nfork {
        let main = r.range(3, if thorough { 7 } else { 5 }) as usize;
        let mut steps: Vec<Step> = (0..main).map(|_| st(-1, *r.pick(&[900u64, 2500]), true, r.coin(1, 2), r.range(1, NKEYS - 1))).collect();
        let fork_at = r.below(main as u64 - 1) as i64; // index of an earlier block (0 = genesis)
        let side = r.range(1, main as u64 + 1 - fork_at as u64) as usize;
        let mut p = fork_at;
        for _ in 0..side {
            steps.push(st(p, 301, true, r.coin(1, 3), r.range(1, NKEYS - 1)));
            p = steps.len() as i64; // the block just specified (rec index = step index + 1)
        }
        // the main chain (whatever it is now) continues
        for _ in 0..r.below(3) {
            steps.push(st(-1, 400, true, r.coin(1, 2), 1));
        }
        v.push(HSpec { name: format!("fork-{}", i), gp: 100, prune_after: 50, del: i % 4 != 3, steps });
    }
    // 3. small window: block files are purged at 2·gp
    let nprune = if thorough { 40 } else { 4 };
    for i in 0..nprune {
        let gp = *r.pick(&[5u64, 6, 8]);
        let n = (2 * gp + r.range(2, 5)) as usize;
        let mut steps: Vec<Step> = (0..n).map(|_| st(-1, *r.pick(&[400u64, 900]), true, r.coin(1, 2), r.range(1, NKEYS - 1))).collect();
        if i % 2 == 1 {
            // a late side block near the tip
            let at = steps.len() as i64 - 2;
            steps.push(st(at, 301, true, false, 2));
        } else {
            // an EARLY side block (a sibling of the fourth block, delivered right after it and stamped later, so that delivery
            // order and loading order agree): it is never adopted and reaches the purge horizon long before the history ends
            steps.insert(3, st(2, 950, true, false, 2));
        }
        v.push(HSpec { name: format!("purge-{}", i), gp, prune_after: gp.max(3) - 1, del: true, steps });
    }
    v
}

/// `hist <name> gp=<n> prune=<n> del=<0|1> steps=<parent>:<dt>:<gt>:<tx>:<creator>,…`
pub fn parse_spec(line: &str) -> Option<HSpec> {
    let t: Vec<&str> = line.split_whitespace().collect();
    if t.len() != 6 || t[0] != "hist" {
        return None;
    }
    let kv = |s: &str, k: &str| s.strip_prefix(k).map(|x| x.to_string());
    let gp: u64 = kv(t[2], "gp=")?.parse().ok()?;
    let prune_after: u64 = kv(t[3], "prune=")?.parse().ok()?;
    let del = kv(t[4], "del=")? == "1";
    let mut steps = vec![];
    for s in kv(t[5], "steps=")?.split(',') {
        let f: Vec<&str> = s.split(':').collect();
        if f.len() != 5 {
            return None;
        }
        steps.push(st(f[0].parse().ok()?, f[1].parse().ok()?, f[2] == "1", f[3] == "1", f[4].parse().ok()?));
    }
    Some(HSpec { name: t[1].to_string(), gp, prune_after, del, steps })
}
pub fn show_spec(h: &HSpec) -> String {
    format!("hist {} gp={} prune={} del={} steps={}", h.name, h.gp, h.prune_after, h.del as u8,
        h.steps.iter().map(|s| format!("{}:{}:{}:{}:{}", s.parent, s.dt, s.gt as u8, s.tx as u8, s.creator)).collect::<Vec<_>>().join(","))
}

/// histories behind the listed findings: corpus/C12/*.ops (the built-in list when the corpus is missing)
pub fn witnesses() -> Vec<HSpec> {
    let mut v = vec![];
    if let Ok(dir) = std::fs::read_dir(format!("{}/corpus/C12", verif_root())) {
        let mut paths: Vec<_> = dir.filter_map(|e| e.ok()).map(|e| e.path()).filter(|p| p.extension().map(|x| x == "ops").unwrap_or(false)).collect();
        paths.sort();
        for p in paths {
            if let Ok(txt) = std::fs::read_to_string(&p) {
                v.extend(txt.lines().filter_map(parse_spec));
            }
        }
    }
    if v.len() >= 2 {
        return v;
    }
    builtin_witnesses()
}

pub fn builtin_witnesses() -> Vec<HSpec> {
    vec![
        // main chain G-A1-A2-A3, then side block B1 (child of G) with a timestamp older than A1's, written last
        HSpec { name: "late-side-block-with-older-timestamp".into(), gp: 100, prune_after: 50, del: true,
            steps: vec![st(-1, 2500, true, true, 1), st(-1, 2500, true, false, 2), st(-1, 2500, true, true, 1), st(0, 301, true, false, 3)] },
        // two branches of equal length; the one delivered second has the older timestamps
        HSpec { name: "equal-length-branches".into(), gp: 100, prune_after: 50, del: true,
            steps: vec![st(-1, 2500, true, true, 1), st(-1, 2500, true, false, 2), st(0, 301, true, false, 3), st(3, 301, true, false, 3)] },
    ]
}

// ------------------------------------------------------------------------------------------------ RustIOHandler::write_value

/// re-issue of the two calls of `RustIOHandler::write_value` (create + write_all) on a temporary directory; the source
/// text of the real function is checked for exactly that shape.
pub fn write_value_pass(out: &mut Out) {
    let src = std::fs::read_to_string("/repo/saito-rust/src/rust_io_handler.rs").unwrap_or_default();
    let body = src.split("async fn write_value").nth(1).map(|s| s.split("async fn ").next().unwrap_or("")).unwrap_or("");
    let shape_ok = body.contains("File::create(filename)") && body.contains("write_all(value)");
    let atomic = body.contains("rename(") || body.contains("persist(");
    let synced = body.contains("sync_all") || body.contains("sync_data");
    out.count(&format!("write_value-source:create+write_all={} rename={} fsync={}", shape_ok as u8, atomic as u8, synced as u8));
    let dir = format!("{}/.cache/c12-tmp-{}", verif_root(), std::process::id());
    let _ = std::fs::remove_dir_all(&dir);
    std::fs::create_dir_all(&dir).unwrap();
    let rt = rt();
    let content: Vec<u8> = (0..1000u32).map(|i| (i % 251) as u8).collect();
    let mut all_prefix = true;
    for cut in [0usize, 1, 200, 389, 390, 999, 1000] {
        let path = format!("{}/blocks/f-{}.sai", dir, cut);
        // an older, longer file of the same name exists (File::create truncates it)
        std::fs::create_dir_all(format!("{}/blocks", dir)).unwrap();
        std::fs::write(&path, vec![0xEEu8; 1500]).unwrap();
        rt.block_on(async {
            use tokio::io::AsyncWriteExt;
            let p = std::path::Path::new(&path);
            if p.parent().is_some() {
                tokio::fs::create_dir_all(p.parent().unwrap()).await.unwrap();
            }
            let mut file = tokio::fs::File::create(&path).await.unwrap();
            // the process dies after `cut` bytes of write_all reached the file
            file.write_all(&content[..cut]).await.unwrap();
            file.flush().await.unwrap();
        });
        let got = std::fs::read(&path).unwrap();
        if got != content[..cut] {
            all_prefix = false;
        }
    }
    let _ = std::fs::remove_dir_all(&dir);
    out.count(&format!("write_value-interrupted-leaves-exact-prefix:{}", all_prefix as u8));
    if !shape_ok || !all_prefix {
        out.monitor_fail("C12/write_value-shape-changed", "RustIOHandler::write_value is no longer create + write_all, or an interrupted write left something other than a prefix", serde_json::json!({"shape_ok": shape_ok, "all_prefix": all_prefix}));
    }
}

// ------------------------------------------------------------------------------------------------ worker / parent

pub fn worker(seed: u64, tier: &str, start: usize) {
    let rt = rt();
    let all = histories(seed, tier);
    let stdout = std::io::stdout();
    for (hi, spec) in all.iter().enumerate() {
        if hi < start {
            continue;
        }
        {
            let mut o = stdout.lock();
            writeln!(o, "C\t{}", hi).unwrap();
            o.flush().unwrap();
        }
        let mut emit = |tag: &str, s: &str| {
            let mut o = stdout.lock();
            writeln!(o, "{}\t{}", tag, s).unwrap();
            o.flush().unwrap();
        };
        rt.block_on(run_history(hi, spec, seed.wrapping_add(hi as u64), tier == "thorough", &mut emit));
    }
    let mut o = stdout.lock();
    writeln!(o, "E\t0").unwrap();
}

/// measure the flags of the tree under test: chain flags by the chain suite's witnesses, `skipbad` by tearing the late
/// side block of the first witness history
pub fn calibrate() -> String {
    let rt = rt();
    let w = &builtin_witnesses()[0];
    let skip = rt.block_on(async {
        let h = generate(w, 99).await;
        let n = h.journal.len();
        let base = disk_at(&h.journal, n - 1);
        let mut torn = base.clone();
        if let DiskOp::Write(name, bytes) = &h.journal[n - 1] {
            torn.insert(name.clone(), bytes[..bytes.len() / 2].to_vec());
        }
        let a = restart_real(&base, &h.cfg, false).await;
        let b = restart_real(&torn, &h.cfg, false).await;
        match (a, b) {
            (Ok(a), Ok(b)) => {
                let rewrites = a.disk.lock().unwrap().journal.iter().any(|o| matches!(o, DiskOp::Write(n, _) if base.contains_key(n)));
                ((a.obs().await.tip == b.obs().await.tip) as u8, !rewrites as u8)
            }
            _ => (0, 0),
        }
    });
    format!("{} skipbad={} norewrite={}", crate::chain::calibrate(), skip.0, skip.1)
}

pub fn run(seed: u64, tier: &str, outdir: &str) {
    let mut out = Out::new(outdir);
    out.setup(&format!("flags {}", calibrate()));
    write_value_pass(&mut out);
    let exe = std::env::current_exe().unwrap();
    let mut start = 0usize;
    let mut stalls = 0;
    'outer: loop {
        let mut child = Command::new(&exe).args(["disk-worker", &seed.to_string(), tier, &start.to_string()]).stdout(Stdio::piped()).stderr(Stdio::null()).spawn().unwrap();
        let stdout = child.stdout.take().unwrap();
        let (tx, rx) = mpsc::channel::<String>();
        std::thread::spawn(move || {
            for l in BufReader::new(stdout).lines() {
                if let Ok(l) = l {
                    if tx.send(l).is_err() {
                        break;
                    }
                }
            }
        });
        let mut cur = start;
        let mut pending_op: Option<String> = None;
        loop {
            match rx.recv_timeout(Duration::from_millis(if pending_op.is_some() { 20000 } else { 120000 })) {
                Ok(l) => {
                    let (tag, rest) = l.split_once('\t').unwrap_or((&l, ""));
                    match tag {
                        "C" => cur = rest.parse().unwrap_or(cur),
                        "S" => out.setup(rest),
                        "O" => pending_op = Some(rest.to_string()),
                        "I" => {
                            if let Some(op) = pending_op.take() {
                                if rest == "-" {
                                    out.count("restart-not-sent-to-model(purging-history)");
                                } else {
                                    out.case(&op, rest);
                                }
                            }
                        }
                        "H" => out.count(rest),
                        "M" => {
                            let p: Vec<&str> = rest.splitn(3, '\t').collect();
                            if p.len() == 3 {
                                out.monitor_fail(p[0], p[1], serde_json::from_str(p[2]).unwrap_or(serde_json::Value::Null));
                            }
                        }
                        "E" => {
                            let _ = child.wait();
                            break 'outer;
                        }
                        _ => {}
                    }
                }
                Err(_) => {
                    let _ = child.kill();
                    let _ = child.wait();
                    if let Some(op) = pending_op.take() {
                        out.monitor_fail("C12/restart-does-not-return", "the loading path did not return within 20 s", serde_json::json!({"history": cur, "seed": seed, "tier": tier, "op": op}));
                        stalls += 1;
                    } else {
                        out.count("worker-died-outside-restart");
                    }
                    start = cur + 1;
                    if stalls > 10 {
                        break 'outer;
                    }
                    continue 'outer;
                }
            }
        }
    }
    out.finish(serde_json::json!({"stalls": stalls}));
}

/// `harness disk-probe <seed> <tier> x`: human-readable trace of every history (development aid, also used by --replay)
pub fn probe(seed: u64, tier: &str) {
    let rt = rt();
    for (hi, spec) in histories(seed, tier).iter().enumerate() {
        println!("== history {} {} gp={} steps={}", hi, spec.name, spec.gp, spec.steps.len());
        let mut emit = |tag: &str, s: &str| {
            if tag == "M" || tag == "O" || tag == "I" || std::env::var("VERIF_ALL").is_ok() {
                let mut s = s.to_string();
                if s.len() > 600 {
                    s.truncate(600);
                }
                println!("{} {}", tag, s);
            }
        };
        rt.block_on(run_history(hi, spec, seed.wrapping_add(hi as u64), tier == "thorough", &mut emit));
    }
}

/// `harness disk-one <seed> "<hist line>" x`: re-run one recorded history (all its restarts) and print what the monitors see
pub fn one(seed: u64, spec_line: &str) {
    let spec = match parse_spec(spec_line) {
        Some(s) => s,
        None => {
            println!("cannot parse history: {}", spec_line);
            return;
        }
    };
    let rt = rt();
    println!("flags of the tree under test: {}", calibrate());
    let mut n = 0usize;
    let mut emit = |tag: &str, s: &str| {
        if tag == "M" {
            n += 1;
            let mut s = s.to_string();
            if s.len() > 700 {
                s.truncate(700);
            }
            println!("implementation: {}", s);
        }
    };
    rt.block_on(run_history(0, &spec, seed, true, &mut emit));
    println!("{} monitor failures on this history", n);
}

#[allow(dead_code)]
fn _unused(_: BlockType) {}
