//! C14 correspondence: the real `Mempool` (add_transaction_if_validates / add_transaction / bundle_block) and the
//! real `Blockchain::add_block` (remove_block_transactions / add_block_transactions_back) on a real node, with
//! real signed transactions from several keys over a real chain, against the Lean pool model
//! (lean/Saito/Model/Mempool.lean + the chain model for the ledger).
//!
//! How the node's consensus thread is mirrored (consensus_thread.rs:178-262): a transaction from a peer is handed
//! to `Mempool::add_transaction_if_validates`; a local bundle is the real `Mempool::bundle_block` (its own
//! `can_bundle_block` gate is passed by choosing timestamps: +12 s needs no routing work, +6 s needs work, +1 ms is
//! blocked by the jitter rule) and, when it returns a block, that block is handed to the real
//! `Blockchain::add_block` exactly as `add_blocks_from_mempool` does (the queue in between is skipped).
use crate::chain::{project, Ids};
use crate::common::*;
use crate::node::*;
use saito_core::core::consensus::block::Block;
use saito_core::core::consensus::burnfee::BurnFee;
use saito_core::core::consensus::mempool::Mempool;
use saito_core::core::consensus::slip::{Slip, SlipType};
use saito_core::core::consensus::transaction::{Transaction, TransactionType};
use saito_core::core::defs::{SaitoHash, SaitoSignature, SaitoUTXOSetKey};
use saito_core::core::util::crypto::hash;
use std::collections::{BTreeSet, HashMap, HashSet};

pub const GP: u64 = 100;
pub const HB: u64 = 5000;
pub const DT_LATE: u64 = 12_000;
pub const DT_EARLY: u64 = 6_000;
pub const ME: u64 = 9;
pub const NKEYS: u64 = 4;

#[derive(Clone, Copy, Debug, PartialEq, Eq, Hash)]
pub enum K {
    A1, A2, AZ, AC, AD, AS, AR, AI, AB, AG, AA, AP, AF, A0, AM, AN,
    BL, BE, BJ, BS,
    PC, PX, PU, SC, SX, RO,
    FO, FF, FP, FB,
}
pub const ALL: [(K, &str); 30] = [
    (K::A1, "a1"), (K::A2, "a2"), (K::AZ, "az"), (K::AC, "ac"), (K::AD, "ad"), (K::AS, "as"), (K::AR, "ar"),
    (K::AI, "ai"), (K::AB, "ab"), (K::AG, "ag"), (K::AA, "aa"), (K::AP, "ap"), (K::AF, "af"), (K::A0, "a0"), (K::AM, "am"), (K::AN, "an"),
    (K::BL, "bl"), (K::BE, "be"), (K::BJ, "bj"), (K::BS, "bs"),
    (K::PC, "pc"), (K::PX, "px"), (K::PU, "pu"), (K::SC, "sc"), (K::SX, "sx"), (K::RO, "ro"),
    (K::FO, "fo"), (K::FF, "ff"), (K::FP, "fp"), (K::FB, "fb"),
];
pub fn kname(k: K) -> &'static str {
    ALL.iter().find(|x| x.0 == k).unwrap().1
}
pub fn kparse(s: &str) -> Option<K> {
    ALL.iter().find(|x| x.1 == s).map(|x| x.0)
}

pub struct World {
    /// the free input of the last transaction that was offered with one free and one already-pooled input (op `am`)
    pub last_free_of_mixed: Option<Utxo>,
    pub f: Factory,
    pub node: Node,
    pub ids: Ids,
    pub txs: Vec<Transaction>,
    pub txid: HashMap<SaitoSignature, u32>,
    /// every value output of every accepted block whose owner is one of the user keys
    pub outs: Vec<Utxo>,
    pub blocks: HashMap<SaitoHash, Block>,
    /// harness-side ledger per block: spendable keys after that block on its own branch
    pub after: HashMap<SaitoHash, HashSet<SaitoUTXOSetKey>>,
    /// side blocks (accepted, not on the longest chain) most recent last
    pub sides: Vec<SaitoHash>,
    pub nonce: u32,
    // features of the history, computed from the harness' own observations of the implementation
    pub h_readded: bool,
    pub h_dupin: bool,
    pub h_removed: bool,
    pub ended: bool,
    pub seq: Vec<String>,
    pub case: String,
    pub seed: u64,
}

type PoolSnap = (Vec<u32>, Vec<u32>, u64, bool);

fn list(v: &[u32]) -> String {
    v.iter().map(|x| x.to_string()).collect::<Vec<_>>().join(",")
}

impl World {
    pub async fn new(seed: u64, out: &mut Out, case: &str) -> World {
        let cfg = Cfg::new(GP, HB, 50);
        let mut f = Factory::new(seed, cfg.clone());
        let node = Node::new(ME, cfg);
        let mut issue = vec![];
        for i in 0..30u64 {
            issue.push((1 + i % 3, 1_000_000 + 1000 * i));
        }
        let genesis = f.make_genesis(&issue).await;
        f.remember(&genesis);
        let mut w = World {
            last_free_of_mixed: None,
            f,
            node,
            ids: Ids::default(),
            txs: vec![],
            txid: HashMap::new(),
            outs: vec![],
            blocks: HashMap::new(),
            after: HashMap::new(),
            sides: vec![],
            nonce: 0,
            h_readded: false,
            h_dupin: false,
            h_removed: false,
            ended: false,
            seq: vec![],
            case: case.to_string(),
            seed,
        };
        out.setup(&format!("reset {}", GP));
        w.deliver(out, genesis, true, "genesis").await;
        w
    }

    fn feat(&self) -> &'static str {
        if self.h_readded {
            "after-own-block-rejected"
        } else if self.h_dupin {
            "after-repeated-input-transaction-pooled"
        } else if self.h_removed {
            "after-block-removed-pooled-transaction"
        } else {
            "clean-history"
        }
    }

    fn replay_json(&self) -> serde_json::Value {
        serde_json::json!({"suite": "pool", "case": self.case, "seed": self.seed, "ops": self.seq})
    }

    /// register a transaction with the model (once): id, type, validity oracle, work, inputs
    pub fn reg(&mut self, out: &mut Out, tx: &Transaction) -> u32 {
        if let Some(i) = self.txid.get(&tx.signature) {
            return *i;
        }
        let id = self.txs.len() as u32 + 1;
        let mut t = tx.clone();
        t.generate(&self.node.pk, 0, 0);
        let work = t.total_work_for_me;
        // every check of Transaction::validate except the ledger lookup (signature, routing path, out <= in, ...)
        let bc = &self.node.blockchain;
        let ok = guarded(|| t.validate(&bc.utxoset, bc, false)).unwrap_or(false);
        let typ = match t.transaction_type {
            TransactionType::Normal => "n",
            TransactionType::Issuance => "i",
            TransactionType::GoldenTicket => "g",
            _ => "o",
        };
        let ins: Vec<String> =
            t.from.iter().map(|s| format!("{}:{}", self.ids.k(&s.utxoset_key), (s.amount > 0) as u8)).collect();
        out.setup(&format!("deftx {} {} {} {} {}", id, typ, ok as u8, work, if ins.is_empty() { "-".to_string() } else { ins.join(",") }));
        self.txs.push(tx.clone());
        self.txid.insert(tx.signature, id);
        id
    }

    pub fn pool_snap(&mut self) -> PoolSnap {
        let mp = &self.node.mempool;
        let mut p: Vec<u32> = mp.transactions.keys().map(|s| *self.txid.get(s).unwrap_or(&0)).collect();
        p.sort();
        let keys: Vec<SaitoUTXOSetKey> = mp.utxo_map.keys().cloned().collect();
        let mut r: Vec<u32> = keys.iter().map(|k| self.ids.k(k)).collect();
        r.sort();
        (p, r, self.node.mempool.get_routing_work_available(), self.node.mempool.new_tx_added)
    }

    fn dump(s: &PoolSnap) -> String {
        format!("pool=[{}] resv=[{}] work={} new={}", list(&s.0), list(&s.1), s.2, s.3 as u8)
    }

    fn tip(&self) -> Block {
        self.node.blockchain.get_latest_block().unwrap().clone()
    }

    fn pool_inputs(&self) -> HashSet<SaitoUTXOSetKey> {
        self.node.mempool.transactions.values().flat_map(|t| t.from.iter().map(|s| s.utxoset_key)).collect()
    }

    /// outputs spendable at `at` (harness ledger), owned by a user key, and not used by a pooled transaction
    fn free_at(&self, at: &SaitoHash) -> Vec<Utxo> {
        let used = self.pool_inputs();
        let led = &self.after[at];
        self.outs.iter().filter(|u| led.contains(&u.slip.utxoset_key) && !used.contains(&u.slip.utxoset_key)).cloned().collect()
    }

    fn mk(&mut self, inputs: Vec<Utxo>, fee: u64, routed: bool) -> Transaction {
        self.nonce += 1;
        let total: u64 = inputs.iter().map(|u| u.slip.amount).sum();
        let owner = inputs[0].owner;
        let to = 1 + (self.nonce as u64 % 3);
        let fee = fee.min(total - 1);
        let mut tx = self.f.make_tx(&TxSpec { inputs, outputs: vec![(to, total - fee)], data: self.nonce.to_be_bytes().to_vec() });
        if routed {
            let (pk, sk) = key(owner);
            tx.add_hop(&sk, &pk, &self.node.pk);
        }
        tx
    }

    fn fee(r: &mut Rng) -> u64 {
        *r.pick(&[0u64, 0, 3000, 9000, 40_000])
    }

    // ------------------------------------------------------------------ monitors (implementation only)
    async fn monitors(&mut self, out: &mut Out, r: &mut Rng) {
        let feat = self.feat();
        let rj = self.replay_json();
        let bc = &self.node.blockchain;
        let mp = &self.node.mempool;
        // no two pooled transactions spend the same value input
        let mut seen: HashMap<SaitoUTXOSetKey, SaitoSignature> = HashMap::new();
        let mut shared = false;
        for (sig, tx) in mp.transactions.iter() {
            let mine: BTreeSet<SaitoUTXOSetKey> = tx.from.iter().filter(|s| s.amount > 0).map(|s| s.utxoset_key).collect();
            for k in mine {
                if let Some(other) = seen.insert(k, *sig) {
                    if other != *sig {
                        shared = true;
                    }
                }
            }
        }
        if shared {
            out.monitor_fail(&format!("C14/pooled-transactions-share-input/{}", feat), "two pooled transactions spend the same output", rj.clone());
        }
        // every pooled transaction is valid against the ledger
        if mp.transactions.values().any(|t| !t.validate_against_utxoset(&bc.utxoset)) {
            out.monitor_fail(&format!("C14/pooled-transaction-invalid/{}", feat), "a pooled transaction spends an output that is not spendable", rj.clone());
        }
        // reservations = inputs of pooled transactions
        let used = self.pool_inputs();
        if mp.utxo_map.keys().any(|k| !used.contains(k)) {
            out.monitor_fail(&format!("C14/stale-reservation/{}", feat), "utxo_map holds a key that no pooled transaction spends", rj.clone());
        }
        if used.iter().any(|k| !mp.utxo_map.contains_key(k)) {
            out.monitor_fail(&format!("C14/missing-reservation/{}", feat), "an input of a pooled transaction is not reserved in utxo_map", rj.clone());
        }
        // work counter
        let sum: u64 = mp.transactions.values().map(|t| t.total_work_for_me).sum();
        if sum != mp.get_routing_work_available() {
            out.monitor_fail(&format!("C14/work-counter-differs/{}", feat), &format!("routing_work_in_mempool {} but pooled transactions carry {}", mp.get_routing_work_available(), sum), rj.clone());
        }
        // an unspent output that no pooled transaction spends can be spent by a new valid transaction:
        // probe on a copy of the pool (outputs some registered transaction ever touched, plus two others)
        let tip = self.tip().hash;
        let free = self.free_at(&tip);
        let touched: HashSet<SaitoUTXOSetKey> = self.txs.iter().flat_map(|t| t.from.iter().map(|s| s.utxoset_key)).collect();
        let mut probes: Vec<Utxo> = free.iter().filter(|u| touched.contains(&u.slip.utxoset_key)).cloned().collect();
        for _ in 0..2 {
            if !free.is_empty() {
                probes.push(r.pick(&free).clone());
            }
        }
        for u in probes {
            if self.node.blockchain.utxoset.get(&u.slip.utxoset_key) != Some(&true) {
                continue; // the node's own ledger does not list it (C03's business)
            }
            let tx = self.mk(vec![u.clone()], 0, false);
            let mut m2 = Mempool::new(self.node.wallet_lock.clone());
            m2.transactions = self.node.mempool.transactions.clone();
            m2.utxo_map = self.node.mempool.utxo_map.clone();
            m2.new_tx_added = self.node.mempool.new_tx_added;
            let sig = tx.signature;
            let _ = guarded_async(m2.add_transaction_if_validates(tx, &self.node.blockchain)).await;
            out.count("probe");
            if !m2.transactions.contains_key(&sig) {
                out.monitor_fail(
                    &format!("C14/spendable-output-refused/{}", feat),
                    &format!("output k{} is unspent and no pooled transaction spends it, yet a fresh valid transaction spending it is refused", self.ids.k(&u.slip.utxoset_key)),
                    rj.clone(),
                );
                break;
            }
        }
    }

    // ------------------------------------------------------------------ block delivery (any block → add_block)
    pub async fn deliver(&mut self, out: &mut Out, b: Block, honest: bool, label: &str) -> &'static str {
        let mine = b.creator == self.node.pk;
        let mut tids = vec![];
        for tx in &b.transactions {
            if matches!(tx.transaction_type, TransactionType::Normal | TransactionType::Issuance) && b.id > 1 {
                tids.push(self.reg(out, tx));
            }
        }
        let line = project(&b, honest, true, &mut self.ids);
        let need = match self.blocks.get(&b.previous_block_hash) {
            Some(p) => BurnFee::return_routing_work_needed_to_produce_block_in_nolan(p.burnfee, b.timestamp, p.timestamp, HB),
            None => 0,
        };
        let line = format!("blk {} {} {} {}", &line[4..], mine as u8, if tids.is_empty() { "-".to_string() } else { list(&tids) }, need);
        let before = self.pool_snap();
        let r = guarded_async(self.node.add_block(b.clone())).await;
        let cls = match &r {
            Ok(r) => add_result_class(r),
            Err(_) => "panic",
        };
        out.count(&format!("block:{}:{}", label, cls));
        if cls == "panic" {
            out.case(&line, "res=panic");
            self.ended = true;
            return cls;
        }
        let after = self.pool_snap();
        let mut utxo: Vec<u32> = {
            let ks: Vec<SaitoUTXOSetKey> = self.node.blockchain.utxoset.iter().filter(|(_, v)| **v).map(|(k, _)| *k).collect();
            ks.iter().map(|k| self.ids.k(k)).collect()
        };
        utxo.sort();
        out.case(&line, &format!("res={} utxo=[{}] {}", cls, list(&utxo), World::dump(&after)));
        // harness bookkeeping
        if cls == "added_lc" || cls == "added_side" {
            self.f.remember(&b);
            let mut led = if b.previous_block_hash == [0; 32] { HashSet::new() } else { self.after[&b.previous_block_hash].clone() };
            let (ins, outs) = block_io_keys(&b);
            for k in ins {
                led.remove(&k);
            }
            for k in outs {
                led.insert(k);
            }
            self.after.insert(b.hash, led);
            self.outs.extend(outputs_of(&b, &owner_lookup(NKEYS)));
            self.blocks.insert(b.hash, b.clone());
            if cls == "added_side" {
                self.sides.push(b.hash);
            }
            if before.0.iter().any(|t| !after.0.contains(t)) {
                self.h_removed = true;
            }
        }
        if cls == "invalid" && mine {
            self.h_readded = true;
        }
        cls
    }

    // ------------------------------------------------------------------ arrivals
    pub async fn arrive(&mut self, out: &mut Out, tx: Transaction, label: &str) {
        let id = self.reg(out, &tx);
        let sig = tx.signature;
        let was = self.node.mempool.transactions.contains_key(&sig);
        let repeated = {
            let v: Vec<SaitoUTXOSetKey> = tx.from.iter().filter(|s| s.amount > 0).map(|s| s.utxoset_key).collect();
            v.iter().collect::<HashSet<_>>().len() != v.len()
        };
        let r = guarded_async(self.node.mempool.add_transaction_if_validates(tx, &self.node.blockchain)).await;
        let now = self.node.mempool.transactions.contains_key(&sig);
        let cls = if r.is_err() {
            "panic"
        } else if was {
            "present"
        } else if now {
            "added"
        } else {
            "refused"
        };
        out.count(&format!("arrive:{}:{}", label, cls));
        if cls == "panic" {
            out.case(&format!("arrive {}", id), "res=panic");
            self.ended = true;
            return;
        }
        if now && repeated {
            self.h_dupin = true;
        }
        let s = self.pool_snap();
        out.case(&format!("arrive {}", id), &format!("res={} {}", cls, World::dump(&s)));
    }

    // ------------------------------------------------------------------ local bundle (+ add, as the consensus thread does)
    pub async fn bundle(&mut self, out: &mut Out, dt: u64, label: &str, tamper: bool) {
        let tip = self.tip();
        let ts = tip.timestamp + dt;
        let gt = if !tip.has_golden_ticket {
            let mut g = self.f.golden_ticket_tx(&tip, 1);
            g.generate(&self.node.pk, 0, 0);
            Some(g)
        } else {
            None
        };
        // the timing / work / ticket gates of can_bundle_block, evaluated with the repo's own public functions
        let ts_ok = ts > tip.timestamp;
        let jitter = {
            let mut h: Vec<u8> = self.node.pk.to_vec();
            h.extend_from_slice(&tip.hash);
            let h = hash(&h);
            let low = u128::from_be_bytes(h[16..32].try_into().unwrap());
            let value = (low % 5000) as u64;
            ts >= tip.timestamp + value
        };
        let g = self.node.blockchain.is_golden_ticket_count_valid(tip.hash, gt.is_some(), false, false);
        let need = BurnFee::return_routing_work_needed_to_produce_block_in_nolan(tip.burnfee, ts, tip.timestamp, HB);
        let line = format!("bundle {} {} {} {}", ts_ok as u8, jitter as u8, g as u8, need);
        out.count(&format!(
            "gate:{}",
            if !ts_ok { "stale-timestamp" } else if !jitter { "jitter" } else if !g { "tickets" } else if need > self.node.mempool.get_routing_work_available() { "work-short" } else if need > 0 { "work-enough" } else { "no-work-needed" }
        ));
        let before = self.pool_snap();
        let had_issuance = self.node.mempool.transactions.values().any(|t| t.transaction_type == TransactionType::Issuance);
        let r = guarded_async(self.node.mempool.bundle_block(&self.node.blockchain, ts, gt, &self.node.cfg, &self.node.storage)).await;
        let after = self.pool_snap();
        let feat = self.feat();
        let rj = self.replay_json();
        match r {
            Err(_) => {
                out.count(&format!("bundle:{}:panic", label));
                out.case(&line, &format!("res=panic {}", World::dump(&after)));
                if before != after {
                    out.monitor_fail(&format!("C14/bundle-panic-changed-pool/{}", feat), "bundle_block panicked and the pool differs", rj);
                }
            }
            Ok(None) => {
                out.count(&format!("bundle:{}:none", label));
                out.case(&line, &format!("res=none {}", World::dump(&after)));
                if before.0 != after.0 {
                    out.monitor_fail(
                        &format!("C14/bundle-lost-transactions/{}", feat),
                        &format!("bundle_block returned no block but the pool went from {:?} to {:?}", before.0, after.0),
                        rj,
                    );
                }
            }
            Ok(Some(b)) => {
                out.count(&format!("bundle:{}:some", label));
                let mut tids: Vec<u32> = b.transactions.iter().filter_map(|t| self.txid.get(&t.signature).cloned()).collect();
                tids.sort();
                out.case(&line, &format!("res=some txs=[{}] {}", list(&tids), World::dump(&after)));
                // exactly the bundled transactions left the pool, and they came from the pool
                let gone: Vec<u32> = before.0.iter().filter(|t| !after.0.contains(t)).cloned().collect();
                if gone != tids || tids.iter().any(|t| !before.0.contains(t)) || after.0.iter().any(|t| !before.0.contains(t)) {
                    out.monitor_fail(&format!("C14/bundle-removed-other-than-bundled/{}", feat), &format!("pool {:?} -> {:?}, block carries {:?}", before.0, after.0, tids), rj.clone());
                }
                if tamper {
                    // the node's own block is rejected by its own add_block (here: header tampered and re-signed with
                    // the node's key; the all-real route is an issuance-typed transaction in the pool)
                    let mut b = b;
                    b.difficulty += 7;
                    self.f.resign(&mut b, ME);
                    if b.generate().is_ok() {
                        self.deliver(out, b, false, "own-tampered").await;
                    }
                    return;
                }
                let cls = self.deliver(out, b, true, "own").await;
                if cls != "added_lc" && cls != "panic" {
                    let f2 = if had_issuance { "pool-holds-issuance-transaction" } else { feat };
                    out.monitor_fail(&format!("C14/bundle-yields-invalid-block/{}", f2), &format!("the node's own add_block answered {} to the block it just bundled", cls), rj);
                }
            }
        }
    }

    // ------------------------------------------------------------------ blocks from peers / forks / failed adds
    /// build a block on `parent` with the given transactions (a ticket is added when the parent carries none;
    /// when there is neither, a filler transaction on a free output is added)
    async fn build(&mut self, parent: &Block, creator: u64, mut txs: Vec<Transaction>, r: &mut Rng) -> Option<Block> {
        let gt = if !parent.has_golden_ticket { Some(self.f.golden_ticket_tx(parent, creator.min(3).max(1))) } else { None };
        if gt.is_none() && txs.is_empty() {
            let free = self.free_at(&parent.hash);
            let spent: HashSet<SaitoUTXOSetKey> = HashSet::new();
            let cand: Vec<Utxo> = free.into_iter().filter(|u| !spent.contains(&u.slip.utxoset_key)).collect();
            if cand.is_empty() {
                return None;
            }
            let u = r.pick(&cand).clone();
            txs.push(self.mk(vec![u], 0, false));
        }
        self.f.make_block(parent.hash, parent.timestamp + DT_LATE, creator, txs, gt).await.ok()
    }

    fn pooled(&self) -> Vec<Transaction> {
        let mut v: Vec<Transaction> = self.node.mempool.transactions.values().cloned().collect();
        v.sort_by_key(|t| self.txid.get(&t.signature).cloned().unwrap_or(0));
        v
    }

    /// pooled normal transactions all of whose value inputs are spendable at `at`
    fn pooled_valid_at(&self, at: &SaitoHash) -> Vec<Transaction> {
        let led = &self.after[at];
        self.pooled()
            .into_iter()
            .filter(|t| t.transaction_type == TransactionType::Normal && t.from.iter().all(|s| s.amount == 0 || led.contains(&s.utxoset_key)))
            .filter(|t| {
                let v: Vec<SaitoUTXOSetKey> = t.from.iter().filter(|s| s.amount > 0).map(|s| s.utxoset_key).collect();
                v.iter().collect::<HashSet<_>>().len() == v.len()
            })
            .collect()
    }

    /// a fresh transaction spending one value input of a pooled transaction (valid at `at`)
    fn conflicting(&mut self, at: &SaitoHash, r: &mut Rng) -> Option<Transaction> {
        let led = self.after[at].clone();
        let mut cand: Vec<Utxo> = vec![];
        for t in self.pooled() {
            for s in t.from.iter().filter(|s| s.amount > 0 && led.contains(&s.utxoset_key)) {
                if let Some(u) = self.outs.iter().find(|u| u.slip.utxoset_key == s.utxoset_key) {
                    cand.push(u.clone());
                }
            }
        }
        if cand.is_empty() {
            return None;
        }
        let u = r.pick(&cand).clone();
        Some(self.mk(vec![u], 0, false))
    }

    pub async fn apply(&mut self, out: &mut Out, k: K, r: &mut Rng) {
        if self.ended {
            return;
        }
        self.seq.push(kname(k).to_string());
        out.count(&format!("op:{}", kname(k)));
        let tip = self.tip();
        let free = self.free_at(&tip.hash);
        match k {
            K::A1 | K::A2 | K::AZ | K::AA | K::AB | K::AF | K::A0 => {
                let n = if k == K::A2 { 2 } else { 1 };
                if free.len() < n {
                    return;
                }
                let mut inputs = vec![];
                let mut pool = free.clone();
                // a 2-input transaction is signed by the first input's owner: take both from one owner
                let first = pool.remove(r.below(pool.len() as u64) as usize);
                inputs.push(first.clone());
                if n == 2 {
                    let same: Vec<Utxo> = pool.iter().filter(|u| u.owner == first.owner).cloned().collect();
                    if same.is_empty() {
                        return;
                    }
                    inputs.push(r.pick(&same).clone());
                }
                if k == K::AA {
                    inputs.push(first.clone());
                }
                if k == K::AZ {
                    let mut z = Slip::default();
                    z.public_key = key(first.owner).0;
                    z.amount = 0;
                    z.slip_type = SlipType::Normal;
                    z.slip_index = 7;
                    inputs.push(Utxo { slip: z, owner: first.owner });
                }
                let (fee, routed) = match k {
                    K::AF => (40_000, true),
                    K::A0 => (0, false),
                    _ => (World::fee(r), r.coin(2, 3)),
                };
                let mut tx = self.mk(inputs, fee, routed);
                if k == K::AB {
                    tx.signature[5] ^= 0x40;
                }
                self.arrive(out, tx, kname(k)).await;
            }
            K::AM => {
                // two value-carrying inputs of one owner: one free, one that a pooled transaction spends already (either order)
                let led = self.after[&tip.hash].clone();
                let mut pairs: Vec<(Utxo, Utxo)> = vec![];
                for t in self.pooled() {
                    for sl in t.from.iter().filter(|sl| sl.amount > 0 && led.contains(&sl.utxoset_key)) {
                        if let Some(b) = self.outs.iter().find(|u| u.slip.utxoset_key == sl.utxoset_key) {
                            for a in free.iter().filter(|a| a.owner == b.owner) {
                                pairs.push((a.clone(), b.clone()));
                            }
                        }
                    }
                }
                if pairs.is_empty() {
                    return;
                }
                let (a, b) = r.pick(&pairs).clone();
                self.last_free_of_mixed = Some(a.clone());
                let inputs = if r.coin(2, 3) { vec![a, b] } else { vec![b, a] };
                let tx = self.mk(inputs, World::fee(r), r.coin(1, 2));
                self.arrive(out, tx, "am").await;
            }
            K::AN => {
                // a plain spend of that free input alone
                let Some(a) = self.last_free_of_mixed.clone() else { return };
                if !free.iter().any(|u| u.slip.utxoset_key == a.slip.utxoset_key) {
                    return;
                }
                let tx = self.mk(vec![a], World::fee(r), r.coin(1, 2));
                self.arrive(out, tx, "an").await;
            }
            K::AC => match self.conflicting(&tip.hash, r) {
                Some(tx) => self.arrive(out, tx, "ac").await,
                None => return,
            },
            K::AD => {
                let p = self.pooled();
                if p.is_empty() {
                    return;
                }
                let tx = self.txs[(self.txid[&r.pick(&p).signature] - 1) as usize].clone();
                self.arrive(out, tx, "ad").await;
            }
            K::AS => {
                // an output that existed and is spent on the node's chain
                let led = &self.after[&tip.hash];
                let spent: Vec<Utxo> = self.outs.iter().filter(|u| !led.contains(&u.slip.utxoset_key)).cloned().collect();
                if spent.is_empty() {
                    return;
                }
                let u = r.pick(&spent).clone();
                let tx = self.mk(vec![u], 0, false);
                self.arrive(out, tx, "as").await;
            }
            K::AR => {
                // re-offer a transaction that was offered before and is not pooled now
                let cand: Vec<Transaction> = self
                    .txs
                    .iter()
                    .filter(|t| t.transaction_type == TransactionType::Normal && !self.node.mempool.transactions.contains_key(&t.signature))
                    .cloned()
                    .collect();
                if cand.is_empty() {
                    return;
                }
                let tx = r.pick(&cand).clone();
                self.arrive(out, tx, "ar").await;
            }
            K::AI => {
                self.nonce += 1;
                let mut tx = Transaction::create_issuance_transaction(key(2).0, 777 + self.nonce as u64);
                tx.timestamp = self.nonce as u64;
                tx.sign(&key(2).1);
                self.arrive(out, tx, "ai").await;
            }
            K::AG => {
                let g = self.f.golden_ticket_tx(&tip, 2);
                self.arrive(out, g, "ag").await;
            }
            K::AP => {
                // an unspent output that is still reserved although no pooled transaction spends it (if any)
                let used = self.pool_inputs();
                let cand: Vec<Utxo> = free
                    .iter()
                    .filter(|u| self.node.mempool.utxo_map.contains_key(&u.slip.utxoset_key) && !used.contains(&u.slip.utxoset_key))
                    .cloned()
                    .collect();
                let u = if cand.is_empty() {
                    if free.is_empty() {
                        return;
                    }
                    r.pick(&free).clone()
                } else {
                    r.pick(&cand).clone()
                };
                let tx = self.mk(vec![u], 0, false);
                self.arrive(out, tx, "ap").await;
            }
            K::BL => self.bundle(out, DT_LATE, "late", false).await,
            K::FB => self.bundle(out, DT_LATE, "late-then-rejected", true).await,
            K::BE => self.bundle(out, DT_EARLY, "early", false).await,
            K::BJ => self.bundle(out, 1, "jitter", false).await,
            K::BS => self.bundle(out, 0, "stale", false).await,
            K::PC | K::PX | K::PU => {
                let mut txs = vec![];
                if k == K::PC {
                    let p = self.pooled_valid_at(&tip.hash);
                    if p.is_empty() {
                        return;
                    }
                    let n = r.range(1, p.len() as u64) as usize;
                    for t in p.into_iter().take(n) {
                        txs.push(self.txs[(self.txid[&t.signature] - 1) as usize].clone());
                    }
                } else if k == K::PX {
                    match self.conflicting(&tip.hash, r) {
                        Some(t) => txs.push(t),
                        None => return,
                    }
                } else if !free.is_empty() && r.coin(1, 2) {
                    let u = r.pick(&free).clone();
                    txs.push(self.mk(vec![u], 0, false));
                }
                let c = r.range(1, 3);
                if let Some(b) = self.build(&tip, c, txs, r).await {
                    self.deliver(out, b, true, kname(k)).await;
                }
            }
            K::SC | K::SX => {
                // a sibling of the tip
                if tip.id < 2 {
                    return;
                }
                let parent = self.blocks[&tip.previous_block_hash].clone();
                let mut txs = vec![];
                if k == K::SC {
                    let p = self.pooled_valid_at(&parent.hash);
                    if p.is_empty() {
                        return;
                    }
                    let t = r.pick(&p).clone();
                    txs.push(self.txs[(self.txid[&t.signature] - 1) as usize].clone());
                } else {
                    match self.conflicting(&parent.hash, r) {
                        Some(t) => txs.push(t),
                        None => return,
                    }
                }
                let c = r.range(1, 3);
                if let Some(b) = self.build(&parent, c, txs, r).await {
                    self.deliver(out, b, true, kname(k)).await;
                }
            }
            K::RO => {
                // make the most recent side branch win: extend it until it is adopted (at most 3 blocks)
                if tip.id < 2 {
                    return;
                }
                let cand = self.sides.iter().rev().find(|h| {
                    self.node.blockchain.blocks.get(*h).map(|b| !b.in_longest_chain && b.id + 1 >= tip.id && b.id <= tip.id).unwrap_or(false)
                }).cloned();
                let mut base = match cand {
                    Some(h) => self.blocks[&h].clone(),
                    None => {
                        let parent = self.blocks[&tip.previous_block_hash].clone();
                        let c = r.range(1, 3);
                        match self.build(&parent, c, vec![], r).await {
                            Some(b) => {
                                let cls = self.deliver(out, b.clone(), true, "ro-sibling").await;
                                if cls != "added_side" {
                                    return;
                                }
                                b
                            }
                            None => return,
                        }
                    }
                };
                for _ in 0..3 {
                    if self.ended {
                        return;
                    }
                    let mut txs = vec![];
                    if r.coin(1, 2) {
                        if let Some(t) = self.conflicting(&base.hash, r) {
                            txs.push(t);
                        }
                    } else {
                        let p = self.pooled_valid_at(&base.hash);
                        if !p.is_empty() {
                            let t = r.pick(&p).clone();
                            txs.push(self.txs[(self.txid[&t.signature] - 1) as usize].clone());
                        }
                    }
                    let c = r.range(1, 3);
                    let b = match self.build(&base, c, txs, r).await {
                        Some(b) => b,
                        None => return,
                    };
                    let cls = self.deliver(out, b.clone(), true, "ro-child").await;
                    if cls != "added_side" {
                        break;
                    }
                    base = b;
                }
            }
            K::FO | K::FF | K::FP => {
                let mut txs = vec![];
                if k == K::FO {
                    for t in self.pooled_valid_at(&tip.hash) {
                        if r.coin(2, 3) {
                            txs.push(self.txs[(self.txid[&t.signature] - 1) as usize].clone());
                        }
                    }
                } else if k == K::FF {
                    if let Some(t) = self.conflicting(&tip.hash, r) {
                        txs.push(t);
                    }
                }
                if txs.is_empty() && !free.is_empty() {
                    let u = r.pick(&free).clone();
                    txs.push(self.mk(vec![u], 3000, true));
                }
                let creator = if k == K::FP { 2 } else { ME };
                if let Some(mut b) = self.build(&tip, creator, txs, r).await {
                    b.difficulty += 7;
                    self.f.resign(&mut b, creator);
                    if b.generate().is_err() {
                        return;
                    }
                    self.deliver(out, b, false, kname(k)).await;
                }
            }
        }
        if !self.ended {
            self.monitors(out, r).await;
        }
    }
}

// ---------------------------------------------------------------------- witnesses, calibration, cases

/// the op sequences behind the listed findings (also in corpus/C14/*.ops)
pub fn witnesses() -> Vec<(&'static str, Vec<K>)> {
    vec![
        // a pooled tx spends {a,b}; a peer block spends a; the tx is dropped but both reservations stay; b is refused
        ("stale-reservation", vec![K::A2, K::PX, K::AP]),
        // a pooled tx is confirmed by a SIDE block: dropped from the pool, its reservation stays, the output is still unspent
        ("stale-after-side-block", vec![K::PU, K::A1, K::SC, K::AP]),
        // own block rejected: transactions re-inserted without reservations; a conflicting one is accepted; bundling loses both
        ("readd-then-conflict", vec![K::A1, K::FB, K::AC, K::BL]),
        ("refused-mixed-transaction-keeps-nothing-reserved", vec![K::A1, K::AM, K::AN, K::BL, K::A1, K::A1, K::AM, K::AN, K::AM, K::AN]),
        // the same through peer inputs only: an issuance-typed transaction makes the node's own block invalid
        ("issuance-poisons-bundle", vec![K::A1, K::AI, K::BL, K::AC, K::BL]),
        // a transaction listing one output twice passes validation; Block::create then fails after draining the pool
        ("repeated-input-empties-pool", vec![K::A1, K::AA, K::BL, K::AP]),
        // … and leaves the work counter behind: a work-less transaction then passes the work gate of an early bundle and
        // the node's own block lacks routing work
        ("stale-work-invalid-own-block", vec![K::PU, K::AF, K::AA, K::BL, K::A0, K::BE]),
    ]
}

fn corpus_cases() -> Vec<(String, Vec<K>)> {
    let mut v = vec![];
    let dir = format!("{}/corpus/C14", verif_root());
    if let Ok(rd) = std::fs::read_dir(&dir) {
        let mut names: Vec<_> = rd.filter_map(|e| e.ok()).map(|e| e.path()).filter(|p| p.extension().map(|x| x == "ops").unwrap_or(false)).collect();
        names.sort();
        for p in names {
            if let Ok(s) = std::fs::read_to_string(&p) {
                for (i, l) in s.lines().enumerate() {
                    let l = l.split('#').next().unwrap().trim();
                    if l.is_empty() {
                        continue;
                    }
                    let ks: Vec<K> = l.split_whitespace().filter_map(kparse).collect();
                    v.push((format!("corpus:{}:{}", p.file_name().unwrap().to_string_lossy(), i + 1), ks));
                }
            }
        }
    }
    v
}

async fn run_seq(seed: u64, name: &str, ks: &[K], out: &mut Out) -> World {
    let mut r = Rng::new(seed ^ 0xC14);
    let mut w = World::new(seed, out, name).await;
    for k in ks {
        w.apply(out, *k, &mut r).await;
    }
    w
}

/// measure the defect flags of the tree under test by replaying the witnesses on the real code
pub fn calibrate() -> String {
    let rt = rt();
    let dir = std::env::temp_dir().join(format!("pool-calib-{}", std::process::id()));
    let dirs = dir.to_string_lossy().to_string();
    let mut out = Out::new(&dirs);
    let (release, readd, atomic, normal, dupin, clock) = rt.block_on(async {
        // release: after A2, PX the reservations are gone
        let w = run_seq(7, "calib-release", &[K::A2, K::PX], &mut out).await;
        let release = w.node.mempool.transactions.is_empty() && w.node.mempool.utxo_map.is_empty();
        // readd: after A1, FB (own bundled block rejected) the re-inserted transaction's input is reserved
        let w = run_seq(7, "calib-readd", &[K::A1, K::FB], &mut out).await;
        let readd = !w.node.mempool.transactions.is_empty()
            && w.node.mempool.transactions.values().all(|t| t.from.iter().all(|s| w.node.mempool.utxo_map.contains_key(&s.utxoset_key)));
        // atomic: two conflicting transactions placed in the map directly (as add_block_transactions_back does); a failed
        // Block::create must leave them there
        let mut w = run_seq(7, "calib-atomic", &[K::A1], &mut out).await;
        let mut r = Rng::new(5);
        let tip = w.tip().hash;
        let c = w.conflicting(&tip, &mut r).unwrap();
        let mut c2 = c.clone();
        c2.generate(&w.node.pk, 0, 0);
        w.node.mempool.transactions.insert(c2.signature, c2);
        let tipb = w.tip();
        let res = guarded_async(w.node.mempool.bundle_block(&w.node.blockchain, tipb.timestamp + DT_LATE, None, &w.node.cfg, &w.node.storage)).await;
        let atomic = matches!(res, Ok(None)) && w.node.mempool.transactions.len() == 2;
        // normal-only: an issuance-typed transaction does not enter the pool
        let w = run_seq(7, "calib-normal", &[K::AI], &mut out).await;
        let normal = w.node.mempool.transactions.is_empty();
        // repeated input: such a transaction does not enter the pool
        let w = run_seq(7, "calib-dupin", &[K::AA], &mut out).await;
        let dupin = w.node.mempool.transactions.is_empty();
        // clock: a bundle attempt at the tip's own timestamp returns None instead of asserting
        let mut w = run_seq(7, "calib-clock", &[K::A1], &mut out).await;
        let tipb = w.tip();
        let res = guarded_async(w.node.mempool.bundle_block(&w.node.blockchain, tipb.timestamp, None, &w.node.cfg, &w.node.storage)).await;
        let clock = matches!(res, Ok(None));
        (release, readd, atomic, normal, dupin, clock)
    });
    drop(out);
    let _ = std::fs::remove_dir_all(&dir);
    format!("release={} readd={} atomic={} normal={} dupin={} clock={}", release as u8, readd as u8, atomic as u8, normal as u8, dupin as u8, clock as u8)
}

pub fn run(seed: u64, tier: &str, outdir: &str) {
    let thorough = tier == "thorough";
    let flags = calibrate();
    let chain_flags = crate::chain::calibrate();
    let mut out = Out::new(outdir);
    out.setup(&format!("flags {} {}", chain_flags, flags));
    let rt = rt();
    let mut cases: Vec<(String, Vec<K>)> = vec![];
    for (n, ks) in witnesses() {
        cases.push((format!("witness:{}", n), ks));
    }
    cases.extend(corpus_cases());
    // exhaustive A: every sequence of `depth` ops over a 12-letter alphabet from the bare state (genesis only)
    let small = [K::A2, K::AC, K::AM, K::AN, K::AP, K::BL, K::PC, K::PX, K::FB, K::SC, K::RO, K::AI, K::AA, K::BE];
    let depth = if thorough { 4 } else { 3 };
    let mut seqs: Vec<Vec<K>> = vec![vec![]];
    for _ in 0..depth {
        let mut next = vec![];
        for s in &seqs {
            for k in small.iter() {
                let mut t = s.clone();
                t.push(*k);
                next.push(t);
            }
        }
        seqs = next;
    }
    for (i, s) in seqs.into_iter().enumerate() {
        cases.push((format!("exhA:{}", i), s));
    }
    // exhaustive B: from a state with chain height 2 and two pooled transactions, every pair (thorough: every
    // triple over 14 letters) over the WHOLE alphabet
    let prefix = [K::PU, K::A2, K::A1];
    let mut nb = 0;
    if thorough {
        let mid = [K::A2, K::AC, K::AM, K::AN, K::AP, K::BL, K::PC, K::PX, K::FB, K::SC, K::SX, K::RO, K::AI, K::AA, K::BE, K::FO];
        for a in mid.iter() {
            for b in mid.iter() {
                for c in mid.iter() {
                    let mut s = prefix.to_vec();
                    s.extend([*a, *b, *c]);
                    cases.push((format!("exhB:{}", nb), s));
                    nb += 1;
                }
            }
        }
    }
    for (a, _) in ALL.iter() {
        for (b, _) in ALL.iter() {
            let mut s = prefix.to_vec();
            s.extend([*a, *b]);
            cases.push((format!("exhB:{}", nb), s));
            nb += 1;
        }
    }
    // random longer sequences over the whole alphabet (weighted)
    let weights: [(K, u64); 30] = [
        (K::A1, 10), (K::A2, 8), (K::AZ, 3), (K::AC, 8), (K::AD, 4), (K::AS, 3), (K::AR, 4), (K::AI, 2), (K::AB, 2), (K::AG, 1), (K::AA, 2), (K::AP, 6), (K::AF, 3), (K::A0, 2), (K::AM, 5), (K::AN, 5),
        (K::BL, 8), (K::BE, 5), (K::BJ, 2), (K::BS, 1),
        (K::PC, 6), (K::PX, 6), (K::PU, 4), (K::SC, 4), (K::SX, 3), (K::RO, 5),
        (K::FO, 3), (K::FF, 3), (K::FP, 2), (K::FB, 5),
    ];
    let total: u64 = weights.iter().map(|w| w.1).sum();
    let mut r = Rng::new(seed);
    let (nrand, maxlen) = if thorough { (3000, 25) } else { (400, 12) };
    for i in 0..nrand {
        let n = r.range(4, maxlen) as usize;
        let mut s = vec![];
        for _ in 0..n {
            let mut x = r.below(total);
            for (k, wt) in weights.iter() {
                if x < *wt {
                    s.push(*k);
                    break;
                }
                x -= wt;
            }
        }
        cases.push((format!("rand:{}", i), s));
    }
    let ncases = cases.len();
    rt.block_on(async {
        for (i, (name, ks)) in cases.iter().enumerate() {
            // witnesses and corpus lines replay with a fixed seed (independent of the run's seed and of their position)
            let cseed = if name.starts_with("witness:") || name.starts_with("corpus:") { 7 } else { seed.wrapping_add(i as u64) };
            let w = run_seq(cseed, name, ks, &mut out).await;
            out.count(&format!("history:{}", w.feat()));
            out.count(&format!("chain-height:{}", w.tip().id.min(12)));
        }
    });
    out.finish(serde_json::json!({"cases": ncases, "flags": flags}));
}

/// replay one sequence: `harness pool-one <seed> "<ops>" x`
pub fn one(seed: u64, ops: &str) {
    let ks: Vec<K> = ops.split_whitespace().filter_map(kparse).collect();
    let dir = std::env::temp_dir().join(format!("pool-one-{}", std::process::id()));
    let dirs = dir.to_string_lossy().to_string();
    let mut out = Out::new(&dirs);
    rt().block_on(async {
        run_seq(seed, "one", &ks, &mut out).await;
    });
    for mf in &out.monitor_failures {
        println!("MONITOR {}", mf["key"].as_str().unwrap_or(""));
    }
    out.finish(serde_json::json!({}));
    println!("{}", std::fs::read_to_string(format!("{}/ops.txt", dirs)).unwrap_or_default().lines().zip(std::fs::read_to_string(format!("{}/impl.txt", dirs)).unwrap_or_default().lines()).map(|(a, b)| format!("{}\n    => {}", a, b)).collect::<Vec<_>>().join("\n"));
    let _ = std::fs::remove_dir_all(&dir);
}
