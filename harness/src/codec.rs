//! C09 / C10 correspondence: every decoder of saito-core against the Lean codec model.
//! Request line: `dec <fmt> <hex>`; answer: `ok <re-encoded hex> [field dump]` | `err` | `panic`.
use crate::alloc::measure;
use crate::common::*;
use saito_core::core::consensus::block::{Block, BlockType};
use saito_core::core::consensus::golden_ticket::GoldenTicket;
use saito_core::core::consensus::hop::Hop;
use saito_core::core::consensus::peers::peer_service::PeerService;
use saito_core::core::consensus::slip::{Slip, SlipType};
use saito_core::core::consensus::transaction::{Transaction, TransactionType};
use saito_core::core::consensus::wallet::Wallet;
use saito_core::core::msg::api_message::ApiMessage;
use saito_core::core::msg::block_request::BlockchainRequest;
use saito_core::core::msg::ghost_chain_sync::GhostChainSync;
use saito_core::core::msg::handshake::{HandshakeChallenge, HandshakeResponse};
use saito_core::core::msg::message::Message;
use saito_core::core::process::version::Version;
use saito_core::core::util::serialize::Serialize;
use num_traits::FromPrimitive;

fn slip_dump(s: &Slip) -> String {
    format!(
        "{}:{}:{}:{}:{}:{}",
        s.amount,
        s.block_id,
        s.tx_ordinal,
        s.slip_index,
        s.slip_type as u8,
        hex(&s.public_key)
    )
}
fn tx_dump(t: &Transaction) -> String {
    format!(
        "ts={} repl={} typ={} in=[{}] out=[{}] dlen={} hops={} size={}",
        t.timestamp,
        t.txs_replacements,
        t.transaction_type as u8,
        t.from.iter().map(slip_dump).collect::<Vec<_>>().join(","),
        t.to.iter().map(slip_dump).collect::<Vec<_>>().join(","),
        t.data.len(),
        t.path.len(),
        t.get_serialized_size()
    )
}
fn block_nums(b: &Block) -> Vec<u64> {
    vec![
        b.graveyard,
        b.treasury,
        b.burnfee,
        b.difficulty,
        b.avg_fee_per_byte,
        b.avg_nolan_rebroadcast_per_block,
        b.previous_block_unpaid,
        b.avg_total_fees,
        b.avg_total_fees_new,
        b.avg_total_fees_atr,
        b.avg_payout_routing,
        b.avg_payout_mining,
        b.avg_payout_treasury,
        b.avg_payout_graveyard,
        b.avg_payout_atr,
        b.total_payout_routing,
        b.total_payout_mining,
        b.total_payout_treasury,
        b.total_payout_graveyard,
        b.total_payout_atr,
        b.total_fees,
        b.total_fees_new,
        b.total_fees_atr,
        b.fee_per_byte,
        b.total_fees_cumulative,
    ]
}
fn block_dump(b: &Block) -> String {
    format!(
        "id={} ts={} nums=[{}] ntx={} hdr={} creator={}",
        b.id,
        b.timestamp,
        block_nums(b).iter().map(|x| x.to_string()).collect::<Vec<_>>().join(", "),
        b.transactions.len(),
        b.block_type == BlockType::Header,
        hex(&b.creator)
    )
}

/// the real decoders, answer in the driver's format; second component = peak bytes allocated by the
/// decoder call alone (formatting of the answer is not counted)
pub fn impl_decode(fmt: &str, bytes: &[u8]) -> (String, usize) {
    let v = bytes.to_vec();
    let peak = std::cell::Cell::new(0usize);
    macro_rules! m {
        ($e:expr) => {{
            let (r, p) = measure(|| $e);
            peak.set(p);
            r
        }};
    }
    let r = guarded(|| -> Option<String> {
        match fmt {
            "slip" => m!(Slip::deserialize_from_net(&v))
                .ok()
                .map(|s| format!("{} {}", hex(&s.serialize_for_net()), slip_dump(&s))),
            "hop" => m!(Hop::deserialize_from_net(&v)).ok().map(|h| hex(&h.serialize_for_net())),
            "tx" => m!(Transaction::deserialize_from_net(&v))
                .ok()
                .map(|t| format!("{} {}", hex(&t.serialize_for_net()), tx_dump(&t))),
            "block" => m!(Block::deserialize_from_net(&v)).ok().map(|b| {
                let ty = if b.block_type == BlockType::Header { BlockType::Header } else { BlockType::Full };
                format!("{} {}", hex(&b.serialize_for_net(ty)), block_dump(&b))
            }),
            "blockhdr" => m!(Block::deserialize_from_net(&v))
                .ok()
                .map(|b| hex(&b.serialize_for_net(BlockType::Header))),
            "gt" => Some(hex(&m!(GoldenTicket::deserialize_from_net(&v)).serialize_for_net())),
            "wallet" => {
                // the pinned decoder returns `()`, a repaired one may return a `Result`: both are accepted
                let mut w = Wallet::new([0; 32], [0; 33]);
                match UnitOrResult::as_result(m!(w.deserialize_from_disk(&v))) {
                    Ok(()) => Some(hex(&w.serialize_for_disk())),
                    Err(()) => None,
                }
            }
            "msg" => m!(Message::deserialize(v.clone()))
                .ok()
                .map(|m| format!("{} {}", m.get_type_value(), hex(&m.serialize()))),
            "ghost" => Some(hex(&m!(GhostChainSync::deserialize(v.clone())).serialize())),
            "services" => m!(PeerService::deserialize_services(v.clone()))
                .ok()
                .map(|l| format!("{} n={}", hex(&PeerService::serialize_services(&l)), l.len())),
            "hsresp" => m!(HandshakeResponse::deserialize(&v)).ok().map(|r| hex(&r.serialize())),
            _ => panic!("unknown fmt"),
        }
    });
    let s = match r {
        Ok(Some(s)) => format!("ok {}", s),
        Ok(None) => "err".to_string(),
        Err(_) => "panic".to_string(),
    };
    (s, peak.get())
}

pub fn gen_pk(r: &mut Rng) -> [u8; 33] {
    let mut k = [0u8; 33];
    if r.coin(1, 8) {
        return k;
    }
    k.copy_from_slice(&r.bytes(33));
    k
}
pub fn gen_slip(r: &mut Rng) -> Slip {
    let mut s = Slip::default();
    s.public_key = gen_pk(r);
    s.amount = r.edge_u64();
    s.block_id = r.edge_u64();
    s.tx_ordinal = r.edge_u64();
    s.slip_index = r.next() as u8;
    s.slip_type = SlipType::from_u8(r.below(10) as u8).unwrap();
    s
}
pub fn gen_hop(r: &mut Rng) -> Hop {
    let mut h = Hop::default();
    h.from = gen_pk(r);
    h.to = gen_pk(r);
    h.sig.copy_from_slice(&r.bytes(64));
    h
}
fn small_count(r: &mut Rng) -> usize {
    match r.below(12) {
        0 | 1 | 2 => 0,
        3 | 4 | 5 => 1,
        6 | 7 => 2,
        8 => 3,
        9 => r.range(4, 12) as usize,
        10 => 254,
        _ => 255,
    }
}
pub fn gen_tx(r: &mut Rng, big: bool) -> Transaction {
    let mut t = Transaction::default();
    t.timestamp = r.edge_u64();
    t.txs_replacements = r.edge_u64() as u32;
    t.transaction_type = TransactionType::from_u8(r.below(9) as u8).unwrap();
    t.signature.copy_from_slice(&r.bytes(64));
    let (ni, no) = if big { (small_count(r), small_count(r)) } else { (r.below(3) as usize, r.below(3) as usize) };
    t.from = (0..ni).map(|_| gen_slip(r)).collect();
    t.to = (0..no).map(|_| gen_slip(r)).collect();
    let dl = match r.below(8) {
        0 | 1 => 0,
        2 => 1,
        3 => 97,
        4 if big => 65536,
        _ => r.below(200) as usize,
    };
    t.data = r.bytes(dl);
    let nh = r.below(7) as usize;
    t.path = (0..if r.coin(1, 2) { 0 } else { nh }).map(|_| gen_hop(r)).collect();
    t
}
pub fn gen_block(r: &mut Rng, ntx: usize) -> Block {
    let mut b = Block::new();
    b.id = r.edge_u64();
    if r.coin(1, 6) {
        b.id = 1;
    }
    b.timestamp = r.edge_u64();
    if !r.coin(1, 6) {
        b.previous_block_hash.copy_from_slice(&r.bytes(32));
    }
    b.creator = gen_pk(r);
    b.merkle_root.copy_from_slice(&r.bytes(32));
    b.signature.copy_from_slice(&r.bytes(64));
    b.graveyard = r.edge_u64();
    b.treasury = r.edge_u64();
    b.burnfee = r.edge_u64();
    b.difficulty = r.edge_u64();
    b.avg_fee_per_byte = r.edge_u64();
    b.avg_nolan_rebroadcast_per_block = r.edge_u64();
    b.previous_block_unpaid = r.edge_u64();
    b.avg_total_fees = r.edge_u64();
    b.avg_total_fees_new = r.edge_u64();
    b.avg_total_fees_atr = r.edge_u64();
    b.avg_payout_routing = r.edge_u64();
    b.avg_payout_mining = r.edge_u64();
    b.avg_payout_treasury = r.edge_u64();
    b.avg_payout_graveyard = r.edge_u64();
    b.avg_payout_atr = r.edge_u64();
    b.total_payout_routing = r.edge_u64();
    b.total_payout_mining = r.edge_u64();
    b.total_payout_treasury = r.edge_u64();
    b.total_payout_graveyard = r.edge_u64();
    b.total_payout_atr = r.edge_u64();
    b.total_fees = r.edge_u64();
    b.total_fees_new = r.edge_u64();
    b.total_fees_atr = r.edge_u64();
    b.fee_per_byte = r.edge_u64();
    b.total_fees_cumulative = r.edge_u64();
    b.transactions = (0..ntx).map(|_| gen_tx(r, false)).collect();
    b
}
fn gen_str(r: &mut Rng) -> String {
    let n = r.below(6) as usize;
    (0..n)
        .map(|_| *r.pick(&['a', 'b', 'z', '0', '.', '/', 'é', '漢', '😀', ' ']))
        .collect()
}
fn gen_services(r: &mut Rng) -> Vec<PeerService> {
    (0..r.below(4))
        .map(|_| PeerService { service: gen_str(r), domain: gen_str(r), name: gen_str(r) })
        .collect()
}
fn gen_ghost(r: &mut Rng) -> GhostChainSync {
    let n = *r.pick(&[0usize, 1, 2, 3, 10]);
    let mut start = [0u8; 32];
    start.copy_from_slice(&r.bytes(32));
    GhostChainSync {
        start,
        prehashes: (0..n).map(|_| r.bytes(32).try_into().unwrap()).collect(),
        previous_block_hashes: (0..n).map(|_| r.bytes(32).try_into().unwrap()).collect(),
        block_ids: (0..n).map(|_| r.edge_u64()).collect(),
        block_ts: (0..n).map(|_| r.edge_u64()).collect(),
        txs: (0..n).map(|_| r.coin(1, 2)).collect(),
        gts: (0..n).map(|_| r.coin(1, 2)).collect(),
    }
}
fn gen_hsresp(r: &mut Rng) -> HandshakeResponse {
    HandshakeResponse {
        public_key: gen_pk(r),
        signature: r.bytes(64).try_into().unwrap(),
        is_lite: r.coin(1, 2),
        block_fetch_url: if r.coin(1, 3) { String::new() } else { format!("http://{}:{}/", gen_str(r), r.below(65536)) },
        challenge: r.bytes(32).try_into().unwrap(),
        services: gen_services(r),
        wallet_version: Version::new(r.next() as u8, r.next() as u8, r.next() as u16),
        core_version: Version::new(r.next() as u8, r.next() as u8, r.next() as u16),
    }
}
/// one valid message of the given tag (1..=15), serialised by the real code
fn gen_msg_bytes(r: &mut Rng, tag: u8) -> Vec<u8> {
    let m = match tag {
        1 => Message::HandshakeChallenge(HandshakeChallenge { challenge: r.bytes(32).try_into().unwrap() }),
        2 => Message::HandshakeResponse(gen_hsresp(r)),
        3 => {
            let n = r.below(3) as usize;
            Message::Block(gen_block(r, n))
        }
        4 => Message::Transaction(gen_tx(r, false)),
        5 => {
            // BlockchainRequest has crate-private fields: build it through its own decoder
            let mut b = r.edge_u64().to_be_bytes().to_vec();
            b.extend(r.bytes(64));
            Message::BlockchainRequest(BlockchainRequest::deserialize(&b).unwrap())
        }
        6 => Message::BlockHeaderHash(r.bytes(32).try_into().unwrap(), r.edge_u64()),
        7 => Message::Ping(),
        8 => Message::SPVChain(),
        9 => Message::Services(gen_services(r)),
        10 => Message::GhostChain(gen_ghost(r)),
        11 => Message::GhostChainRequest(r.edge_u64(), r.bytes(32).try_into().unwrap(), r.bytes(32).try_into().unwrap()),
        12 => Message::ApplicationMessage(ApiMessage { msg_index: r.next() as u32, data: { let n = r.below(40) as usize; r.bytes(n) } }),
        13 => Message::Result(ApiMessage { msg_index: r.next() as u32, data: { let n = r.below(40) as usize; r.bytes(n) } }),
        14 => Message::Error(ApiMessage { msg_index: r.next() as u32, data: { let n = r.below(40) as usize; r.bytes(n) } }),
        _ => Message::KeyListUpdate((0..r.below(4)).map(|_| gen_pk(r)).collect()),
    };
    m.serialize()
}

/// where the worker's lines go (stdout of the child process)
struct Emit {
    idx: usize,
    start: usize,
}
impl Emit {
    fn line(&self, tag: &str, s: &str) {
        use std::io::Write;
        let o = std::io::stdout();
        let mut o = o.lock();
        writeln!(o, "{}\t{}", tag, s).unwrap();
        o.flush().unwrap();
    }
    fn count(&self, key: &str) {
        self.line("H", key);
    }
    fn monitor_fail(&self, key: &str, what: &str, replay: serde_json::Value) {
        self.line("M", &format!("{}\t{}\t{}", key, what.replace('\t', " ").replace('\n', " "), replay));
    }
}

struct Ctx<'a> {
    out: &'a mut Emit,
    max_ratio_milli: u64,
    worst_alloc: (String, usize, usize),
}

impl<'a> Ctx<'a> {
    /// run one input through the real decoder, record the model request, and apply the direct monitors
    fn feed(&mut self, fmt: &str, bytes: &[u8], origin: &str) {
        let idx = self.out.idx;
        self.out.idx += 1;
        if idx < self.out.start {
            return; // already done by a previous worker
        }
        self.out.line("C", &idx.to_string());
        let op = format!("dec {} {}", fmt, hex(bytes));
        self.out.line("O", &op);
        let (ans, peak) = impl_decode(fmt, bytes);
        let cls = ans.split(' ').next().unwrap().to_string();
        self.out.count(&format!("{}:{}:{}", fmt, origin, cls));
        // C10 monitor (independent of the model): never panic, bounded allocation
        if cls == "panic" {
            let key = panic_key(fmt, bytes);
            self.out.monitor_fail(&key, "decoder panicked", serde_json::json!({"fmt": fmt, "hex": hex(bytes)}));
        }
        // allocation bound: a small multiple of the input length plus a constant (wallet/ghost create fixed objects)
        let bound = 8 * bytes.len() + 4096;
        if peak > bound {
            self.out.monitor_fail(
                &format!("C10/{}/allocation", fmt),
                &format!("peak allocation {} for input of {} bytes", peak, bytes.len()),
                serde_json::json!({"fmt": fmt, "hex": hex(&bytes[..bytes.len().min(400)])}),
            );
        }
        // C09 monitor (independent of the model): the bytes the real ENCODER produced decode to a value that encodes to the same
        // bytes again (formats whose answer is the re-encoding; "ok <hex>")
        if origin == "valid" && cls == "ok" && matches!(fmt, "slip" | "hop" | "tx" | "msg" | "hsresp" | "services" | "gt" | "ghost") {
            if let Some(re) = ans.split(' ').nth(if fmt == "msg" { 2 } else { 1 }) {
                {
                    if re != hex(bytes) {
                        self.out.monitor_fail(
                            &format!("C09/{}/roundtrip", fmt),
                            "an encoding produced by the real encoder decodes to a value that encodes to other bytes (a field was lost or changed)",
                            serde_json::json!({"fmt": fmt, "hex": hex(&bytes[..bytes.len().min(2000)]), "reencoded": &re[..re.len().min(4000)]}),
                        );
                    }
                }
            }
        }
        // … and is not refused: every input of origin "valid" is what the real encoder made of a structurally valid value
        if origin == "valid" && cls == "err" {
            self.out.monitor_fail(
                &format!("C09/{}/valid-encoding-rejected", fmt),
                "an encoding produced by the real encoder from a structurally valid value is refused by the real decoder",
                serde_json::json!({"fmt": fmt, "hex": hex(&bytes[..bytes.len().min(2000)])}),
            );
        }
        let ratio = (peak as u64 * 1000) / (bytes.len() as u64 + 512);
        if ratio > self.max_ratio_milli {
            self.max_ratio_milli = ratio;
            self.worst_alloc = (fmt.to_string(), bytes.len(), peak);
        }
        self.out.line("I", &ans);
    }

    /// C09 monitor on a value produced by the real encoder: decode gives back the same bytes, the size
    /// prediction is right, and hash / signature bytes survive.
    fn roundtrip_tx(&mut self, t: &Transaction) {
        let b = t.serialize_for_net();
        if b.len() != t.get_serialized_size() {
            self.out.monitor_fail("C09/tx/size", "get_serialized_size != encoded length", serde_json::json!({"hex": hex(&b)}));
        }
        match guarded(|| Transaction::deserialize_from_net(&b)) {
            Ok(Ok(d)) => {
                if d.serialize_for_net() != b || d.serialize_for_signature() != t.serialize_for_signature() || tx_dump(&d) != tx_dump(t) {
                    self.out.monitor_fail("C09/tx/roundtrip", "decoded transaction differs", serde_json::json!({"hex": hex(&b)}));
                }
            }
            _ => self.out.monitor_fail("C09/tx/roundtrip", "valid encoding rejected", serde_json::json!({"hex": hex(&b)})),
        }
    }
    fn roundtrip_block(&mut self, blk: &Block) {
        let b = blk.serialize_for_net(BlockType::Full);
        match guarded(|| Block::deserialize_from_net(&b)) {
            Ok(Ok(mut d)) => {
                let ty = if d.block_type == BlockType::Header { BlockType::Header } else { BlockType::Full };
                let mut orig = blk.clone();
                orig.generate_pre_hash();
                orig.generate_hash();
                d.generate_pre_hash();
                d.generate_hash();
                if d.serialize_for_net(ty) != b || d.hash != orig.hash || block_dump_nohdr(&d) != block_dump_nohdr(blk) {
                    self.out.monitor_fail("C09/block/roundtrip", "decoded block differs (bytes, hash or fields)", serde_json::json!({"hex": hex(&b[..b.len().min(2000)])}));
                }
            }
            _ => self.out.monitor_fail("C09/block/roundtrip", "valid encoding rejected", serde_json::json!({"hex": hex(&b[..b.len().min(2000)])})),
        }
    }
}
fn block_dump_nohdr(b: &Block) -> String {
    format!("{} {} {:?} {}", b.id, b.timestamp, block_nums(b), b.transactions.len())
}

/// finding key of a panic: names the decoder and the input class, so that a *different* panic has a different key
pub fn panic_key(fmt: &str, bytes: &[u8]) -> String {
    let be32 = |o: usize| u32::from_be_bytes(bytes[o..o + 4].try_into().unwrap()) as usize;
    match fmt {
        "tx" => {
            if bytes.len() >= 93 && 93 + (be32(0) + be32(4)) * 59 + be32(8) + be32(12) * 130 > bytes.len() {
                "C10/Transaction::deserialize_from_net/claimed-lengths-exceed-buffer".into()
            } else {
                "C10/Transaction::deserialize_from_net/other".into()
            }
        }
        "ghost" => {
            if bytes.len() < 36 || bytes.len() - 36 < be32(32) * 82 {
                "C10/GhostChainSync::deserialize/short-or-inconsistent-buffer".into()
            } else {
                "C10/GhostChainSync::deserialize/other".into()
            }
        }
        "gt" => {
            if bytes.len() != 97 {
                "C10/GoldenTicket::deserialize_from_net/length-not-97".into()
            } else {
                "C10/GoldenTicket::deserialize_from_net/other".into()
            }
        }
        "wallet" => {
            if bytes.len() < 65 {
                "C10/Wallet::deserialize_from_disk/shorter-than-65".into()
            } else {
                "C10/Wallet::deserialize_from_disk/other".into()
            }
        }
        "msg" => {
            if bytes.is_empty() {
                return "C10/Message::deserialize/other".into();
            }
            match bytes[0] {
                4 => panic_key("tx", &bytes[1..]).replace("C10/", "C10/Message(4)→"),
                10 => panic_key("ghost", &bytes[1..]).replace("C10/", "C10/Message(10)→"),
                t => format!("C10/Message::deserialize/tag-{}", t),
            }
        }
        _ => format!("C10/{}/unexpected-panic", fmt),
    }
}

/// boundary values for a 4-byte length/count field given the buffer length
fn len_edges(len: usize) -> Vec<u32> {
    let l = len as u32;
    vec![0, 1, l.saturating_sub(1), l, l.saturating_add(1), 255, 256, 1 << 31, u32::MAX]
}

fn mutate_and_feed(c: &mut Ctx, r: &mut Rng, fmt: &str, valid: &[u8], len_fields: &[usize], all_trunc: bool) {
    c.feed(fmt, valid, "valid");
    // truncations: every prefix (small inputs / thorough) or a spread incl. all structural boundaries
    let n = valid.len();
    let cuts: Vec<usize> = if all_trunc || n <= 200 {
        (0..n).collect()
    } else {
        let mut v: Vec<usize> = (0..120.min(n)).collect();
        v.extend((0..24).map(|_| r.below(n as u64) as usize));
        v.extend([n - 1, n - 2, n / 2]);
        v
    };
    for k in cuts {
        c.feed(fmt, &valid[..k], "trunc");
    }
    // every length/count field to every boundary value
    for &off in len_fields {
        if off + 4 > n {
            continue;
        }
        for e in len_edges(n) {
            let mut m = valid.to_vec();
            m[off..off + 4].copy_from_slice(&e.to_be_bytes());
            c.feed(fmt, &m, "lenfield");
        }
    }
    // single byte corruption, extension
    for _ in 0..6 {
        if n == 0 {
            break;
        }
        let mut m = valid.to_vec();
        let i = r.below(n as u64) as usize;
        m[i] = r.next() as u8;
        c.feed(fmt, &m, "flip");
    }
    let mut m = valid.to_vec();
    let k = 1 + r.below(40) as usize;
    m.extend(r.bytes(k));
    c.feed(fmt, &m, "extend");
}

/// parent: the decoders run in a child process, so that an allocation abort (or a decoder that never returns)
/// becomes the answer `abort` / `stall` with a finding, instead of killing the run
pub fn run(seed: u64, tier: &str, outdir: &str) {
    let mut out = Out::new(outdir);
    let n = supervise(&mut out, "codec-worker", seed, tier, 20_000, 30, &|op, died| {
        let fmt = op.split(' ').nth(1).unwrap_or("?").to_string();
        if died {
            ("abort".to_string(), format!("C10/{}/process-aborted-in-decoder", fmt), "the process died inside the decoder call (allocation failure / abort)".to_string())
        } else {
            ("stall".to_string(), format!("C10/{}/decoder-does-not-return", fmt), "the decoder did not return within 20 s".to_string())
        }
    });
    out.finish(serde_json::json!({"worker_failures": n}));
}

/// lets the harness compile against a decoder that returns `()` as well as one that returns `Result<(), _>`
pub trait UnitOrResult {
    fn as_result(self) -> Result<(), ()>;
}
impl UnitOrResult for () {
    fn as_result(self) -> Result<(), ()> {
        Ok(())
    }
}
impl<E> UnitOrResult for Result<(), E> {
    fn as_result(self) -> Result<(), ()> {
        self.map_err(|_| ())
    }
}

pub fn worker(seed: u64, tier: &str, start: usize) {
    let mut out = Emit { idx: 0, start };
    let mut r = Rng::new(seed);
    let thorough = tier == "thorough";
    let reps = if thorough { 40 } else { 4 };
    // calibrate: which listed decoder defects are present in the tree under test (DESIGN §3.2)
    let probe = |fmt: &str, b: &[u8]| if impl_decode(fmt, b).0 == "panic" { 0 } else { 1 };
    let mut hdr = vec![0u8, 0, 0, 1];
    hdr.extend(vec![0u8; 89]);
    let flags = format!(
        "tx={} ghost={} gt={} wallet={} msgghost={}",
        probe("tx", &hdr),
        probe("ghost", &[0u8; 10]),
        probe("gt", &[0u8; 96]),
        probe("wallet", &[0u8; 10]),
        probe("msg", &[10u8, 0, 0, 0, 0, 0, 0, 0, 0, 0, 0])
    );
    if start == 0 {
        out.line("S", &format!("flags {}", flags));
        out.count(&format!("flags_measured {}", flags));
    }
    let mut c = Ctx { out: &mut out, max_ratio_milli: 0, worst_alloc: (String::new(), 0, 0) };

    // corpus first: the witnesses of the known findings and past disagreements
    if let Ok(txt) = std::fs::read_to_string(format!("{}/corpus/C10/witness.ops", crate::common::verif_root())) {
        for l in txt.lines() {
            let p: Vec<&str> = l.split(' ').collect();
            if p.len() == 3 && p[0] == "dec" {
                let b = if p[2] == "-" { vec![] } else { hex::decode(p[2]).unwrap() };
                c.feed(p[1], &b, "corpus");
            }
        }
    }

    for _ in 0..reps {
        // slips, hops
        for _ in 0..6 {
            let s = gen_slip(&mut r).serialize_for_net();
            mutate_and_feed(&mut c, &mut r, "slip", &s, &[], true);
            let h = gen_hop(&mut r).serialize_for_net();
            mutate_and_feed(&mut c, &mut r, "hop", &h, &[], true);
        }
        // slip type byte: every value
        for ty in 0..=255u8 {
            let mut s = gen_slip(&mut r).serialize_for_net();
            s[58] = ty;
            c.feed("slip", &s, "typebyte");
        }
        // transactions
        for i in 0..10 {
            let t = gen_tx(&mut r, i % 3 == 0);
            c.roundtrip_tx(&t);
            let b = t.serialize_for_net();
            mutate_and_feed(&mut c, &mut r, "tx", &b, &[0, 4, 8, 12], thorough && b.len() < 3000);
            for ty in [0u8, 8, 9, 200, 255] {
                let mut m = b.clone();
                m[92] = ty;
                c.feed("tx", &m, "typebyte");
            }
            // inner slip type byte (Err must pre-empt later panics in the same order as the code)
            if !t.from.is_empty() {
                let mut m = b.clone();
                m[93 + 58] = 77;
                c.feed("tx", &m[..m.len() - 1.min(m.len() - 152)], "innerslip");
                c.feed("tx", &m, "innerslip");
            }
        }
        // blocks
        for i in 0..5 {
            let ntx = [0usize, 1, 2, 3, 6][i % 5];
            let mut blk = gen_block(&mut r, ntx);
            if i == 4 {
                // a transaction whose two slip lists are each legal (<= 255) but together exceed 255
                let mut big = gen_tx(&mut r, false);
                let (ni, no) = *r.pick(&[(200usize, 100usize), (255, 255), (255, 1), (1, 255), (128, 128)]);
                big.from = (0..ni).map(|_| gen_slip(&mut r)).collect();
                big.to = (0..no).map(|_| gen_slip(&mut r)).collect();
                blk.transactions.push(big);
            }
            c.roundtrip_block(&blk);
            let b = blk.serialize_for_net(BlockType::Full);
            // length fields: n_tx and the four fields of the first and second tx
            let mut lf = vec![0usize];
            let mut off = 389;
            for t in blk.transactions.iter().take(2) {
                lf.extend([off, off + 4, off + 8, off + 12]);
                off += t.get_serialized_size();
            }
            mutate_and_feed(&mut c, &mut r, "block", &b, &lf, false);
            let hb = blk.serialize_for_net(BlockType::Header);
            c.feed("block", &hb, "header-only");
            c.feed("blockhdr", &b, "valid");
        }
        // golden ticket, wallet file
        for n in [0usize, 1, 32, 64, 96, 97, 98, 130] {
            let b = r.bytes(n);
            c.feed("gt", &b, "len");
        }
        for n in [0usize, 1, 31, 32, 33, 64, 65, 66, 100] {
            let b = r.bytes(n);
            c.feed("wallet", &b, "len");
        }
        // messages of every tag
        for tag in 1..=15u8 {
            for _ in 0..2 {
                let b = gen_msg_bytes(&mut r, tag);
                let lf: Vec<usize> = match tag {
                    2 => vec![1 + 138],
                    3 => vec![1, 1 + 389, 1 + 393, 1 + 397, 1 + 401],
                    4 => vec![1, 5, 9, 13],
                    10 => vec![1 + 32],
                    12 | 13 | 14 => vec![1],
                    _ => vec![],
                };
                mutate_and_feed(&mut c, &mut r, "msg", &b, &lf, thorough && b.len() < 2000);
            }
        }
        // boundary values every run (the random picks above reach them only now and then): a ghost chain without entries, bare
        // and inside a message; a handshake response without url; an empty service list
        {
            let mut g = gen_ghost(&mut r);
            g.prehashes.clear();
            g.previous_block_hashes.clear();
            g.block_ids.clear();
            g.block_ts.clear();
            g.txs.clear();
            g.gts.clear();
            c.feed("ghost", &g.serialize(), "valid");
            c.feed("msg", &Message::GhostChain(g).serialize(), "valid");
            let mut h = gen_hsresp(&mut r);
            h.block_fetch_url = String::new();
            c.feed("hsresp", &h.serialize(), "valid");
        }
        for tag in [0u8, 16, 17, 100, 255] {
            let mut b = vec![tag];
            let k = r.below(100) as usize;
            b.extend(r.bytes(k));
            c.feed("msg", &b, "badtag");
        }
        // bare formats behind the message layer
        for _ in 0..3 {
            let g = gen_ghost(&mut r).serialize();
            mutate_and_feed(&mut c, &mut r, "ghost", &g, &[32], true);
            let h = gen_hsresp(&mut r).serialize();
            mutate_and_feed(&mut c, &mut r, "hsresp", &h, &[138], true);
            let s = PeerService::serialize_services(&gen_services(&mut r));
            mutate_and_feed(&mut c, &mut r, "services", &s, &[], true);
        }
        for s in ["a|b|c;;d|e|f", "a|b", "a|b|c|d", ";", "|", "||", ";;a||;", "x|y|z;"] {
            c.feed("services", s.as_bytes(), "handwritten");
        }
        // random strings
        for fmt in ["slip", "hop", "tx", "block", "msg", "ghost", "hsresp", "services", "gt", "wallet"] {
            for _ in 0..20 {
                let n = match r.below(5) {
                    0 => r.below(8),
                    1 => r.below(100),
                    2 => r.range(90, 160),
                    3 => r.range(380, 520),
                    _ => r.below(1500),
                } as usize;
                let mut b = r.bytes(n);
                if r.coin(1, 2) && n >= 16 {
                    // small counts so that the decoder gets past the header checks
                    for o in [0, 4, 8, 12] {
                        b[o] = 0;
                        b[o + 1] = 0;
                        b[o + 2] = 0;
                        b[o + 3] = r.below(4) as u8;
                    }
                    if n > 92 {
                        b[92] = r.below(9) as u8;
                    }
                }
                c.feed(fmt, &b, "random");
            }
        }
    }
    let wa = format!("worst_alloc fmt={} input_len={} peak={}", c.worst_alloc.0, c.worst_alloc.1, c.worst_alloc.2);
    let n = c.out.idx;
    out.count(&wa);
    out.line("E", &n.to_string());
}
